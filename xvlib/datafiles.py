"""Independent readers of data/*.dat - the oracle for table contents.

They follow the documented file formats (not the C parser's control flow): whitespace-separated
tokens; numbers are kept as the decimal strings written in the file together with their float value.
"""
import os
import re

from .frontend import AnalysisBroken

_cache = {}


def _tokens(path):
    with open(path, 'rb') as fh:
        return fh.read().decode('latin-1').split()


def triples(repo, name):
    """Files of records 'Z NAME VALUE'. Returns list of (Z:int, name:str, value_text:str) in file order.
    Stops, like fscanf("%d %s %lf"), at the first record that does not parse."""
    key = ('triples', repo, name)
    if key in _cache:
        return _cache[key]
    p = os.path.join(repo, 'data', name)
    if not os.path.exists(p):
        raise AnalysisBroken('data file %s missing' % name)
    toks = _tokens(p)
    out = []
    i = 0
    while i + 3 <= len(toks):
        try:
            z = int(toks[i])
            float(toks[i + 2])
        except ValueError:
            break
        out.append((z, toks[i + 1], toks[i + 2]))
        i += 3
    _cache[key] = out
    return out


def pairs(repo, name):
    """Files of records 'Z VALUE'."""
    key = ('pairs', repo, name)
    if key in _cache:
        return _cache[key]
    toks = _tokens(os.path.join(repo, 'data', name))
    out = []
    i = 0
    while i + 1 < len(toks):
        try:
            z = int(toks[i])
            float(toks[i + 1])
        except ValueError:
            break
        out.append((z, toks[i + 1]))
        i += 2
    _cache[key] = out
    return out


def spline_file(repo, name, zmax, leading_count=False):
    """Files 'N then N triples (x y y2)' per Z = 1.. . Returns {Z: (xs, ys, y2s)} with string tokens."""
    key = ('spline', repo, name, leading_count)
    if key in _cache:
        return _cache[key]
    toks = _tokens(os.path.join(repo, 'data', name))
    out = {}
    i = 0
    nz = zmax
    if leading_count:
        nz = int(toks[0])
        i = 1
    for z in range(1, nz + 1):
        if i >= len(toks):
            break
        try:
            n = int(toks[i])
        except ValueError:
            break
        i += 1
        if i + 3 * n > len(toks):
            raise AnalysisBroken('%s: truncated block for Z=%d' % (name, z))
        xs = toks[i:i + 3 * n:3]
        ys = toks[i + 1:i + 3 * n:3]
        y2 = toks[i + 2:i + 3 * n:3]
        i += 3 * n
        out[z] = (xs, ys, y2)
    _cache[key] = out
    return out


def compton_profiles(repo, zmax):
    """comptonprofiles.dat -> {Z: dict(nshells, npz, uoccup[], pz[], total[], total2[], partial{shell:[]}, partial2{}) }"""
    key = ('cp', repo)
    if key in _cache:
        return _cache[key]
    toks = _tokens(os.path.join(repo, 'data', 'comptonprofiles.dat'))
    out = {}
    i = 0
    for z in range(1, zmax + 1):
        if i + 1 >= len(toks):
            break
        try:
            ns, npz = int(toks[i]), int(toks[i + 1])
        except ValueError:
            break
        i += 2
        uo = toks[i:i + ns]
        i += ns
        pz = toks[i:i + npz]
        i += npz
        tot = toks[i:i + npz]
        i += npz
        tot2 = toks[i:i + npz]
        i += npz
        part, part2 = {}, {}
        for s in range(ns):
            if float(uo[s]) > 0.0:
                part[s] = toks[i:i + npz]
                i += npz
        for s in range(ns):
            if float(uo[s]) > 0.0:
                part2[s] = toks[i:i + npz]
                i += npz
        out[z] = dict(nshells=ns, npz=npz, uoccup=uo, pz=pz, total=tot, total2=tot2, partial=part, partial2=part2)
    _cache[key] = out
    return out


def kissel(repo, zmax, shellnum_k):
    """kissel_pe.dat -> {Z: dict(total=(E,cs,cs2), config[], partial{shell: (edge, E, cs, cs2)})}; {} if the file is empty."""
    key = ('kissel', repo)
    if key in _cache:
        return _cache[key]
    p = os.path.join(repo, 'data', 'kissel_pe.dat')
    toks = _tokens(p) if os.path.exists(p) else []
    out = {}
    i = 0
    for z in range(1, zmax + 1):
        if i >= len(toks):
            break
        n = int(toks[i])
        i += 1
        E = toks[i:i + 3 * n:3]
        c = toks[i + 1:i + 3 * n:3]
        c2 = toks[i + 2:i + 3 * n:3]
        i += 3 * n
        cfg = toks[i:i + shellnum_k]
        i += shellnum_k
        part = {}
        for s in range(shellnum_k):
            m = int(toks[i])
            i += 1
            if m == 0:
                part[s] = (None, [], [], [])
                continue
            edge = toks[i]
            i += 1
            part[s] = (edge, toks[i:i + 3 * m:3], toks[i + 1:i + 3 * m:3], toks[i + 2:i + 3 * m:3])
            i += 3 * m
        out[z] = dict(total=(E, c, c2), config=cfg, partial=part)
    _cache[key] = out
    return out


def crystals(repo):
    """Crystals.dat -> list of dict(name, cell[6 strings], atoms[(Z, frac, x, y, z) strings], scan) in file order."""
    key = ('crystals', repo)
    if key in _cache:
        return _cache[key]
    p = os.path.join(repo, 'data', 'Crystals.dat')
    out = []
    cur = None
    in_atoms = False
    with open(p, encoding='latin-1') as fh:
        for ln, line in enumerate(fh, 1):
            if line.startswith('#S'):
                t = line.split()
                cur = dict(name=t[2] if len(t) > 2 else '', scan=t[1] if len(t) > 1 else '', cell=None, atoms=[], line=ln,
                           ncell=0)
                out.append(cur)
                in_atoms = False
                continue
            if cur is None:
                continue
            if line.startswith('#UCELL'):
                cur['cell'] = line.split()[1:7]
                cur['ncell'] += 1
                continue
            if line.startswith('#L'):
                in_atoms = True
                continue
            if line.startswith('#'):
                in_atoms = False
                continue
            if in_atoms:
                t = line.split()
                if len(t) >= 5:
                    cur['atoms'].append(tuple(t[:5]))
                elif t:
                    cur['atoms'].append(tuple(t))
                else:
                    cur['atoms'].append(())
    _cache[key] = out
    return out
