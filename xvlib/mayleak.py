"""Flow-sensitive, path-insensitive may-analysis for functions whose abstract path space exceeds the E1
budget (the recursive-descent formula scanner): which local pointer variables may still own an allocation at
each return.  Abstract state = set of (variable, allocation line); if/else join = union; loops iterate to a
fixpoint.  Ownership leaves the function when the pointer is returned, passed to free()/a destructor, or stored
into memory reachable from a parameter.  Sound for leaks in the 'may' sense: an exit is reported when *some*
syntactic route reaches it with the variable allocated and not released."""
from .facts import walk, show, strip_casts

ALLOC = {'malloc', 'calloc', 'realloc', 'strdup', 'strndup', 'xrl_strdup', 'xrl_strndup', 'fopen'}
FREE = {'free', 'fclose', 'xrlFree'}


class MayLeak:
    def __init__(self, func, ctors=(), dtors=()):
        self.f = func
        self.alloc = ALLOC | set(ctors)
        self.free = FREE | set(dtors)
        self.params = {p['name'] for p in func['params']}
        self.exits = []      # (return node, frozenset of (var, alloc line))
        # counters that size every allocation of a variable: `p = realloc(p, sizeof(*p) * ++n)`; then `if (n > 0) free(p)`
        # releases p on every route (n == 0 means nothing, or zero bytes, was ever allocated)
        self.sized_by = {}
        for x in walk(func['body']):
            if x.get('k') == 'BinaryOperator' and x.get('op') == '=' and x['c'][0].get('k') == 'DeclRefExpr' and \
                    x['c'][0].get('cls') == 'local':
                ac = self._alloc_call(x['c'][1])
                if ac is not None:
                    names = {y['name'] for a in ac['args'] for y in walk(a) if y.get('k') == 'DeclRefExpr' and y.get('cls') == 'local'
                             and y['name'] != x['c'][0]['name']}
                    v = x['c'][0]['name']
                    self.sized_by[v] = names if v not in self.sized_by else (self.sized_by[v] & names)

    def run(self):
        self.stmt(self.f['body'], frozenset())
        return self.exits

    def _alloc_call(self, e):
        e = strip_casts(e)
        if e.get('k') == 'CallExpr' and e.get('callee') in self.alloc:
            return e
        return None

    def expr(self, n, st):
        """Transfer of one expression statement."""
        st = set(st)
        for x in walk(n):
            k = x.get('k')
            if k == 'BinaryOperator' and x.get('op') == '=':
                lhs, rhs = x['c'][0], x['c'][1]
                ac = self._alloc_call(rhs)
                if lhs.get('k') == 'DeclRefExpr' and lhs.get('cls') == 'local':
                    v = lhs['name']
                    if ac is not None:
                        if ac['callee'] == 'realloc':
                            a0 = strip_casts(ac['args'][0])
                            if a0.get('k') == 'DeclRefExpr' and a0['name'] == v:
                                if not any(w == v for w, _ in st):
                                    st.add((v, x['ln']))
                                continue
                        st = {(w, l) for w, l in st if w != v} | {(v, x['ln'])}
                else:
                    # store of a tracked local into caller-visible memory hands ownership over
                    r0 = strip_casts(rhs)
                    if r0.get('k') == 'DeclRefExpr' and r0.get('cls') == 'local':
                        root = lhs
                        while root.get('k') in ('MemberExpr', 'ArraySubscriptExpr', 'UnaryOperator') and root.get('c'):
                            root = root['c'][0]
                        if root.get('k') == 'DeclRefExpr' and root.get('name') in self.params:
                            st = {(w, l) for w, l in st if w != r0['name']}
            elif k == 'CallExpr' and x.get('callee') in self.free and x.get('args'):
                a0 = strip_casts(x['args'][0])
                if a0.get('k') == 'DeclRefExpr':
                    st = {(w, l) for w, l in st if w != a0['name']}
            elif k == 'var' and 'init' in x:
                ac = self._alloc_call(x['init'])
                if ac is not None:
                    st.add((x['name'], x['ln']))
        return frozenset(st)

    def stmt(self, n, st):
        if n is None:
            return st
        k = n.get('k')
        if k == 'CompoundStmt':
            for s in n.get('c', []):
                st = self.stmt(s, st)
                if st is None:
                    return None
            return st
        if st is None:
            return None
        if k == 'ReturnStmt':
            st2 = set(st)
            if n.get('c'):
                r = strip_casts(n['c'][0])
                if r.get('k') == 'DeclRefExpr':
                    st2 = {(w, l) for w, l in st2 if w != r['name']}
            self.exits.append((n, frozenset(st2)))
            return None
        if k == 'IfStmt':
            st = self.expr(n['cond'], st)
            a = self.stmt(n['then'], st)
            b = self.stmt(n.get('else'), st) if n.get('else') else st
            c = n['cond']
            if not n.get('else') and a is not None and c.get('k') == 'BinaryOperator' and c.get('op') in ('>', '!=') and \
                    c['c'][0].get('k') == 'DeclRefExpr' and c['c'][1].get('v') == 0:
                counter = c['c'][0]['name']
                released = {w for w, _ in st} - {w for w, _ in a}
                b = frozenset((w, l) for w, l in b if not (w in released and counter in self.sized_by.get(w, set())))
            if a is None:
                return b
            if b is None:
                return a
            return a | b
        if k in ('ForStmt', 'WhileStmt', 'DoStmt'):
            if k == 'ForStmt' and n.get('init'):
                st = self.stmt(n['init'], st) if n['init'].get('k') in ('DeclStmt',) else self.expr(n['init'], st)
            cur = st
            saved = len(self.exits)
            for _ in range(4):
                del self.exits[saved:]
                s1 = self.expr(n['cond'], cur) if n.get('cond') else cur
                s2 = self.stmt(n['body'], s1)
                if s2 is None:
                    s2 = frozenset()
                if k == 'ForStmt' and n.get('inc'):
                    s2 = self.expr(n['inc'], s2)
                new = cur | s2
                if new == cur:
                    break
                cur = new
            return cur
        if k == 'SwitchStmt':
            return self.stmt(n.get('body'), st) or st
        if k in ('CaseStmt', 'DefaultStmt'):
            return self.stmt(n.get('sub'), st)
        if k in ('BreakStmt', 'ContinueStmt', 'NullStmt'):
            return st
        if k == 'DeclStmt':
            return self.expr(n, st)
        return self.expr(n, st)
