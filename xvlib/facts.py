"""Fact model over what xrl-facts emitted: program-wide lookups, tree walking, macro evaluation,
pretty printing of expression trees for diagnostics."""
import os
import re
from fractions import Fraction

from .frontend import AnalysisBroken

CHILD_KEYS = ('c', 'args', 'decls', 'catches', 'resources', 'dims')
CHILD_SINGLE = ('fn', 'cond', 'then', 'else', 'init', 'inc', 'body', 'lhs', 'rhs', 'sub',
                'block', 'finally', 'recv', 'range', 'param', 'var')       # the last row: Java trees (tools/JavaFacts.java)


def children(n):
    if not isinstance(n, dict):
        return
    for k in CHILD_SINGLE:
        v = n.get(k)
        if isinstance(v, dict):
            yield v
    for k in CHILD_KEYS:
        v = n.get(k)
        if isinstance(v, list):
            for x in v:
                if isinstance(x, dict):
                    yield x


def walk(n):
    """Pre-order over all nodes."""
    if not isinstance(n, dict):
        return
    stack = [n]
    while stack:
        x = stack.pop()
        yield x
        ch = list(children(x))
        stack.extend(reversed(ch))


def kind(n):
    return n.get('k') if isinstance(n, dict) else None


def is_call(n, name=None):
    return isinstance(n, dict) and n.get('k') in ('CallExpr', 'CXXMemberCallExpr', 'CXXOperatorCallExpr') and \
        (name is None or n.get('callee') == name)


def calls_in(n, name=None):
    return [x for x in walk(n) if is_call(x, name)]


def is_ref(n, name=None):
    return isinstance(n, dict) and n.get('k') == 'DeclRefExpr' and (name is None or n.get('name') == name)


def strip_casts(n):
    while isinstance(n, dict) and n.get('k') in ('CStyleCastExpr', 'CXXStaticCastExpr', 'CXXFunctionalCastExpr',
                                                  'CXXReinterpretCastExpr', 'CXXConstCastExpr'):
        n = n['c'][0]
    return n


def const_int(n):
    """Evaluated integer constant of an expression node, or None."""
    if isinstance(n, dict) and 'v' in n:
        return n['v']
    return None


def macro_of(n):
    """Outermost-written macro name the expression comes from (the name the programmer typed), or None.
    'm' is innermost-first; the last element is the macro written at the use site."""
    if isinstance(n, dict) and n.get('m'):
        return n['m'][-1]
    return None


def macro_chain(n):
    return list(n.get('m', [])) if isinstance(n, dict) else []


OBJ_MACROS = set()


def show(n, depth=0):
    """C-like rendering for diagnostics (not for matching)."""
    if n is None:
        return ''
    if not isinstance(n, dict):
        return str(n)
    k = n.get('k')
    c = n.get('c', [])
    if depth > 40:
        return '...'
    d = depth + 1
    if n.get('m') and n['m'][-1] in OBJ_MACROS and ('v' in n or k in ('IntegerLiteral', 'FloatingLiteral', 'StringLiteral')) \
            and k != 'DeclRefExpr':
        return n['m'][-1]
    if k == 'DeclRefExpr':
        return n['name']
    if k == 'IntegerLiteral':
        return str(n['val'])
    if k == 'FloatingLiteral':
        return n.get('sp', str(n['val']))
    if k == 'StringLiteral':
        return '"%s"' % n.get('val', '')
    if k == 'CharacterLiteral':
        return repr(chr(n['val'])) if 0 <= n['val'] < 128 else str(n['val'])
    if k in ('BinaryOperator', 'CompoundAssignOperator'):
        return '(%s %s %s)' % (show(c[0], d), n['op'], show(c[1], d))
    if k == 'UnaryOperator':
        if n.get('post'):
            return '%s%s' % (show(c[0], d), n['op'])
        return '%s%s' % (n['op'], show(c[0], d))
    if k in ('CallExpr', 'CXXMemberCallExpr', 'CXXOperatorCallExpr'):
        f = n.get('callee') or show(n.get('fn'), d)
        return '%s(%s)' % (f, ', '.join(show(a, d) for a in n.get('args', [])))
    if k == 'ArraySubscriptExpr':
        return '%s[%s]' % (show(c[0], d), show(c[1], d))
    if k == 'MemberExpr':
        return '%s%s%s' % (show(c[0], d) if c else 'this', '->' if n.get('arrow') else '.', n['field'])
    if k == 'CStyleCastExpr':
        return '(%s)%s' % (n.get('toT', ''), show(c[0], d))
    if k == 'ConditionalOperator':
        return '(%s ? %s : %s)' % (show(c[0], d), show(c[1], d), show(c[2], d))
    if k == 'UnaryExprOrTypeTraitExpr':
        return 'sizeof(%s)' % (n.get('argTs') or n.get('argT'))
    if k == 'InitListExpr':
        return '{%s}' % ', '.join(show(x, d) for x in c[:6]) + ('...' if len(c) > 6 else '')
    if k == 'ReturnStmt':
        return 'return %s' % (show(c[0], d) if c else '')
    if k == 'ImplicitValueInitExpr':
        return '{}'
    return '<%s>' % k


def lower_cleanup_goto(body):
    """`goto cleanup;` with ONE label in the function, placed at the top level of the body, whose tail ends in a return: every goto
    is replaced by a copy of the statements from the label to the end (what the jump executes), the label by its statement.  Any other
    use of goto is left alone (the path engine then answers "inconclusive")."""
    import copy
    if not isinstance(body, dict) or body.get('k') != 'CompoundStmt':
        return
    top = body.get('c', [])
    labels = [n for n in walk(body) if n.get('k') == 'LabelStmt']
    gotos = [n for n in walk(body) if n.get('k') == 'GotoStmt']
    if len(labels) != 1 or not gotos or labels[0] not in top:
        return
    i = top.index(labels[0])
    first = (labels[0].get('c') or [None])[0]
    tail = ([first] if isinstance(first, dict) else []) + top[i + 1:]
    if not tail or tail[-1].get('k') != 'ReturnStmt' or any(g in list(walk({'k': 'CompoundStmt', 'c': tail})) for g in gotos):
        return
    for g in gotos:
        keep = {k: g[k] for k in ('ln', 'col') if k in g}
        g.clear()
        g.update({'k': 'CompoundStmt', 'c': copy.deepcopy(tail)}, **keep)
    top[i:i + 1] = [first] if isinstance(first, dict) else []


def canonical_loops(n):
    """`v = a; while (c) { ...; v++; }` (no `continue` in the body) is the same loop as `for (v = a; c; v++) { ... }`: the tree is rewritten
    to the for form, so that every rule sees one loop shape whichever the source uses.  Done once when the facts are loaded."""
    if isinstance(n, list):
        for x in n:
            canonical_loops(x)
        return
    if not isinstance(n, dict):
        return
    for k_, v in list(n.items()):
        if isinstance(v, (dict, list)) and k_ != 'T':
            canonical_loops(v)
    if n.get('k') != 'CompoundStmt':
        return
    kids = n.get('c', [])
    # a counter initialised a few statements before its while loop (e.g. in its declaration at the top of the block): give the loop a
    # synthetic init that repeats the initialisation right in front of it, when nothing in between mentions the counter
    j = 1
    while j < len(kids):
        w = kids[j]
        if isinstance(w, dict) and w.get('k') == 'WhileStmt' and isinstance(w.get('body'), dict) and w['body'].get('k') == 'CompoundStmt' and w['body'].get('c'):
            last = strip_casts(w['body']['c'][-1]) if isinstance(w['body']['c'][-1], dict) else {}
            v = strip_casts(last['c'][0]).get('name') if last.get('k') in ('UnaryOperator', 'CompoundAssignOperator', 'BinaryOperator') and last.get('c') and \
                last.get('op') in ('++', 'post++', 'pre++', '+=') else None
            prev = kids[j - 1] if isinstance(kids[j - 1], dict) else {}
            direct = (prev.get('k') == 'BinaryOperator' and prev.get('op') == '=' and strip_casts(prev['c'][0]).get('name') == v) or \
                (prev.get('k') == 'DeclStmt' and len(prev.get('decls', [])) == 1 and isinstance(prev['decls'][0], dict) and prev['decls'][0].get('name') == v)
            if v and not direct:
                for b in range(j - 1, max(-1, j - 8), -1):
                    st_ = kids[b]
                    if not isinstance(st_, dict):
                        break
                    init = None
                    if st_.get('k') == 'BinaryOperator' and st_.get('op') == '=' and strip_casts(st_['c'][0]).get('name') == v:
                        init = st_
                    elif st_.get('k') == 'DeclStmt':
                        for d in st_.get('decls', []):
                            if isinstance(d, dict) and d.get('name') == v and d.get('init') is not None:
                                init = {'k': 'BinaryOperator', 'op': '=', 'ln': st_.get('ln'), 'col': st_.get('col'), 'T': d.get('T'), 'synthetic': True,
                                        'c': [{'k': 'DeclRefExpr', 'name': v, 'cls': d.get('cls', 'local'), 'id': d.get('id'), 'T': d.get('T'), 'dT': d.get('T'),
                                               'ln': st_.get('ln'), 'col': st_.get('col')}, d['init']]}
                    if init is not None:
                        kids.insert(j, init)
                        j += 1
                        break
                    if any(x.get('k') == 'DeclRefExpr' and x.get('name') == v for x in walk(st_)):
                        break
        j += 1
    j = 0
    while j + 1 < len(kids):
        a, w = kids[j], kids[j + 1]
        is_assign = isinstance(a, dict) and a.get('k') == 'BinaryOperator' and a.get('op') == '=' and strip_casts(a['c'][0]).get('k') == 'DeclRefExpr'
        is_decl = isinstance(a, dict) and a.get('k') == 'DeclStmt' and len(a.get('decls', [])) == 1 and isinstance(a['decls'][0], dict) and \
            a['decls'][0].get('init') is not None
        if (is_assign or is_decl) and isinstance(w, dict) and w.get('k') == 'WhileStmt' and \
                isinstance(w.get('body'), dict) and w['body'].get('k') == 'CompoundStmt' and w['body'].get('c'):
            v = strip_casts(a['c'][0]).get('name') if is_assign else a['decls'][0].get('name')
            last = w['body']['c'][-1]
            l0 = strip_casts(last) if isinstance(last, dict) else {}
            is_inc = (l0.get('k') == 'UnaryOperator' and l0.get('op') in ('++', 'post++', 'pre++') and strip_casts(l0['c'][0]).get('name') == v) or \
                (l0.get('k') in ('CompoundAssignOperator', 'BinaryOperator') and l0.get('op') == '+=' and strip_casts(l0['c'][0]).get('name') == v)

            def has_continue(x, top=True):
                if isinstance(x, list):
                    return any(has_continue(y, top) for y in x)
                if not isinstance(x, dict):
                    return False
                if x.get('k') == 'ContinueStmt':
                    return True
                if x.get('k') in ('ForStmt', 'WhileStmt', 'DoStmt') and not top:
                    return False
                return any(has_continue(y, False) for k2, y in x.items() if isinstance(y, (dict, list)) and k2 != 'T')
            uses_v = any(x.get('k') == 'DeclRefExpr' and x.get('name') == v for x in walk(w.get('cond') or {}))
            if is_inc and uses_v and not has_continue(w['body']['c']):
                body = dict(w['body'])
                body['c'] = w['body']['c'][:-1]
                kids[j:j + 2] = [{'k': 'ForStmt', 'ln': w.get('ln'), 'col': w.get('col'), 'init': a, 'cond': w.get('cond'), 'inc': last, 'body': body,
                                  'from_while': True}]
                continue
        j += 1


class Program:
    def __init__(self, facts):
        self.facts = facts
        self.repo = facts['repo']
        self.units = facts['units']
        self.macros = facts['macros']
        self.by_rel = {u['rel']: u for u in self.units}
        self._fn = {}
        for u in self.units:
            for f in u['functions']:
                f['unit'] = u['rel']
                f['rel'] = self.rel(f['file'])
                self._fn.setdefault(f['name'], []).append(f)
                if f.get('body'):
                    lower_cleanup_goto(f['body'])
                    canonical_loops(f['body'])
            for c_ in u.get('classes', []) or []:
                for m in c_.get('functions', []):
                    if m.get('body'):
                        canonical_loops(m['body'])
        self._mv = {}
        for name, vs in self.macros.items():
            if all(not m['fl'] for m in vs):
                OBJ_MACROS.add(name)

    def rel(self, path):
        if path.startswith(self.repo + os.sep):
            return path[len(self.repo) + 1:]
        return path

    # ---- units -----------------------------------------------------------------------------
    def unit(self, rel):
        u = self.by_rel.get(rel)
        if u is None:
            raise AnalysisBroken('unit %s is not part of the build of the current tree' % rel)
        return u

    def lib_units(self):
        """Units that make up libxrl + prdata (C, under src/)."""
        return [u for u in self.units if u['rel'].startswith('src/')]

    def cxx_unit(self):
        for u in self.units:
            if u['lang'] == 'cxx':
                return u
        raise AnalysisBroken('no C++ unit extracted')

    # ---- functions -------------------------------------------------------------------------
    def funcs(self, name, unit=None):
        r = self._fn.get(name, [])
        if unit:
            r = [f for f in r if f['unit'] == unit]
        return r

    def func(self, name, unit=None, required=True):
        r = self.funcs(name, unit)
        if unit is None:
            rr = [f for f in r if f['unit'].startswith('src/')]
            if rr:
                r = rr
        if not r:
            if required:
                raise AnalysisBroken('anchor function %s%s not found in the current tree' %
                                     (name, ' in ' + unit if unit else ''))
            return None
        return r[0]

    def all_funcs(self, pred=None):
        for u in self.units:
            for f in u['functions']:
                if pred is None or pred(f):
                    yield f

    def src_funcs(self):
        """Function definitions in src/*.c (libxrl and prdata), C only."""
        for u in self.lib_units():
            for f in u['functions']:
                yield f

    def protos(self, header_rel=None):
        """Prototypes de-duplicated by (name, file)."""
        seen = {}
        for u in self.units:
            if u['lang'] != 'c':
                continue
            for p in u['protos']:
                r = self.rel(p['file'])
                if header_rel and r != header_rel:
                    continue
                seen.setdefault((p['name'], r), p)
        return list(seen.values())

    def globals_named(self, name):
        out = []
        for u in self.units:
            for g in u['globals']:
                if g['name'] == name:
                    g = dict(g)
                    g['unit'] = u['rel']
                    out.append(g)
        return out

    def global_def(self, name, unit=None, required=True):
        for g in self.globals_named(name):
            if g.get('is_def') and 'init' in g and (unit is None or g['unit'] == unit):
                return g
        for g in self.globals_named(name):
            if g.get('is_def') and (unit is None or g['unit'] == unit):
                return g
        if required:
            raise AnalysisBroken('anchor object %s not found in the current tree' % name)
        return None

    def record(self, name, cxx=False):
        for u in self.units:
            if (u['lang'] == 'cxx') != cxx:
                continue
            for r in u['records']:
                if r['name'] == name or r.get('qname') == name:
                    return r
        raise AnalysisBroken('record %s not found' % name)

    # ---- macros ----------------------------------------------------------------------------
    def macro(self, name, file_suffix=None):
        v = self.macros.get(name)
        if not v:
            return None
        if file_suffix:
            for m in v:
                if m['file'].endswith(file_suffix):
                    return m
            return None
        return v[0]

    def macros_in(self, rel):
        """Macros defined in a file, in definition order."""
        path = os.path.join(self.repo, rel)
        out = []
        for name, vs in self.macros.items():
            for m in vs:
                if m['file'] == path:
                    out.append(m)
        out.sort(key=lambda m: m['ln'])
        return out

    def macro_value(self, name, _depth=0):
        """Numeric value (int or Fraction) or string value of an object-like macro; None if not evaluable."""
        if name in self._mv:
            return self._mv[name]
        m = self.macro(name)
        if m is None or m['fl'] or _depth > 20:
            return None
        v = self._eval_tokens(m['body'], _depth)
        self._mv[name] = v
        return v

    def macro_alias_target(self, name):
        """If the macro body is a single identifier naming another macro, that name."""
        m = self.macro(name)
        if m and not m['fl'] and len(m['body']) == 1 and re.match(r'^[A-Za-z_]\w*$', m['body'][0]) and \
                self.macro(m['body'][0]):
            return m['body'][0]
        return None

    def resolve_alias(self, name):
        seen = set()
        while True:
            t = self.macro_alias_target(name)
            if not t or t in seen:
                return name
            seen.add(name)
            name = t

    def _eval_tokens(self, toks, depth):
        toks = list(toks)
        if not toks:
            return None
        if len(toks) == 1 and toks[0].startswith('"'):
            try:
                return bytes(toks[0][1:-1], 'utf-8').decode('unicode_escape')
            except Exception:
                return toks[0][1:-1]
        pos = [0]

        def peek():
            return toks[pos[0]] if pos[0] < len(toks) else None

        def eat():
            t = toks[pos[0]]
            pos[0] += 1
            return t

        def atom():
            t = peek()
            if t is None:
                raise ValueError
            if t == '(':
                eat()
                v = expr()
                if eat() != ')':
                    raise ValueError
                return v
            if t == '-':
                eat()
                return -atom()
            if t == '+':
                eat()
                return atom()
            eat()
            if re.match(r'^[A-Za-z_]\w*$', t):
                v = self.macro_value(t, depth + 1)
                if v is None or isinstance(v, str):
                    raise ValueError
                return v
            return parse_number(t)

        def term():
            v = atom()
            while peek() in ('*', '/'):
                op = eat()
                w = atom()
                if op == '*':
                    v = v * w
                else:
                    if isinstance(v, int) and isinstance(w, int):
                        v = int(v / w) if w else None
                    else:
                        v = Fraction(v) / Fraction(w)
            return v

        def expr():
            v = term()
            while peek() in ('+', '-'):
                op = eat()
                w = term()
                v = v + w if op == '+' else v - w
            return v

        try:
            v = expr()
            if pos[0] != len(toks):
                return None
            return v
        except (ValueError, IndexError, TypeError, ZeroDivisionError):
            return None


def parse_number(t):
    """C numeric literal -> int or exact Fraction."""
    s = t.rstrip('uUlLfF') if not t.lower().startswith('0x') else t.rstrip('uUlL')
    if re.match(r'^0[xX][0-9a-fA-F]+$', s):
        return int(s, 16)
    if re.match(r'^[0-9]+$', s):
        return int(s, 8) if len(s) > 1 and s[0] == '0' else int(s)
    m = re.match(r'^([0-9]*)\.?([0-9]*)(?:[eE]([+-]?[0-9]+))?$', s)
    if not m or (m.group(1) == '' and m.group(2) == ''):
        raise ValueError(t)
    ip, fp, ex = m.group(1) or '0', m.group(2) or '', int(m.group(3) or 0)
    v = Fraction(int(ip + fp), 10 ** len(fp))
    return v * Fraction(10) ** ex
