"""Error-slot typestate over the abstract paths of E1 (used by C03, C18).

Slot states: U (empty), S (set exactly once), M (possibly set by a delegated call whose outcome the path
does not test).  Events that touch the caller's slot: the three setters and xrl_propagate_error when
handed the function's own `error` parameter; calls to project functions that receive that parameter."""
from .absint import run_function, Inconclusive
from .normform import Rat
from .facts import walk, show

SETTERS = {'xrl_set_error', 'xrl_set_error_literal', 'xrl_propagate_error'}
ERR_T = 'struct _xrl_error **'


def error_param(f):
    if f['params'] and f['params'][-1]['T'] == ERR_T:
        return f['params'][-1]['name']
    return None


class Summaries:
    """Engine results for every libxrl function, plus the may-fail classification."""

    def __init__(self, prog, units=None, max_paths=6000, skip=(), **interp_kw):
        self.prog = prog
        self.funcs = {}
        self.paths = {}
        self.interp = {}
        self.inconclusive = {}
        for f in prog.src_funcs():
            if units is not None and f['unit'] not in units:
                continue
            if f['unit'] in ('src/pr_data.c', 'src/xrayfiles.c', 'src/xrayglob.c', 'src/xrf_cross_sections_aux-private.c'):
                continue
            if f['name'] in skip:
                continue
            self.funcs.setdefault(f['name'], f)
        for name, f in self.funcs.items():
            try:
                it, paths = run_function(prog, f, max_paths=max_paths, **interp_kw)
                self.paths[name] = paths
                self.interp[name] = it
            except Inconclusive as e:
                self.inconclusive[name] = str(e)
        self._infallible()

    def _infallible(self):
        """f can never touch its error slot: no setter on it and no delegation to a function that can."""
        inf = set()
        # functions without an error parameter are not of interest here
        cand = {n for n, f in self.funcs.items() if error_param(f) and n in self.paths}
        changed = True
        while changed:
            changed = False
            for n in sorted(cand - inf):
                ep = error_param(self.funcs[n])
                ok = True
                for p in self.paths[n]:
                    for e in p.events:
                        if e.kind != 'call':
                            continue
                        passes = any(a is not None and a.canon() == ep for a in (e.args or []))
                        if not passes:
                            continue
                        if e.name in SETTERS:
                            ok = False
                        elif e.name not in inf:
                            ok = False
                    if not ok:
                        break
                if ok:
                    inf.add(n)
                    changed = True
        self.infallible = inf

    def fallible(self, name):
        f = self.funcs.get(name)
        if f is None:
            # declared only (prdata-only helpers called from libxrl do not exist); unknown externals never get our slot
            return True
        return name not in self.infallible


def outcome(it, st, ev, ret_type):
    """failed / ok / unknown for a delegated call on this path, from the facts about its result."""
    r = ev.result
    # tmp-error idiom: g(..., &tmp); if (tmp != NULL) ...  -- the local slot tells whether g failed
    if ev.args and ev.args[-1] is not None and ev.args[-1].canon().startswith('&'):
        loc = ev.args[-1].canon()[1:]
        tiv = it.interval_of(Rat.sym('%s@%d' % (loc, ev.id)), st)
        if tiv.is_zero():
            return 'ok'
        if tiv.excludes_zero():
            return 'failed'
    if r is None or ret_type == 'void':
        return 'unknown'
    iv = it.interval_of(r, st)
    if iv.is_zero():
        return 'failed'
    if iv.excludes_zero():
        return 'ok'
    return 'unknown'


def scan_path(summ, fname, p):
    """Returns (state, problems) where problems are ('double-set'|'set-after-maybe', event)."""
    f = summ.funcs[fname]
    it = summ.interp[fname]
    ep = error_param(f)
    state = 'U'
    problems = []
    maybe_from = None
    for e in p.events:
        if e.kind != 'call':
            continue
        if not any(a is not None and a.canon() == ep for a in (e.args or [])):
            continue
        if e.name in SETTERS:
            if state == 'S':
                problems.append(('double-set', e, None))
            elif state == 'M':
                problems.append(('set-after-maybe', e, maybe_from))
            state = 'S'
            continue
        if not summ.fallible(e.name):
            continue
        callee = summ.funcs.get(e.name)
        rt = callee['ret'] if callee else (e.node.get('T') or '')
        oc = outcome(it, p, e, rt)
        if oc == 'failed':
            if state == 'S':
                problems.append(('double-set', e, None))
            elif state == 'M':
                problems.append(('set-after-maybe', e, maybe_from))
            state = 'S'
        elif oc == 'unknown':
            if state == 'S':
                problems.append(('maybe-after-set', e, None))
            elif state == 'U':
                state = 'M'
                maybe_from = e
    return state, problems, maybe_from


def returns_sentinel(summ, fname, p):
    """True / False / None (void or undecidable)."""
    f = summ.funcs[fname]
    it = summ.interp[fname]
    rt = f['ret']
    if rt == 'void':
        return None
    if p.ret is None:
        return None
    if rt in ('double', 'int', 'float') or rt.endswith('*'):
        if it.is_zero(p.ret, p):
            return True
        return False
    # struct by value: every field of the returned object is zero
    rn = p.ret_node
    if rn is not None and rn.get('c') and rn['c'][0].get('k') == 'DeclRefExpr':
        var = rn['c'][0]['name']
        vals = [v for k, v in p.mem.items() if k.startswith(var + '.')]
        if vals:
            return all(v.is_zero() for v in vals)
    return None
