"""E8 - byte-stream schema of the Java table file (C19): what java/pr_data_java.c writes, in order, against what the
static initialiser of Xraylib.java (with its read helpers and the record constructors inlined) reads, in order.

Both sides are reduced to a flat list of items
    (type, count, name, loops, guards)
type: int | double | string;  count: number or canonical expression;  name: destination / source table without the
`_arr` infix and with loop counters as i0, i1, ...;  loops: bounds of the enclosing loops;  guards: conjuncts under
which the item is transferred (conjuncts implied by a loop bound are dropped)."""
import re
from fractions import Fraction

from .facts import walk, show, strip_casts


class Ctx:
    def __init__(self):
        self.loops = []      # [(var name or id, bound text)]
        self.guards = []     # [text]
        self.env = {}        # variable -> expression text (parameter binding / renaming)


def _clean(t):
    t = t.replace(' ', '').replace('_arr', '')
    t = t.replace('->', '.')
    return t


class Valuer:
    """evaluates expressions over named constants to numbers where possible"""

    def __init__(self, prog):
        self.prog = prog

    def const(self, name):
        try:
            v = self.prog.macro_value(name)
            return Fraction(v) if v is not None else None
        except Exception:
            return None

    def fold(self, text):
        """'(ZMAX+1)*SHELLNUM' -> '3388' when every identifier is a known constant"""
        ids = set(re.findall(r'[A-Za-z_]\w*', text))
        expr = text
        for i in sorted(ids, key=len, reverse=True):
            v = self.const(i)
            if v is None:
                return text
            expr = re.sub(r'\b%s\b' % re.escape(i), '(%s)' % v, expr)
        if not re.match(r'^[\d()+\-*/ .]+$', expr):
            return text
        try:
            v = eval(expr, {'__builtins__': {}})
            f = Fraction(v).limit_denominator(10 ** 9)
            return str(f)
        except Exception:
            return text


def finish(items, valuer):
    out = []
    for it in items:
        ty, cnt, name, loops, guards, ln = it
        cnt = valuer.fold(cnt) if isinstance(cnt, str) else str(cnt)
        loops = tuple(valuer.fold(b) for b in loops)
        g = set(guards)
        # `X > 0` is implied when an enclosing loop runs to X; `0 < X` likewise
        for b in loops:
            g.discard('%s>0' % b)
        # an element count that is a loop bound elsewhere: count > 0 is what the inner transfer loop needs anyway
        g.discard('%s>0' % cnt)
        out.append((ty, cnt, name, loops, tuple(sorted(g)), ln))
    return out


# ------------------------------------------------------------------------------------------------------------ writer
class Writer:
    def __init__(self, prog, unit='java/pr_data_java.c'):
        self.prog = prog
        self.unit = unit
        self.items = []
        self.helpers = {f['name']: f for f in prog.src_funcs() if f['unit'] == unit}
        for u in prog.units:
            if u.get('rel') == unit:
                for f in u['functions']:
                    self.helpers.setdefault(f['name'], f)

    def run(self):
        f = self.helpers.get('main')
        if f is None:
            return None
        ctx = Ctx()
        for n in f['body'].get('c', []):
            if n.get('k') == 'DeclStmt':
                for d in n.get('decls', []):
                    i = strip_casts(d['init']) if d.get('init') is not None else None
                    if i is not None and i.get('m') and i.get('mw'):
                        ctx.env[d['name']] = i['m'][-1]
        self.visit(f['body'], ctx)
        return self.items

    def text(self, n, ctx):
        n = strip_casts(n)
        if isinstance(n.get('v'), int) and n.get('k') not in ('DeclRefExpr',):
            return str(n['v'])
        k = n.get('k')
        if k == 'ParenExpr':
            return self.text(n['c'][0], ctx)
        if k == 'DeclRefExpr':
            nm = n['name']
            for i, (v, b) in enumerate(ctx.loops):
                if v == nm:
                    return 'i%d' % i
            return _clean(ctx.env.get(nm, nm))
        if k == 'ArraySubscriptExpr':
            return '%s[%s]' % (self.text(n['c'][0], ctx), self.text(n['c'][1], ctx))
        if k == 'MemberExpr':
            base = self.text(n['c'][0], ctx) if n.get('c') else ''
            # fields of the current record: drop the path to the record
            return n['field']
        if k == 'UnaryOperator' and n.get('op') in ('&', '*'):
            return self.text(n['c'][0], ctx)
        if k == 'BinaryOperator':
            return '(%s%s%s)' % (self.text(n['c'][0], ctx), n['op'], self.text(n['c'][1], ctx))
        if k in ('IntegerLiteral',):
            return str(n.get('val'))
        if k == 'FloatingLiteral':
            try:
                return str(Fraction(str(n.get('val'))).limit_denominator(10 ** 9))
            except Exception:
                return str(n.get('val'))
        if k == 'CallExpr':
            return '%s(%s)' % (n.get('callee'), ','.join(self.text(a, ctx) for a in n.get('args', [])))
        return _clean(show(n))

    def cond(self, n, ctx):
        n = strip_casts(n)
        while n.get('k') == 'ParenExpr':
            n = strip_casts(n['c'][0])
        if n.get('k') == 'BinaryOperator' and n.get('op') == '&&':
            return self.cond(n['c'][0], ctx) + self.cond(n['c'][1], ctx)
        if n.get('k') == 'BinaryOperator' and n.get('op') in ('>', '<', '>=', '<=', '==', '!='):
            a, b = self.text(n['c'][0], ctx), self.text(n['c'][1], ctx)
            return ['%s%s%s' % (a, n['op'], b)]
        return [self.text(n, ctx)]

    def visit(self, n, ctx):
        k = n.get('k')
        if k == 'CompoundStmt':
            for c in n.get('c', []):
                self.visit(c, ctx)
        elif k == 'ForStmt':
            if not self.transfers(n.get('body') or {}):
                return
            cond = strip_casts(n.get('cond') or {})
            var = show(cond['c'][0]).strip() if cond.get('c') else '?'
            op = cond.get('op')
            bound = self.text(cond['c'][1], ctx) if cond.get('c') else '?'
            lo = None
            for a in walk(n.get('init') or {}):
                if a.get('k') == 'BinaryOperator' and a.get('op') == '=':
                    lo = self.text(a['c'][1], ctx)
                if a.get('k') == 'DeclStmt':
                    for d in a.get('decls', []):
                        if d.get('init') is not None:
                            lo = self.text(d['init'], ctx)
            if op == '<=':
                bound = '(%s+1)' % bound
            if lo not in (None, '0'):
                bound = '%s-from-%s' % (bound, lo)
            ctx.loops.append((var, bound))
            self.visit(n['body'], ctx)
            ctx.loops.pop()
        elif k == 'IfStmt':
            if not self.transfers(n.get('then') or {}):
                return
            g = self.cond(n['cond'], ctx)
            ctx.guards.extend(g)
            self.visit(n['then'], ctx)
            del ctx.guards[len(ctx.guards) - len(g):]
        elif k == 'CallExpr':
            c = n.get('callee')
            if c == 'fwrite':
                a = n['args']
                m = re.search(r'sizeof\s*\(([\w ]+)\)', show(a[1]))
                ty = m.group(1).strip() if m else show(a[1])
                name = self.text(a[0], ctx)
                if ty == 'char':
                    self.items.append(('string', '1', name, tuple(b for v, b in ctx.loops), tuple(ctx.guards), n['ln']))
                else:
                    self.items.append((ty, self.text(a[2], ctx), name, tuple(b for v, b in ctx.loops), tuple(ctx.guards), n['ln']))
            elif c in self.helpers and self.transfers(self.helpers[c].get('body') or {}) and c != 'main':
                h = self.helpers[c]
                sub = Ctx()
                sub.loops, sub.guards = ctx.loops, ctx.guards
                sub.env = dict(ctx.env)
                for p, a in zip(h['params'], n.get('args', [])):
                    a0 = strip_casts(a)
                    if a0.get('m') and a0.get('mw') and p.get('T') in ('double', 'float'):
                        # a floating constant handed over as a macro is that named constant (RE2, AVOGNUM), as if it had been
                        # stored in a local of main first
                        sub.env[p['name']] = a0['m'][-1]
                    else:
                        sub.env[p['name']] = self.text(a, ctx)
                self.visit(h['body'], sub)
        else:
            for key in ('then', 'else', 'body'):
                if isinstance(n.get(key), dict):
                    self.visit(n[key], ctx)

    def transfers(self, n):
        for x in walk(n):
            if x.get('k') == 'CallExpr' and (x.get('callee') == 'fwrite' or
                                             (x.get('callee') in self.helpers and x.get('callee') != 'main' and
                                              any(y.get('k') == 'CallExpr' and y.get('callee') == 'fwrite' for y in walk(self.helpers[x['callee']].get('body') or {})))):
                return True
        return False


# ------------------------------------------------------------------------------------------------------------ reader
class Reader:
    def __init__(self, jside):
        self.J = jside
        self.items = []
        self.lengths = {}       # array name -> count text; name + '[]' -> row length
        self.problems = []

    def run(self):
        f = self.J.funcs.get('XRayInit')
        if f is None:
            return None
        ctx = Ctx()
        self.block(f['body'], ctx, None, self.J.x)
        return self.items

    # expressions -------------------------------------------------------------------------------------------
    def text(self, n, ctx):
        k = n.get('k')
        if k == 'ParenExpr':
            return self.text(n['c'][0], ctx)
        if k == 'DeclRefExpr':
            nm = n['name']
            for i, (v, b) in enumerate(ctx.loops):
                if v == n.get('id') or v == nm:
                    return 'i%d' % i
            if n.get('id') in ctx.env:
                return ctx.env[n['id']]
            return _clean(nm)
        if k == 'ArraySubscriptExpr':
            return '%s[%s]' % (self.text(n['c'][0], ctx), self.text(n['c'][1], ctx))
        if k == 'MemberExpr':
            base = self.text(n['c'][0], ctx) if n.get('c') else ''
            if n['field'] == 'length':
                key = re.sub(r'\[i\d+\]', '[]', base)
                if key in self.lengths:
                    return self.lengths[key]
                self.problems.append('length of %s is not known from an earlier read' % base)
                return 'len(%s)' % base
            if base in ('Xraylib', 'this'):
                return _clean(n['field'])
            return '%s.%s' % (base, n['field'])
        if k == 'BinaryOperator':
            return '(%s%s%s)' % (self.text(n['c'][0], ctx), n['op'], self.text(n['c'][1], ctx))
        if k == 'IntegerLiteral':
            return str(n.get('val'))
        if k == 'FloatingLiteral':
            try:
                return str(Fraction(str(n.get('val'))).limit_denominator(10 ** 9))
            except Exception:
                return str(n.get('val'))
        if k == 'CStyleCastExpr':
            return self.text(n['c'][0], ctx)
        return _clean(show(n))

    def cond(self, n, ctx, negate=False):
        while n.get('k') == 'ParenExpr':
            n = n['c'][0]
        if n.get('k') == 'BinaryOperator' and n.get('op') == '&&' and not negate:
            return self.cond(n['c'][0], ctx) + self.cond(n['c'][1], ctx)
        if n.get('k') == 'BinaryOperator' and n.get('op') in ('>', '<', '>=', '<=', '==', '!='):
            a, b = self.text(n['c'][0], ctx), self.text(n['c'][1], ctx)
            op = n['op']
            if negate:
                op = {'>': '<=', '<': '>=', '>=': '<', '<=': '>', '==': '!=', '!=': '=='}[op]
            return ['%s%s%s' % (a, op, b)]
        return [('!' if negate else '') + self.text(n, ctx)]

    # statements --------------------------------------------------------------------------------------------
    def block(self, n, ctx, dest, cls):
        """dest: name the value read by a helper is stored to (for `rv[i] = ...` inside helpers)"""
        k = n.get('k')
        if k == 'CompoundStmt':
            pushed = 0
            for c in n.get('c', []):
                # if (c) { ...; continue; }  guards the rest of the block with !c
                if c.get('k') == 'IfStmt' and self.ends_with_continue(c.get('then') or {}) and not c.get('else'):
                    g = self.cond(c['cond'], ctx, negate=True)
                    ctx.guards.extend(g)
                    pushed += len(g)
                    continue
                self.block(c, ctx, dest, cls)
            if pushed:
                del ctx.guards[len(ctx.guards) - pushed:]
        elif k == 'TryStmt':
            for r in n.get('resources', []):
                pass
            self.block(n['block'], ctx, dest, cls)
        elif k == 'DeclStmt':
            for d in n.get('decls', []):
                if d.get('init') is not None:
                    # a local of the reader has no counterpart by name: marked with %
                    self.assign(('%' if dest is None else '') + _clean(d['name']), d['init'], ctx, dest, cls, d.get('ln') or n.get('ln'), local_id=d.get('id'))
        elif k == 'BinaryOperator' and n.get('op') == '=':
            lhs = self.text(n['c'][0], ctx)
            self.assign(lhs, n['c'][1], ctx, dest, cls, n.get('ln'))
        elif k == 'ForStmt':
            cond = n.get('cond') or {}
            var = None
            for a in walk(n.get('init') or {}):
                if a.get('k') == 'DeclStmt':
                    for d in a.get('decls', []):
                        var = d.get('id')
            bound = self.text(cond['c'][1], ctx) if cond.get('c') else '?'
            ctx.loops.append((var, bound))
            self.block(n['body'], ctx, dest, cls)
            ctx.loops.pop()
        elif k == 'IfStmt':
            g = self.cond(n['cond'], ctx)
            ctx.guards.extend(g)
            self.block(n.get('then') or {}, ctx, dest, cls)
            del ctx.guards[len(ctx.guards) - len(g):]
        elif k == 'ReturnStmt':
            pass

    @staticmethod
    def ends_with_continue(n):
        body = n.get('c', []) if n.get('k') == 'CompoundStmt' else [n]
        return bool(body) and body[-1].get('k') == 'ContinueStmt'

    def assign(self, lhs, rhs, ctx, dest, cls, ln, local_id=None):
        while rhs.get('k') in ('ParenExpr', 'CStyleCastExpr'):
            rhs = rhs['c'][0]
        # inside a helper the local result array stands for the caller's destination
        name = lhs
        if dest is not None:
            name = re.sub(r'^rv\b', dest, lhs)
        k = rhs.get('k')
        loops = tuple(b for v, b in ctx.loops)
        if k == 'CallExpr':
            q = rhs.get('qcallee') or ''
            c = rhs.get('callee')
            if q.endswith('.getInt') or q.endswith('.getDouble'):
                self.items.append(('int' if q.endswith('getInt') else 'double', '1', name, loops, tuple(ctx.guards), ln))
                return
            if c == 'readString':
                self.items.append(('string', '1', name, loops, tuple(ctx.guards), ln))
                return
            if c == 'arrayReshape':
                a = rhs['args']
                self.lengths[name] = self.text(a[1], ctx)
                self.lengths[name + '[]'] = self.text(a[2], ctx)
                # the reshaped array takes over the identity of the flat one that was read
                src = self.text(a[0], ctx)
                for i, it in enumerate(self.items):
                    if it[2] == src:
                        self.items[i] = (it[0], it[1], name, it[3], it[4], it[5])
                return
            h = self.J.funcs.get(c)
            if h is not None and 'body' in h and any(x.get('k') == 'CallExpr' and (x.get('qcallee') or '').endswith(('.getInt', '.getDouble', '.get'))
                                                       or (x.get('k') == 'CallExpr' and x.get('callee') in ('readDoubleArray', 'readIntArray', 'readDoubleArrayOfArrays'))
                                                       for x in walk(h['body'])):
                sub = Ctx()
                sub.loops, sub.guards = ctx.loops, ctx.guards
                sub.env = dict(ctx.env)
                for p, a in zip(h['params'], rhs.get('args', [])):
                    sub.env[p['id']] = self.text(a, ctx)
                    if p['T'].endswith(']'):
                        # array parameter: its length is the length of the argument
                        an = re.sub(r'\[i\d+\]', '[]', self.text(a, ctx))
                        if an in self.lengths:
                            self.lengths[self.text(a, ctx)] = self.lengths[an]
                first = len(self.items)
                self.block(h['body'], sub, name, self.J.x)
                # a vector read element by element: loop(n){type x1} -> type x n
                self.collapse(first, name)
                if c in ('readIntArray', 'readDoubleArray') and first < len(self.items):
                    self.lengths[name] = self.items[first][1]
                return
        if k == 'NewExpr' and rhs.get('cls') in self.J.classes:
            rc = self.J.classes[rhs['cls']]
            ctor = [m for m in rc['functions'] if m.get('ctor') and len(m['params']) == 1 and 'ByteBuffer' in m['params'][0]['T']]
            if ctor:
                sub = Ctx()
                sub.loops, sub.guards = ctx.loops, ctx.guards
                self.block(ctor[0]['body'], sub, None, rc)
            return
        if k == 'NewArray':
            dims = rhs.get('dims', [])
            if dims:
                self.lengths[re.sub(r'\[i\d+\]', '[]', name)] = self.text(dims[0], ctx)

    def collapse(self, first, name):
        items = self.items[first:]
        if len(items) == 1:
            ty, cnt, nm, loops, guards, ln = items[0]
            if cnt == '1' and loops and re.search(r'\[i%d\]$' % (len(loops) - 1), nm):
                self.items[first] = (ty, loops[-1], re.sub(r'\[i%d\]$' % (len(loops) - 1), '', nm), loops[:-1], guards, ln)


def normalise_names(items):
    """record fields: path prefixes are dropped on the writer side already; list element subscripts become []"""
    out = []
    for ty, cnt, name, loops, guards, ln in items:
        nm = re.sub(r'\[i\d+\]', '[]', name)
        nm = re.sub(r'^\w+\[\]\.', '', nm)
        out.append((ty, cnt, nm, loops, guards, ln))
    return out


def compare(witems, ritems):
    """first position at which the two schemas disagree: (index, writer item, reader item) or None"""
    alias = {}

    def ren(t):
        for k, v in alias.items():
            t = re.sub(r'\b%s\b' % re.escape(k), v, t)
        return t
    n = max(len(witems), len(ritems))
    for i in range(n):
        a = witems[i] if i < len(witems) else None
        b = ritems[i] if i < len(ritems) else None
        if a is None or b is None:
            return i, a, b
        bt, bc, bn, bl, bg, bln = b
        if bn.startswith('%'):
            alias[bn[1:]] = a[2]
            bn = a[2]
        b2 = (bt, ren(bc), ren(bn), tuple(ren(x) for x in bl), tuple(sorted(ren(x) for x in bg)))
        if a[:5] != b2:
            return i, a, b2 + (bln,)
    return None
