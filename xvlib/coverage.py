"""Coverage facts (O4 of C03): for which atomic numbers can a lookup succeed, read from the shipped data.

cover_over(f)  - over-approximation of {Z : f can succeed}: Z satisfies the Z-only guards of some value path of f
                 (range tests on Z and on table cells indexed by Z alone) and of the delegates that succeeded there.
cover_exact(g) - defined only when *every* branch decision of g depends on Z alone; then it is exactly the set of Z
                 for which g succeeds.
An untested delegated call g(Z, ..., error) on a path is discharged when allowed(path) is a subset of cover_exact(g).
"""
import re
from fractions import Fraction

from . import datafiles
from .normform import Rat
from .facts import walk, show
from .errstate import outcome, error_param

# frozen from src/xrayfiles.c (each confirmed by reading): guard table -> (data file, kind)
GUARD_TABLES = {
    'NE_Photo': ('CS_Photo.dat', 'spline'), 'NE_Rayl': ('CS_Rayl.dat', 'spline'), 'NE_Compt': ('CS_Compt.dat', 'spline'),
    'Nq_Rayl': ('FF.dat', 'spline'), 'Nq_Compt': ('SF.dat', 'spline'), 'NE_Fi': ('fi.dat', 'spline'), 'NE_Fii': ('fii.dat', 'spline'),
    'NE_Energy': ('CS_Energy.dat', 'spline1'), 'AtomicWeight_arr': ('atomicweight.dat', 'pairs'),
    'ElementDensity_arr': ('densities.dat', 'pairs'), 'NShells_ComptonProfiles': ('comptonprofiles.dat', 'cp_ns'),
    'Npz_ComptonProfiles': ('comptonprofiles.dat', 'cp_npz'), 'NE_Photo_Total_Kissel': ('kissel_pe.dat', 'kissel'),
}
OUTD = -9999


class DataFacts:
    def __init__(self, prog):
        self.prog = prog
        self.zmax = prog.macro_value('ZMAX')
        self.k = prog.macro_value('SHELLNUM_K')
        self._t = {}

    def table(self, name):
        if name in self._t:
            return self._t[name]
        spec = GUARD_TABLES.get(name)
        if spec is None:
            return None
        fn, kind = spec
        repo = self.prog.repo
        vals = {z: OUTD for z in range(self.zmax + 1)}
        if kind in ('spline', 'spline1'):
            d = datafiles.spline_file(repo, fn, self.zmax, leading_count=(kind == 'spline1'))
            for z, (xs, ys, y2) in d.items():
                vals[z] = len(xs)
        elif kind == 'pairs':
            for z, v in datafiles.pairs(repo, fn):
                if 0 <= z <= self.zmax:
                    vals[z] = float(v)
        elif kind in ('cp_ns', 'cp_npz'):
            d = datafiles.compton_profiles(repo, self.zmax)
            for z, r in d.items():
                vals[z] = r['nshells'] if kind == 'cp_ns' else r['npz']
        elif kind == 'kissel':
            d = datafiles.kissel(repo, self.zmax, self.k)
            for z, r in d.items():
                vals[z] = len(r['total'][0])
        self._t[name] = vals
        return vals


def _holds(iv, v):
    v = Fraction(v).limit_denominator(10 ** 12) if not isinstance(v, int) else Fraction(v)
    if iv.lo is not None and (v < iv.lo or (v == iv.lo and iv.los)):
        return False
    if iv.hi is not None and (v > iv.hi or (v == iv.hi and iv.his)):
        return False
    if iv.nz and v == 0:
        return False
    return True


class Coverage:
    def __init__(self, prog, summ):
        self.prog = prog
        self.summ = summ
        self.data = DataFacts(prog)
        self._over = {}
        self._exact = {}
        self.zmax = self.data.zmax

    def zsym(self, fname):
        f = self.summ.funcs.get(fname)
        if f and f['params'] and f['params'][0]['T'] == 'int':
            return f['params'][0]['name']
        return None

    def allowed_on_path(self, fname, p, depth=0):
        """Over-approximation of the Z values that can reach the end of path p of function fname."""
        z = self.zsym(fname)
        it = self.summ.interp[fname]
        if z is None:
            return None
        allowed = set(range(-3, self.zmax + 4))
        ivz = it.interval_of(Rat.sym(z), p)
        allowed = {x for x in allowed if _holds(ivz, x)}
        for key, iv in p.facts.items():
            m = re.match(r'^(\w+)\[%s\]$' % re.escape(z), key)
            if m and m.group(1) in GUARD_TABLES:
                tbl = self.data.table(m.group(1))
                allowed = {x for x in allowed if 0 <= x <= self.zmax and _holds(iv, tbl[x])}
        if depth < 4:
            for e in p.events:
                if e.kind == 'call' and e.name in self.summ.funcs and e.args and e.args[0] is not None and e.args[0].canon() == z:
                    callee = self.summ.funcs[e.name]
                    if outcome(it, p, e, callee['ret']) == 'ok':
                        co = self.cover_over(e.name, depth + 1)
                        if co is not None:
                            allowed &= co
        return allowed

    def cover_over(self, fname, depth=0):
        if fname in self._over:
            return self._over[fname]
        self._over[fname] = None     # cycle guard
        if fname not in self.summ.paths or self.zsym(fname) is None:
            return None
        it = self.summ.interp[fname]
        res = set()
        for p in self.summ.paths[fname]:
            if p.ret is None or it.is_zero(p.ret, p):
                continue
            a = self.allowed_on_path(fname, p, depth)
            if a is None:
                return None
            res |= a
        self._over[fname] = res
        return res

    def z_only(self, fname):
        """Every branch decision of fname mentions only Z, constants and guard-table cells of Z."""
        f = self.summ.funcs.get(fname)
        z = self.zsym(fname)
        if f is None or z is None:
            return False
        ok_names = {z} | set(GUARD_TABLES)
        for n in walk(f['body']):
            if n.get('k') in ('IfStmt', 'WhileStmt', 'ForStmt', 'ConditionalOperator', 'SwitchStmt'):
                c = n.get('cond') or (n.get('c') or [None])[0]
                for x in walk(c or {}):
                    if x.get('k') == 'DeclRefExpr' and x.get('cls') != 'enumc':
                        nm = x['name']
                        if nm not in ok_names:
                            # a local that holds a guard-table cell of Z is fine
                            if x.get('cls') == 'local':
                                continue
                            return False
                    if x.get('k') == 'CallExpr':
                        return False
        # locals used in conditions must be loads of guard tables
        for n in walk(f['body']):
            if n.get('k') == 'BinaryOperator' and n.get('op') == '=' and n['c'][0].get('cls') == 'local':
                rhs = n['c'][1]
                names = {x['name'] for x in walk(rhs) if x.get('k') == 'DeclRefExpr'}
                if not names <= ok_names:
                    return False
                if any(x.get('k') == 'CallExpr' for x in walk(rhs)):
                    return False
        return True

    def cover_exact(self, fname):
        if fname in self._exact:
            return self._exact[fname]
        r = None
        if self.z_only(fname):
            r = self.cover_over(fname)
        self._exact[fname] = r
        return r


def data_return_ranges(prog):
    """Ranges of the functions whose every return is either the failure sentinel 0 or one cell T[Z] of a table that is
    filled from a (Z, value) data file: {function name: Interval hull of the file's values and 0}.  The shape of the
    function is decided on its abstract paths, the hull comes from the data file of the current tree."""
    import re as _re
    from .absint import run_function, Interval
    from fractions import Fraction as _F
    out = {}
    data = DataFacts(prog)
    for tname, (fn, kind) in GUARD_TABLES.items():
        if kind != 'pairs':
            continue
        for f in prog.src_funcs():
            if f['unit'].startswith('src/') is False or len(f.get('params', [])) != 2 or f['ret'] != 'double':
                continue
            if not any(n.get('k') == 'DeclRefExpr' and n.get('name') == tname for n in walk_body(f)):
                continue
            try:
                it, paths = run_function(prog, f)
            except Exception:
                continue
            ok = bool(paths)
            z = f['params'][0]['name']
            for p in paths:
                if p.ret is None:
                    ok = False
                elif it.is_zero(p.ret, p):
                    continue
                elif p.ret.canon() != '%s[%s]' % (tname, z):
                    ok = False
            if not ok:
                continue
            vals = [v for v in data.table(tname).values() if v != OUTD]
            if not vals:
                continue
            lo, hi = min(vals + [0.0]), max(vals + [0.0])
            out[f['name']] = Interval(_F(lo).limit_denominator(10 ** 9), _F(hi).limit_denominator(10 ** 9))
    return out


def walk_body(f):
    from .facts import walk as _walk
    return _walk(f.get('body') or {})
