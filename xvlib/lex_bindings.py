"""E6 - small lexers for the binding interface files.

Each `*_constants` function returns an ordered dict  NAME -> (value, line, type-word)  where value is an
int, an exact Fraction, a str (string constants) or None when the right-hand side could not be evaluated.
Names are returned upper-cased for the case-insensitive languages (Fortran, Pascal, IDL)."""
import re
from collections import OrderedDict
from fractions import Fraction

from .facts import parse_number
from .frontend import AnalysisBroken


def _read(path):
    with open(path, encoding='utf-8', errors='replace') as fh:
        return fh.read()


def eval_expr(txt, env, case_insensitive=False):
    """Evaluate an arithmetic constant expression with names looked up in env. Returns None if impossible."""
    toks = re.findall(r'\d+\.?\d*(?:[eEdD][+-]?\d+)?|\.\d+(?:[eEdD][+-]?\d+)?|[A-Za-z_]\w*|\S', txt)
    pos = [0]

    def peek():
        return toks[pos[0]] if pos[0] < len(toks) else None

    def eat():
        t = toks[pos[0]]
        pos[0] += 1
        return t

    def atom():
        t = eat()
        if t == '(':
            v = expr()
            if eat() != ')':
                raise ValueError
            return v
        if t == '-':
            return -atom()
        if t == '+':
            return atom()
        if re.match(r'^[A-Za-z_]', t):
            k = t.upper() if case_insensitive else t
            if k not in env or env[k] is None or isinstance(env[k], str):
                raise ValueError(t)
            return env[k]
        t2 = re.sub(r'[dD]', 'e', t)
        # Fortran kind suffix 1.0_C_DOUBLE is not used in these files
        return parse_number(t2)

    def term():
        v = atom()
        while peek() in ('*', '/'):
            op = eat()
            w = atom()
            v = v * w if op == '*' else Fraction(v) / Fraction(w)
        return v

    def expr():
        v = term()
        while peek() in ('+', '-'):
            op = eat()
            w = term()
            v = v + w if op == '+' else v - w
        return v

    try:
        v = expr()
        if pos[0] != len(toks):
            return None
        if isinstance(v, Fraction) and v.denominator == 1 and not re.search(r'[.eEdD/]', txt):
            v = int(v)
        return v
    except (ValueError, IndexError, ZeroDivisionError, TypeError):
        return None


# ------------------------------------------------------------------------------------------------
# Fortran

def fortran_logical_lines(path):
    """(first line number, joined text) with comments stripped and '&' continuations joined;
    preprocessor lines are returned as ('#', text)."""
    out = []
    cur = None
    start = 0
    for i, raw in enumerate(_read(path).split('\n'), 1):
        if raw.startswith('#'):
            out.append((i, raw))
            continue
        # strip comment (no '!' inside strings in declaration lines of interest; be careful anyway)
        s = ''
        inq = None
        for ch in raw:
            if inq:
                s += ch
                if ch == inq:
                    inq = None
                continue
            if ch in '"\'':
                inq = ch
                s += ch
                continue
            if ch == '!':
                break
            s += ch
        s = s.rstrip()
        if not s.strip():
            continue
        t = s.strip()
        if cur is None:
            start = i
            cur = ''
        if t.startswith('&'):
            t = t[1:]
        if t.endswith('&'):
            cur += t[:-1] + ' '
            continue
        cur += t
        out.append((start, cur))
        cur = None
    return out


def fortran_constants(path):
    env = OrderedDict()
    cpp = {}
    for ln, txt in fortran_logical_lines(path):
        if txt.startswith('#'):
            m = re.match(r'#\s*define\s+(\w+)\s+(.+?)\s*$', txt)
            if m:
                cpp[m.group(1)] = eval_expr(m.group(2), cpp)
            continue
        m = re.match(r'^(INTEGER|REAL|CHARACTER)\s*\(([^)]*)\)\s*,\s*PARAMETER\s*::\s*(\w+)\s*=\s*(.+)$', txt, re.I)
        if not m:
            continue
        ty, name, rhs = m.group(1).upper(), m.group(3).upper(), m.group(4).strip()
        lookup = dict(cpp)
        lookup.update({k: v[0] for k, v in env.items()})
        # cpp names are case-sensitive and start with '_' in this file; PARAMETER names are upper-cased
        v = eval_expr(rhs, {**{k.upper(): val for k, val in lookup.items()}, **cpp}, case_insensitive=False) \
            if re.match(r'^_', rhs) else eval_expr(rhs, {k.upper(): val for k, val in lookup.items()}, True)
        env[name] = (v, ln, 'int' if ty == 'INTEGER' else 'double' if ty == 'REAL' else 'str')
    return env


# ------------------------------------------------------------------------------------------------
# Pascal

def pascal_strip_comments(txt):
    """Remove // { } (* *) comments, keep compiler directives {$...} out as well; preserves newlines."""
    out = []
    i = 0
    n = len(txt)
    while i < n:
        ch = txt[i]
        if ch == "'":
            j = i + 1
            while j < n and txt[j] != "'":
                j += 1
            out.append(txt[i:j + 1])
            i = j + 1
        elif txt.startswith('//', i):
            j = txt.find('\n', i)
            j = n if j < 0 else j
            i = j
        elif ch == '{':
            j = txt.find('}', i)
            j = n if j < 0 else j
            out.append('\n' * txt.count('\n', i, j))
            i = j + 1
        elif txt.startswith('(*', i):
            j = txt.find('*)', i)
            j = n if j < 0 else j + 1
            out.append('\n' * txt.count('\n', i, j))
            i = j + 1
        else:
            out.append(ch)
            i += 1
    return ''.join(out)


def pascal_constants(path, until=None):
    txt = pascal_strip_comments(_read(path))
    if until:
        m = re.search(r'^\s*%s\b' % until, txt, re.I | re.M)
        if m:
            txt = txt[:m.start()]
    env = OrderedDict()
    line = 1
    for stmt in re.split(r';', txt):
        first_nonblank = line + stmt[:len(stmt) - len(stmt.lstrip())].count('\n')
        line += stmt.count('\n')
        s = stmt.strip()
        s = re.sub(r'^(const|type|var)\s+', '', s, flags=re.I)
        m = re.match(r'^(\w+)\s*(?::\s*\w+\s*)?=\s*(.+)$', s, re.S)
        if not m:
            continue
        name, rhs = m.group(1).upper(), m.group(2).strip()
        if rhs.startswith("'"):
            v = rhs.strip("'")
            ty = 'str'
        else:
            v = eval_expr(rhs, {k: val[0] for k, val in env.items()}, True)
            ty = 'double' if isinstance(v, Fraction) else 'int'
        env[name] = (v, first_nonblank, ty)
    return env


# ------------------------------------------------------------------------------------------------
# Java

def java_strip_comments(txt):
    out = []
    i = 0
    n = len(txt)
    while i < n:
        ch = txt[i]
        if ch == '"':
            j = i + 1
            while j < n and txt[j] != '"':
                if txt[j] == '\\':
                    j += 1
                j += 1
            out.append(txt[i:j + 1])
            i = j + 1
        elif ch == "'":
            j = i + 1
            while j < n and txt[j] != "'":
                if txt[j] == '\\':
                    j += 1
                j += 1
            out.append(txt[i:j + 1])
            i = j + 1
        elif txt.startswith('//', i):
            j = txt.find('\n', i)
            i = n if j < 0 else j
        elif txt.startswith('/*', i):
            j = txt.find('*/', i)
            j = n if j < 0 else j + 2
            out.append('\n' * txt.count('\n', i, j))
            i = j
        else:
            out.append(ch)
            i += 1
    return ''.join(out)


def java_constants(path):
    txt = java_strip_comments(_read(path))
    env = OrderedDict()
    for m in re.finditer(r'public\s+static\s+final\s+(int|double|String)\s+(\w+)\s*=\s*([^;]+);', txt):
        ty, name, rhs = m.group(1), m.group(2), m.group(3).strip()
        ln = txt.count('\n', 0, m.start()) + 1
        if ty == 'String':
            v = rhs.strip('"') if rhs.startswith('"') and rhs.count('"') == 2 else None
            ty = 'str'
        else:
            v = eval_expr(rhs.replace('Math.PI', 'PI'), {k: val[0] for k, val in env.items()})
        env[name] = (v, ln, ty)
    return env


# ------------------------------------------------------------------------------------------------
# IDL

def idl_constants(main_path):
    """Constants assigned by the IDL start-up script, following `.run file` / `@file` in place (IDL
    executes the named file at that point, so later lines may use its names)."""
    import os
    env = OrderedDict()
    common = []
    visited = []

    def do_file(path, depth=0):
        if depth > 5 or path in visited:
            return
        visited.append(path)
        lines = _read(path).split('\n')
        i = 0
        while i < len(lines):
            raw = lines[i]
            ln = i + 1
            s = raw.split(';', 1)[0].rstrip()
            while s.endswith('$') and i + 1 < len(lines):
                i += 1
                s = s[:-1] + ' ' + lines[i].split(';', 1)[0].rstrip()
            i += 1
            s = s.strip()
            if not s:
                continue
            m = re.match(r'^(?:\.run|\.r|@)\s*(\w+)\s*$', s, re.I)
            if m:
                q = os.path.join(os.path.dirname(path), m.group(1) + '.pro')
                if os.path.exists(q):
                    do_file(q, depth + 1)
                continue
            m = re.match(r'^COMMON\s+(\w+)\s*,\s*(.*)$', s, re.I)
            if m:
                common.append((m.group(1).upper(), [x.strip().upper() for x in m.group(2).split(',') if x.strip()],
                               path, ln))
                continue
            m = re.match(r'^(\w+)\s*=\s*(.+)$', s)
            if m:
                name, rhs = m.group(1).upper(), m.group(2).strip()
                if rhs.startswith("'") or rhs.startswith('"'):
                    v = rhs.strip('\'"')
                    ty = 'str'
                else:
                    v = eval_expr(rhs, {k: val[0] for k, val in env.items()}, True)
                    ty = 'double' if isinstance(v, Fraction) else 'int'
                env[name] = (v, ln, ty, path)

    do_file(main_path)
    return env, common, visited


# ------------------------------------------------------------------------------------------------
# Cython

def cython_pxd_constants(path):
    """`int NAME "CNAME"` / `double NAME "CNAME"` variable declarations inside cdef extern blocks."""
    env = OrderedDict()
    for i, raw in enumerate(_read(path).split('\n'), 1):
        s = raw.split('#', 1)[0].rstrip()
        m = re.match(r'^\s+(int|double)\s+(\w+)\s+"(\w+)"\s*$', s)
        if m:
            env[m.group(2)] = (m.group(3), i, m.group(1))
    return env


def cython_pyx_constants(path):
    """Module-level `NAME = xrl.OTHER` publications."""
    env = OrderedDict()
    for i, raw in enumerate(_read(path).split('\n'), 1):
        m = re.match(r'^(\w+)\s*=\s*xrl\.(\w+)\s*(?:#.*)?$', raw)
        if m:
            env[m.group(1)] = (m.group(2), i)
    return env
