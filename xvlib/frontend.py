"""Front end: from /repo's current working tree to a fact base.

Every check calls get_facts(); the first call on a given tree content configures a scratch build
directory with meson (to obtain config.h and the compile database of *this* tree), runs the
xrl-facts extractor over every unit of libxrl and prdata, java/pr_data_java.c and a synthetic C++
unit, and caches the merged facts under /verif/.cache/<treehash>/.  The cache holds derived facts
only and is keyed by a content hash of the whole tree, so an edit anywhere in /repo re-extracts.
"""
import hashlib
import json
import os
import pickle
import shutil
import subprocess
import sys
import tempfile
import time
from concurrent.futures import ThreadPoolExecutor

VERIF = os.path.dirname(os.path.dirname(os.path.abspath(__file__)))
REPO = os.environ.get('XV_REPO', '/repo')
CACHE = os.path.join(VERIF, '.cache')
XRL_FACTS = os.path.join(VERIF, 'bin', 'xrl-facts')
GUARD = 'XRAYLIB_VERIF'

SKIP_DIRS = {'.git', '_build', 'build', '__pycache__', '.cache'}


class AnalysisBroken(Exception):
    """The analysis could not be carried out (exit 2); never a verdict."""


def tree_hash(repo=REPO):
    h = hashlib.sha1()
    n = 0
    for root, dirs, files in os.walk(repo):
        dirs[:] = sorted(d for d in dirs if d not in SKIP_DIRS)
        for f in sorted(files):
            p = os.path.join(root, f)
            if os.path.islink(p) or not os.path.isfile(p):
                continue
            h.update(os.path.relpath(p, repo).encode())
            h.update(b'\0')
            with open(p, 'rb') as fh:
                h.update(hashlib.sha1(fh.read()).digest())
            n += 1
    # the extractor and this module are part of the key: facts change when they change
    for p in (os.path.join(VERIF, 'tools', 'xrl-facts.cc'), os.path.join(VERIF, 'tools', 'JavaFacts.java'), os.path.abspath(__file__)):
        with open(p, 'rb') as fh:
            h.update(hashlib.sha1(fh.read()).digest())
    return h.hexdigest()[:20], n


def scratch_dir():
    base = os.environ.get('XV_SCRATCH') or '/var/tmp'
    os.makedirs(base, exist_ok=True)
    return tempfile.mkdtemp(prefix='xrlverif.', dir=base)


def _run(cmd, cwd=None, timeout=600):
    p = subprocess.run(cmd, cwd=cwd, stdout=subprocess.PIPE, stderr=subprocess.STDOUT, timeout=timeout)
    return p.returncode, p.stdout.decode('utf-8', 'replace')


def resource_dir():
    rc, out = _run(['clang', '-print-resource-dir'])
    return out.strip()


def meson_configure(repo, bdir):
    env_flags = ['-Dpython-bindings=disabled', '-Dpython-numpy-bindings=disabled', '-Dfortran-bindings=disabled']
    rc, out = _run(['meson', 'setup', bdir, repo] + env_flags)
    if rc != 0:
        raise AnalysisBroken('meson setup failed on the current tree:\n' + out[-2000:])


CXX_UNIT = r'''
#include <xraylib++.h>
'''


def _flags_from_db_entry(e, bdir):
    import shlex
    if 'arguments' in e:
        args = list(e['arguments'])
    else:
        args = shlex.split(e['command'])
    keep = []
    i = 1
    while i < len(args):
        a = args[i]
        if a in ('-o', '-MF', '-MQ', '-MT'):
            i += 2
            continue
        if a in ('-c', '-MD', '-MMD', '-MP') or a.startswith('-W') or a.startswith('-O') or a == '-g' \
                or a.startswith('-fdiagnostics') or a == '-pipe' or a.startswith('-fPIC') or a.startswith('-fvisibility'):
            if a.startswith('-fvisibility'):
                keep.append(a)
            i += 1
            continue
        if a.endswith('.c') or a.endswith('.cpp'):
            i += 1
            continue
        if a.startswith('-I') and not os.path.isabs(a[2:]):
            a = '-I' + os.path.normpath(os.path.join(e['directory'], a[2:]))
        keep.append(a)
        i += 1
    return keep


def extract(repo=REPO, want_generated=False, keep_generated_to=None):
    """Configure, (optionally) generate, extract.  Returns dict(units=[...], coverage=...)."""
    t0 = time.time()
    if not os.path.exists(XRL_FACTS):
        raise AnalysisBroken('bin/xrl-facts missing: run MANIFEST.setup_cmd (make -C /verif)')
    sd = scratch_dir()
    try:
        bdir = os.path.join(sd, 'b')
        meson_configure(repo, bdir)
        db = json.load(open(os.path.join(bdir, 'compile_commands.json')))
        units = []
        seen = set()
        src_flags = None
        for e in db:
            f = os.path.normpath(os.path.join(e['directory'], e['file']))
            if not f.startswith(os.path.join(repo, 'src') + os.sep):
                continue
            if f in seen:
                # shared sources are compiled twice (prdata and libxrl) with identical flags
                continue
            seen.add(f)
            fl = _flags_from_db_entry(e, bdir)
            units.append((f, fl, 'c'))
            if f.endswith('pr_data.c'):
                src_flags = fl
        if not units or src_flags is None:
            raise AnalysisBroken('compile database of the current tree lists no src/ units')
        jp = os.path.join(repo, 'java', 'pr_data_java.c')
        if os.path.exists(jp):
            units.append((jp, src_flags, 'c'))
        # synthetic C++ unit
        cxx = os.path.join(sd, 'xv_cxx_unit.cpp')
        with open(cxx, 'w') as fh:
            fh.write(CXX_UNIT)
        incs = ['-I' + os.path.join(repo, 'cplusplus'), '-I' + os.path.join(repo, 'include'), '-I' + bdir,
                '-I' + os.path.join(repo, 'src')]
        units.append((cxx, ['-std=c++11', '-x', 'c++'] + incs, 'cxx'))

        gen_path = None
        if want_generated:
            rc, out = _run(['ninja', '-C', bdir, 'src/xrayglob_inline.c'], timeout=900)
            if rc != 0:
                raise AnalysisBroken('generation of src/xrayglob_inline.c failed:\n' + out[-3000:])
            gen_path = os.path.join(bdir, 'src', 'xrayglob_inline.c')

        rdir = resource_dir()
        outdir = os.path.join(sd, 'facts')
        os.makedirs(outdir)

        def one(i_u):
            i, (f, fl, lang) = i_u
            out = os.path.join(outdir, '%03d.json' % i)
            cmd = [XRL_FACTS, '--root', repo, '--root', sd, '--out', out, f, '--'] + fl + \
                ['-UNDEBUG', '-D' + GUARD, '-resource-dir', rdir, '-Wno-everything']
            rc, o = _run(cmd, timeout=300)
            return f, lang, out, rc, o

        results = []
        with ThreadPoolExecutor(max_workers=16) as ex:
            for r in ex.map(one, enumerate(units)):
                results.append(r)
        facts_units = []
        for f, lang, out, rc, o in results:
            if rc != 0 or not os.path.exists(out):
                raise AnalysisBroken('extractor failed on %s (rc=%s):\n%s' % (f, rc, o[-3000:]))
            d = json.load(open(out))
            if d.get('errors'):
                raise AnalysisBroken('unit %s does not compile (%d errors):\n%s' % (f, d['errors'], o[-3000:]))
            d['lang'] = lang
            d['path'] = f
            d['rel'] = os.path.relpath(f, repo) if f.startswith(repo) else os.path.basename(f)
            facts_units.append(d)
        # second stage: instantiate every C++ wrapper template with the argument types of the C function of the same
        # name, so that the calls inside the wrappers are resolved by clang (C18)
        inst = instantiation_unit(facts_units)
        if inst is not None:
            ipath = os.path.join(sd, 'xv_cxx_inst.cpp')
            with open(ipath, 'w') as fh:
                fh.write(inst)
            out = os.path.join(outdir, 'inst.json')
            cmd = [XRL_FACTS, '--root', repo, '--root', sd, '--out', out, ipath, '--', '-std=c++11', '-x', 'c++'] + incs + \
                ['-UNDEBUG', '-D' + GUARD, '-resource-dir', rdir, '-Wno-everything', '-ferror-limit=0']
            rc, o = _run(cmd, timeout=300)
            if not os.path.exists(out):
                raise AnalysisBroken('extractor failed on the C++ instantiation unit (rc=%s):\n%s' % (rc, o[-3000:]))
            d = json.load(open(out))
            d['lang'] = 'cxxinst'
            d['path'] = ipath
            d['rel'] = 'xv_cxx_inst.cpp'
            d['text'] = inst
            # a wrapper that cannot be instantiated with the C argument types is a finding of C18, not a broken analysis
            d['diagnostics'] = [l for l in o.split('\n') if ' error: ' in l or ' note: ' in l][:200]
            facts_units.append(d)
        # the Java implementation: parsed with javac's own parser (tools/JavaFacts.java), same node vocabulary
        jdir = os.path.join(repo, 'java')
        jfiles = sorted(os.path.join(jdir, f) for f in os.listdir(jdir) if f.endswith('.java')) if os.path.isdir(jdir) else []
        if jfiles:
            if not os.path.exists(os.path.join(VERIF, 'bin', 'JavaFacts.class')):
                raise AnalysisBroken('bin/JavaFacts.class missing: run MANIFEST.setup_cmd (make -C /verif)')
            jout = os.path.join(outdir, 'java.json')
            rc, o = _run(['java', '-cp', os.path.join(VERIF, 'bin'), 'JavaFacts', jout] + jfiles, timeout=300)
            if rc != 0 or not os.path.exists(jout):
                raise AnalysisBroken('JavaFacts failed (rc=%s):\n%s' % (rc, o[-3000:]))
            jd = json.load(open(jout))
            if jd.get('errors'):
                raise AnalysisBroken('the Java sources do not parse (%d errors):\n%s' % (jd['errors'], jd.get('diagnostics', '')[-2000:]))
            for c in jd['classes']:
                c['rel'] = os.path.relpath(c['file'], repo)
                for f in c['functions']:
                    f['rel'] = c['rel']
                    f['unit'] = c['rel']
                    f['cls'] = c['name']
            facts_units.append({'unit': 'java', 'lang': 'java', 'path': jdir, 'rel': 'java', 'errors': 0, 'classes': jd['classes'],
                                'functions': [], 'globals': [], 'protos': [], 'records': [], 'typedefs': [], 'enums': [], 'macros': []})
        res = {'units': facts_units, 'scratch': sd, 'bdir': bdir, 'extract_s': time.time() - t0,
               'config_h': open(os.path.join(bdir, 'config.h')).read()}
        if want_generated and keep_generated_to:
            shutil.copyfile(gen_path, keep_generated_to)
        return res
    finally:
        shutil.rmtree(sd, ignore_errors=True)


def instantiation_unit(units):
    """Text of a C++ unit that calls every xrlpp wrapper template once per applicable overload with values of exactly
    the C prototype's parameter types (minus the trailing xrl_error**).  None when there is no C++ unit."""
    cxx = [u for u in units if u.get('lang') == 'cxx']
    if not cxx:
        return None
    templ = []
    for f in cxx[0]['functions']:
        if f.get('origin') == 'template' and f.get('qname', '').startswith('xrlpp::') and f['name'] not in templ:
            templ.append(f['name'])
    protos = {}
    for u in units:
        if u.get('lang') != 'c':
            continue
        for p in u.get('protos', []):
            if '/include/' in (p.get('file') or '') and p.get('params') and p['params'][-1]['T'].replace(' ', '') == 'struct_xrl_error**'.replace(' ', ''):
                protos.setdefault(p['name'], p)
    lines = ['#include <xraylib++.h>', '#include <string>', 'namespace xv_inst {']
    for n in templ:
        p = protos.get(n)
        if p is None:
            lines.append('// %s: no C prototype with a trailing xrl_error** of that name' % n)
            continue
        ps = p['params'][:-1]
        vals = ['(%s)0' % (q['T'] if '[' in (q.get('Ts') or '[') else q['Ts']) for q in ps]
        lines.append('double generic_%s() { return xrlpp::%s(%s); }' % (n, n, ', '.join(vals)))
        if ps and ps[0]['T'].replace(' ', '') == 'constchar*':
            lines.append('double string_%s() { return xrlpp::%s(%s); }' % (n, n, ', '.join(['std::string()'] + vals[1:])))
    lines.append('}')
    return '\n'.join(lines) + '\n'


def _prune_cache(keep):
    try:
        ents = [(os.path.getmtime(os.path.join(CACHE, d)), d) for d in os.listdir(CACHE)]
    except FileNotFoundError:
        return
    ents.sort(reverse=True)
    for _, d in ents[3:]:
        if d != keep:
            shutil.rmtree(os.path.join(CACHE, d), ignore_errors=True)


def get_facts(repo=REPO, generated=False):
    """Return (facts dict, info).  facts['units'] as emitted by xrl-facts (macros de-duplicated).
    With generated=True also ensures <cache>/xrayglob_inline.c exists and returns its path."""
    th, nfiles = tree_hash(repo)
    cdir = os.path.join(CACHE, th)
    fpk = os.path.join(cdir, 'facts.pkl')
    gen = os.path.join(cdir, 'xrayglob_inline.c')
    info = {'tree_hash': th, 'files_hashed': nfiles, 'cache_hit': False}
    need_gen = generated and not os.path.exists(gen)
    if os.path.exists(fpk) and not need_gen:
        try:
            with open(fpk, 'rb') as fh:
                facts = pickle.load(fh)
            info['cache_hit'] = True
            os.utime(cdir)
            if generated:
                info['generated'] = gen
            return facts, info
        except Exception:
            pass
    os.makedirs(cdir, exist_ok=True)
    tmpgen = gen + '.%d.tmp' % os.getpid() if generated else None
    res = extract(repo, want_generated=generated, keep_generated_to=tmpgen)
    # de-duplicate macros across units
    macros = {}
    for u in res['units']:
        for m in u.pop('macros'):
            key = m['name']
            # a macro may be defined differently in different units; keep all variants
            macros.setdefault(key, [])
            if not any(x['body'] == m['body'] and x['file'] == m['file'] and x['ln'] == m['ln'] for x in macros[key]):
                macros[key].append(m)
    facts = {'units': res['units'], 'macros': macros, 'config_h': res['config_h'], 'extract_s': res['extract_s'],
             'repo': repo}
    tmp = fpk + '.%d.tmp' % os.getpid()
    with open(tmp, 'wb') as fh:
        pickle.dump(facts, fh, protocol=pickle.HIGHEST_PROTOCOL)
    os.replace(tmp, fpk)
    if generated:
        os.replace(tmpgen, gen)
        info['generated'] = gen
    _prune_cache(th)
    return facts, info
