"""E3 - name-derived oracles.  Everything is computed from the macro table of the current headers."""
import re

from .frontend import AnalysisBroken

SHELL_RX = r'(?:K|L[1-3]|M[1-5]|N[1-7]|O[1-7]|P[1-5]|Q[1-3])'


class Names:
    def __init__(self, prog):
        self.prog = prog
        # ---- shells
        self.shell_value = {}
        for m in prog.macros_in('include/xraylib-shells.h'):
            mm = re.match(r'^(%s)_SHELL$' % SHELL_RX, m['name'])
            if mm:
                v = prog.macro_value(m['name'])
                if isinstance(v, int):
                    self.shell_value[mm.group(1)] = v
        if len(self.shell_value) < 28:
            raise AnalysisBroken('fewer than 28 shell macros found in xraylib-shells.h')
        self.shell_by_value = {v: k for k, v in self.shell_value.items()}
        self.shells = [self.shell_by_value[v] for v in sorted(self.shell_by_value)]
        # ---- lines (IUPAC)
        self.line_value = {}      # 'KL1' -> -1
        for m in prog.macros_in('include/xraylib-lines.h'):
            mm = re.match(r'^(\w+)_LINE$', m['name'])
            if mm:
                v = prog.macro_value(m['name'])
                if isinstance(v, int):
                    self.line_value[mm.group(1)] = v
        self.line_by_value = {}
        for k, v in self.line_value.items():
            self.line_by_value.setdefault(v, k)
        # ---- line macros in xraylib.h: groups and Siegbahn aliases
        self.group_value = {}
        self.alias = {}           # 'KA1' -> 'KL3'
        for m in prog.macros_in('include/xraylib.h'):
            mm = re.match(r'^(\w+)_LINE$', m['name'])
            if not mm:
                continue
            t = prog.macro_alias_target(m['name'])
            if t and t.endswith('_LINE'):
                self.alias[mm.group(1)] = prog.resolve_alias(m['name'])[:-5]
            else:
                v = prog.macro_value(m['name'])
                if isinstance(v, int):
                    self.group_value[mm.group(1)] = v
        # ---- CK transitions
        self.ck_value = {}
        for m in prog.macros_in('include/xraylib.h'):
            mm = re.match(r'^(F\w+)_TRANS$', m['name'])
            if mm:
                v = prog.macro_value(m['name'])
                if isinstance(v, int):
                    self.ck_value[mm.group(1)] = v
        # ---- Auger
        self.auger_value = {}
        for m in prog.macros_in('include/xraylib-auger.h'):
            mm = re.match(r'^(%s)_(%s)(%s)_AUGER$' % (SHELL_RX, SHELL_RX, SHELL_RX), m['name'])
            if mm:
                v = prog.macro_value(m['name'])
                if isinstance(v, int):
                    self.auger_value[m['name'][:-6]] = v
        self.auger_by_value = {v: k for k, v in self.auger_value.items()}

    # ---- shells -----------------------------------------------------------------------------
    @staticmethod
    def principal(shell):
        return shell[0]

    def shell_index(self, shell):
        return self.shell_value[shell]

    # ---- lines ------------------------------------------------------------------------------
    def parse_line(self, name):
        """'L3N5' -> ('L3', ['N5']); doublets 'L3O45' -> ('L3', ['O4','O5']); 'KO' -> ('K', 'O*' group)."""
        m = re.match(r'^(%s)(%s)$' % (SHELL_RX, SHELL_RX), name)
        if m:
            return m.group(1), [m.group(2)]
        m = re.match(r'^(%s)([L-Q])([1-7])([1-7])$' % SHELL_RX, name)
        if m:
            return m.group(1), [m.group(2) + m.group(3), m.group(2) + m.group(4)]
        m = re.match(r'^(K)([OP])$', name)
        if m:
            return m.group(1), [m.group(2) + '*']
        return None

    def is_doublet(self, name):
        p = self.parse_line(name)
        return bool(p and len(p[1]) == 2)

    def doublet_members(self, name):
        src, dst = self.parse_line(name)
        return [src + d for d in dst]

    def line_slot(self, name):
        """Table slot of an IUPAC line name."""
        return -self.line_value[name] - 1

    def lines_of_shell(self, shell):
        """IUPAC line names whose initial vacancy is `shell`, in macro order (descending value)."""
        out = [(v, k) for k, v in self.line_value.items() if (self.parse_line(k) or (None,))[0] == shell]
        return [k for v, k in sorted(out, reverse=True)]

    def resolve_line_macro(self, macro):
        """'KA1_LINE' -> 'KL3'; 'L3M5_LINE' -> 'L3M5'; group macros return themselves ('KA')."""
        n = macro[:-5] if macro.endswith('_LINE') else macro
        return self.alias.get(n, n)

    # ---- Coster-Kronig -----------------------------------------------------------------------
    def parse_ck(self, name):
        """'FL12' -> ('L1','L2',False); 'FLP13' -> ('L1','L3',True); 'FM23' -> ('M2','M3',False)."""
        m = re.match(r'^F([LM])(P?)([1-5])([1-5])$', name)
        if not m:
            return None
        return m.group(1) + m.group(3), m.group(1) + m.group(4), bool(m.group(2))

    def ck_from(self, shell):
        return sorted(n for n in self.ck_value if self.parse_ck(n) and self.parse_ck(n)[0] == shell)

    def ck_between(self, a, b):
        return sorted(n for n in self.ck_value if self.parse_ck(n) and self.parse_ck(n)[:2] == (a, b))

    def ck_table_name(self, name):
        """Record name used in coskron.dat / TransName: FL12 -> F12, FLP13 -> FP13, FM12 -> FM12."""
        m = re.match(r'^FL(P?)(\d\d)$', name)
        if m:
            return 'F' + m.group(1) + m.group(2)
        return name

    # ---- Auger -------------------------------------------------------------------------------
    def parse_auger(self, name):
        m = re.match(r'^(%s)_(%s)(%s)$' % (SHELL_RX, SHELL_RX, SHELL_RX), name)
        if not m:
            return None
        return m.group(1), m.group(2), m.group(3)

    def auger_is_ck_type(self, name):
        i, a, b = self.parse_auger(name)
        return a[0] == i[0] or b[0] == i[0]

    def augers_of(self, shell):
        out = [(v, k) for k, v in self.auger_value.items() if self.parse_auger(k)[0] == shell]
        return [k for v, k in sorted(out)]

    def auger_table_name(self, name):
        i, a, b = self.parse_auger(name)
        return '%s-%s%s' % (i, a, b)
