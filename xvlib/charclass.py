"""Finite-domain evaluation of the formula scanner's character tests.

The scanning pass of CompoundParserSimple (C) / compoundData.CompoundParserSimple (Java) looks at the formula only through
comparisons of a character with a literal and through the ctype predicates.  So its decision for a character depends only on the
CLASS of that character and of its predecessor - a finite domain - and can be evaluated exhaustively on the syntax tree, without
running anything: for every (previous class, current class) the if-chain of the loop body is walked and the branch taken is
classified as 'reject' (an error exit) or 'accept'.
"""
from xvlib.facts import walk, show

CLASSES = ('upper', 'lower', 'digit', 'dot', 'open', 'close', 'space', 'other')
REPR = {'upper': 'A', 'lower': 'a', 'digit': '5', 'dot': '.', 'open': '(', 'close': ')', 'space': ' ', 'other': '+'}
CTYPE = {
    'isupper': {'upper'}, 'islower': {'lower'}, 'isdigit': {'digit'}, 'isalpha': {'upper', 'lower'}, 'isalnum': {'upper', 'lower', 'digit'},
    'isspace': {'space'}, 'ispunct': {'dot', 'open', 'close', 'other'},
    'isUpperCase': {'upper'}, 'isLowerCase': {'lower'}, 'isDigit': {'digit'}, 'isLetter': {'upper', 'lower'},
    'isLetterOrDigit': {'upper', 'lower', 'digit'}, 'isWhitespace': {'space'}, 'isAlphabetic': {'upper', 'lower'},
}


class Unknown(Exception):
    pass


def _strip(n):
    while isinstance(n, dict) and n.get('k') in ('ParenExpr', 'ImplicitCastExpr', 'CStyleCastExpr') and n.get('c'):
        n = n['c'][0]
    return n


class Scanner:
    """evaluates conditions of the scanner over (class of S[0], class of S[i-1], class of S[i], i > 0, sign of nbrackets)"""

    def __init__(self, string_names, index_name, counter_name='nbrackets'):
        self.S = set(string_names)
        self.i = index_name
        self.cnt = counter_name
        self.alias = {}          # local char variable -> 'cur' / 'prev' / 'first' (const char c = S[i];)

    def learn_aliases(self, body):
        """temporaries of the loop body that hold one of the three characters"""
        for n in walk(body):
            if n.get('k') == 'DeclStmt':
                for d in n.get('decls', []):
                    if isinstance(d, dict) and d.get('init') is not None:
                        w = self.which(d['init'])
                        if w:
                            self.alias[d['name']] = w
            elif n.get('k') == 'BinaryOperator' and n.get('op') == '=' and _strip(n['c'][0]).get('k') == 'DeclRefExpr':
                w = self.which(n['c'][1])
                if w:
                    self.alias[_strip(n['c'][0])['name']] = w

    # which character does an expression denote: 'first' / 'cur' / 'prev'
    def which(self, n):
        n = _strip(n)
        if n.get('k') == 'DeclRefExpr' and n.get('name') in self.alias:
            return self.alias[n['name']]
        if n.get('k') != 'ArraySubscriptExpr':
            return None
        base, idx = _strip(n['c'][0]), _strip(n['c'][1])
        if base.get('k') != 'DeclRefExpr' or base.get('name') not in self.S:
            return None
        if idx.get('k') == 'IntegerLiteral' and idx.get('val') == 0:
            return 'first'
        if idx.get('k') == 'DeclRefExpr' and idx.get('name') == self.i:
            return 'cur'
        if idx.get('k') == 'BinaryOperator' and idx.get('op') == '-' and _strip(idx['c'][0]).get('name') == self.i and _strip(idx['c'][1]).get('val') == 1:
            return 'prev'
        return None

    def ctype_test(self, n):
        """(predicate name, which character) for a ctype test in either language, else None"""
        n = _strip(n)
        # C: ((*__ctype_b_loc())[(int)(S[i])] & _ISxxx) entirely from the macro isxxx
        if n.get('k') == 'BinaryOperator' and n.get('op') == '&' and n.get('mw') and n.get('m') and n['m'][-1] in CTYPE:
            for x in walk(n):
                w = self.which(x)
                if w:
                    return n['m'][-1], w
            raise Unknown('ctype test on an unknown character: ' + show(n)[:60])
        # Java: Character.isXxx(S[i])
        if n.get('k') == 'CallExpr' and n.get('callee') in CTYPE and len(n.get('args', [])) == 1:
            w = self.which(n['args'][0])
            if w:
                return n['callee'], w
            raise Unknown('ctype test on an unknown character: ' + show(n)[:60])
        return None

    def ev(self, n, env):
        n = _strip(n)
        k = n.get('k')
        t = self.ctype_test(n)
        if t:
            return env[t[1]] in CTYPE[t[0]]
        if k == 'BinaryOperator' and n.get('op') in ('||', '&&'):
            a = self.ev(n['c'][0], env)
            if n['op'] == '||':
                return a or self.ev(n['c'][1], env)
            return a and self.ev(n['c'][1], env)
        if k == 'UnaryOperator' and n.get('op') == '!':
            return not self.ev(n['c'][0], env)
        if k == 'BinaryOperator' and n.get('op') in ('==', '!=', '<', '<=', '>', '>='):
            a, b = _strip(n['c'][0]), _strip(n['c'][1])
            wa, wb = self.which(a), self.which(b)
            if wa or wb:
                ch, lit = (wa, b) if wa else (wb, a)
                if lit.get('k') not in ('CharacterLiteral', 'IntegerLiteral') or n['op'] not in ('==', '!='):
                    raise Unknown('character compared in an unexpected way: ' + show(n)[:60])
                v = lit.get('val')
                v = ord(v) if isinstance(v, str) and len(v) == 1 else v
                same = REPR[env[ch]] == chr(v) if env[ch] not in ('upper', 'lower', 'digit', 'other') else False
                if env[ch] in ('upper', 'lower', 'digit') and chr(v).isalnum():
                    raise Unknown('comparison with a specific letter or digit: ' + show(n)[:60])
                return same if n['op'] == '==' else not same
            # integer tests on the index and on the bracket counter
            def num(x):
                if x.get('k') == 'DeclRefExpr' and x.get('name') == self.i:
                    return env['i']
                if x.get('k') == 'DeclRefExpr' and x.get('name') == self.cnt:
                    return env['nbrackets']
                if isinstance(x.get('v'), int):
                    return x['v']
                if x.get('k') == 'IntegerLiteral':
                    return x.get('val')
                raise Unknown('integer test on something else than the index or the bracket counter: ' + show(x)[:50])
            x, y = num(a), num(b)
            return {'==': x == y, '!=': x != y, '<': x < y, '<=': x <= y, '>': x > y, '>=': x >= y}[n['op']]
        raise Unknown('condition outside the finite domain: ' + show(n)[:80])

    def outcome(self, stmt, env, is_exit):
        """'reject' when the statement reaches an error exit for this character, else 'accept'"""
        if not isinstance(stmt, dict):
            return 'accept'
        k = stmt.get('k')
        if is_exit(stmt):
            return 'reject'
        if k == 'CompoundStmt':
            for s in stmt.get('c', []):
                if self.outcome(s, env, is_exit) == 'reject':
                    return 'reject'
                # bracket counting
                for u in walk(s) if s.get('k') not in ('IfStmt',) else []:
                    pass
            return 'accept'
        if k == 'IfStmt':
            c = self.ev(stmt['cond'], env)
            br = stmt.get('then') if c else stmt.get('else')
            return self.outcome(br, env, is_exit) if br else 'accept'
        return 'accept'


def table(first_guards, loop_body, scanner, is_exit):
    """{'first': {class: outcome}, 'pair': {(prev, cur): outcome}} at bracket depth 0"""
    out = {'first': {}, 'pair': {}}
    scanner.learn_aliases(loop_body)
    for c0 in CLASSES:
        env = {'first': c0, 'cur': c0, 'prev': c0, 'i': 0, 'nbrackets': 0}
        r = 'accept'
        for g in first_guards:
            if scanner.outcome(g, env, is_exit) == 'reject':
                r = 'reject'
        if r == 'accept' and c0 not in ('open', 'close'):
            r = scanner.outcome(loop_body, env, is_exit)
        out['first'][c0] = r
    for pv in CLASSES:
        for cu in CLASSES:
            if cu in ('open', 'close'):
                continue
            env = {'first': 'upper', 'cur': cu, 'prev': pv, 'i': 1, 'nbrackets': 0}
            out['pair'][(pv, cu)] = scanner.outcome(loop_body, env, is_exit)
    return out


def specification():
    """what the property asks of the scanner at bracket depth 0: a formula starts with an element symbol or a group; a lowercase letter
    continues an element symbol, i.e. follows a letter; digits and dots form subscripts (checked further when they are converted);
    blanks and characters outside the alphabet are rejected."""
    spec = {'first': {}, 'pair': {}}
    for c0 in CLASSES:
        spec['first'][c0] = 'accept' if c0 in ('upper', 'open') else 'reject'
    for pv in CLASSES:
        for cu in CLASSES:
            if cu in ('open', 'close'):
                continue
            if cu == 'upper':
                r = 'accept'
            elif cu == 'lower':
                r = 'accept' if pv in ('upper', 'lower') else 'reject'
            elif cu in ('digit', 'dot'):
                r = 'accept'
            else:
                r = 'reject'
            spec['pair'][(pv, cu)] = r
    return spec
