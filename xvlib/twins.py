"""E7 - fingerprints of twin implementations (C function / Java method of the same name) for C19.

A fingerprint is a set of multisets computed from the resolved C tree (macro provenance) resp. the parsed Java tree:
named constants, callees, numeric literals, tables, error messages, guard shapes.  Private helpers that exist on one
side only (Java's CS_Factory and *_catch adaptors, C's static helpers) are inlined into their callers first."""
from collections import Counter
from fractions import Fraction
import re

from .facts import walk, show, strip_casts, parse_number
from . import inittab

ERR_PLUMBING = {'xrl_set_error_literal', 'xrl_set_error', 'xrl_propagate_error', 'xrl_clear_error', 'xrl_error_free',
                'xrl_set_error_valist', 'xrl_propagate_prefixed_error', 'xrl_prefix_error'}
MEMORY = {'malloc', 'calloc', 'realloc', 'free', 'xrl_malloc', 'xrl_calloc', 'xrl_realloc', 'xrl_free', 'xrlFree', 'memcpy', 'memset',
          'xrl_strdup', 'strdup', 'xrl_strndup', 'strlen', 'strerror', '__errno_location'}
JAVA_MATH = {'log': 'log', 'exp': 'exp', 'pow': 'pow', 'sqrt': 'sqrt', 'abs': 'fabs', 'sin': 'sin', 'cos': 'cos', 'tan': 'tan', 'asin': 'asin',
             'acos': 'acos', 'atan': 'atan', 'atan2': 'atan2', 'log10': 'log10', 'floor': 'floor', 'ceil': 'ceil', 'max': 'fmax', 'min': 'fmin',
             'toRadians': 'toRadians', 'toDegrees': 'toDegrees'}


DIM_NAMES = {'ZMAX', 'SHELLNUM', 'SHELLNUM_K', 'SHELLNUM_A', 'TRANSNUM', 'LINENUM', 'AUGERNUM'}      # array extents (the Java tables are flat)


def norm_table(name):
    return name.replace('_arr', '')


class Finger:
    def __init__(self):
        self.consts = Counter()
        self.calls = Counter()
        self.lits = Counter()
        self.tables = Counter()
        self.msgs = Counter()
        self.guards = Counter()
        self.prop = Counter()        # callees whose failure becomes this function's failure
        self.fields = Counter()      # record fields read or written (case-insensitive names)
        self.lines = {}

    def add(self, other, times=1):
        for a in ('consts', 'calls', 'lits', 'tables', 'msgs', 'guards', 'prop', 'fields'):
            c = getattr(self, a)
            for k, v in getattr(other, a).items():
                c[k] += v * times

    def cats(self):
        return {'named constants': self.consts, 'callees': self.calls, 'numeric literals': self.lits, 'tables': self.tables,
                'error messages': self.msgs, 'guards': self.guards, 'fields': self.fields}


def lit_value(n):
    try:
        if n['k'] == 'IntegerLiteral':
            return Fraction(n['val'])
        return parse_number(n.get('sp', n['val']))
    except Exception:
        try:
            return Fraction(str(n.get('val')))
        except Exception:
            return None


# ------------------------------------------------------------------------------------------------- shape normalisation
NEG = {'<': '>=', '<=': '>', '>': '<=', '>=': '<', '==': '!=', '!=': '=='}


def _negate(cond):
    c = strip_casts(cond)
    while c.get('k') == 'ParenExpr':
        c = strip_casts(c['c'][0])
    if c.get('k') == 'BinaryOperator' and c.get('op') in NEG:
        n = dict(c)
        n['op'] = NEG[c['op']]
        n.pop('v', None)
        return n
    return {'k': 'UnaryOperator', 'op': '!', 'ln': c.get('ln'), 'c': [c]}


def _is_value_return(stmt):
    b = stmt.get('c', []) if stmt.get('k') == 'CompoundStmt' else [stmt]
    if len(b) != 1 or b[0].get('k') != 'ReturnStmt' or not b[0].get('c'):
        return False
    v = strip_casts(b[0]['c'][0])
    return not (v.get('k') in ('IntegerLiteral', 'FloatingLiteral') and lit_value(v) == 0)


def normalise_returns(n, is_exit):
    """if (c) return value;  <error exit>     ==>     if (!c) { <error exit> }  return value;
    (the two spellings of a guard; applied to both translations before they are compared)"""
    if isinstance(n, list):
        return [normalise_returns(x, is_exit) for x in n]
    if not isinstance(n, dict):
        return n
    out = {k: normalise_returns(v, is_exit) if isinstance(v, (dict, list)) else v for k, v in n.items()}
    if out.get('k') == 'CompoundStmt':
        c = out.get('c', [])
        # single-exit style:  if (c) { report error; } else { compute rv; }  return rv;     ==>   if (c) { report error; return rv; } compute; return rv;
        for i, st in enumerate(c):
            if st.get('k') == 'IfStmt' and st.get('else') and i + 1 < len(c) and c[i + 1].get('k') == 'ReturnStmt' and i + 2 == len(c):
                th = st['then'].get('c', []) if st['then'].get('k') == 'CompoundStmt' else [st['then']]
                if th and all(strip_casts(x).get('k') == 'CallExpr' and strip_casts(x).get('callee') in ERR_PLUMBING for x in th):
                    el = st['else'].get('c', []) if st['else'].get('k') == 'CompoundStmt' else [st['else']]
                    out['c'] = c[:i] + [{'k': 'IfStmt', 'ln': st.get('ln'), 'cond': st['cond'],
                                         'then': {'k': 'CompoundStmt', 'ln': st.get('ln'), 'c': th + [c[i + 1]]}}] + el + [c[i + 1]]
                    c = out['c']
                    break
        for i, st in enumerate(c):
            if st.get('k') == 'IfStmt' and not st.get('else') and _is_value_return(st.get('then') or {}) and i + 1 < len(c):
                rest = {'k': 'CompoundStmt', 'ln': c[i + 1].get('ln'), 'c': c[i + 1:]}
                if is_exit(rest):
                    ret = st['then']['c'][0] if st['then'].get('k') == 'CompoundStmt' else st['then']
                    out['c'] = c[:i] + [{'k': 'IfStmt', 'ln': st.get('ln'), 'cond': _negate(st['cond']), 'then': rest}, ret]
                    break
    return out


# ------------------------------------------------------------------------------------------------------------------ C
class CSide:
    def __init__(self, prog):
        self.prog = prog
        self.funcs = {}
        for f in prog.src_funcs():
            if f['unit'] in ('src/pr_data.c', 'src/xrayfiles.c', 'src/xrayglob.c', 'java/pr_data_java.c'):
                continue
            self.funcs.setdefault(f['name'], f)
        self._fp = {}
        self._ftab = {}
        self.const_values = {}
        from .absint import rule_named_functions
        named = rule_named_functions()
        for f in prog.src_funcs():
            if f.get('static') and f.get('body') and f['name'] not in named:
                TRANSPARENT_HELPERS.add(f['name'])

    def is_obj_macro(self, name):
        """object-like macro that stands for a value (not for statements)"""
        m = self.prog.macro(name)
        if not m or m['fl']:
            return False
        body = m['body']
        return 0 < len(body) <= 12 and not any(t in (';', '{', '}', '=', 'if', 'return', 'for') for t in body)

    def is_msg_macro(self, name):
        m = self.prog.macro(name)
        return bool(m) and not m['fl'] and len(m['body']) >= 1 and m['body'][0].startswith('"')

    def raw(self, f, skip_conditions=False):
        fp = Finger()
        self._skip_cond = skip_conditions
        self._walk(normalise_returns(f['body'], is_error_exit_c), fp, f)
        self._skip_cond = False
        return fp

    def _walk(self, n, fp, f, index=False):
        if not isinstance(n, dict):
            return
        k = n.get('k')
        if k == 'IfStmt' and getattr(self, '_skip_cond', False):
            for key in ('then', 'else'):
                if key in n:
                    self._walk(n[key], fp, f, index)
            return
        if k in ('SwitchStmt', 'CaseStmt') and getattr(self, '_skip_cond', False):
            # the selector and the case labels are conditions too (switch is another spelling of an if-chain)
            for key in ('body', 'sub'):
                if isinstance(n.get(key), dict):
                    self._walk(n[key], fp, f, index)
            for x in n.get('c', []) if k == 'SwitchStmt' else []:
                pass
            return
        mac = n.get('m') if n.get('mw') else None
        if mac:
            outer = [x for x in mac if self.is_msg_macro(x) or self.is_obj_macro(x)]
            outer = outer[-1] if outer else None
            if outer and self.is_msg_macro(outer):
                fp.msgs[outer] += 1
                return
            if outer and k not in ('CompoundStmt', 'IfStmt', 'ForStmt', 'DeclStmt', 'ReturnStmt', 'DoStmt', 'WhileStmt'):
                if isinstance(n.get('v'), int):
                    self.const_values[outer] = n['v']       # value of the whole expansion as folded by clang
                if not (index and outer in DIM_NAMES):
                    self.record_const(outer, fp)
                return
        if k == 'ReturnStmt':
            c = n.get('c') or []
            if c:
                v = strip_casts(c[0])
                if v.get('k') in ('IntegerLiteral', 'FloatingLiteral') and lit_value(v) == 0 and not v.get('m'):
                    return          # failure sentinel (Java throws instead)
                if v.get('k') in ('CXXNullPtrLiteralExpr', 'GNUNullExpr') or (v.get('m') and v['m'][-1] == 'NULL'):
                    return
        if k == 'IfStmt':
            g = guard_of_c(n)
            if g is not None:
                fp.guards[g] += 1
        if k == 'CallExpr':
            name = n.get('callee')
            if name in ERR_PLUMBING:
                for a in n.get('args', [])[2:3]:
                    a0 = strip_casts(a)
                    if a0.get('m') and self.is_msg_macro(a0['m'][-1]):
                        fp.msgs[a0['m'][-1]] += 1
                    elif a0.get('k') == 'StringLiteral':
                        fp.msgs['"%s"' % a0.get('val')] += 1
                return
            if name and name not in MEMORY:
                fp.calls[name] += 1
                last = strip_casts(n['args'][-1]) if n.get('args') else {}
                is_null = (last.get('m') and last['m'][-1] == 'NULL') or last.get('k') in ('GNUNullExpr', 'CXXNullPtrLiteralExpr') or \
                    (last.get('k') == 'IntegerLiteral' and last.get('val') == 0)
                if 'error' in (last.get('T') or '') or last.get('name') in ('error', 'tmp_error') or \
                        (last.get('k') == 'UnaryOperator' and last.get('op') == '&' and 'error' in show(last)):
                    if not is_null:
                        fp.prop[name] += 1
            for a in n.get('args', []):
                a0 = strip_casts(a)
                if a0.get('k') == 'DeclRefExpr' and a0.get('name') in ('error', 'tmp_error'):
                    continue
                if a0.get('k') == 'UnaryOperator' and a0.get('op') == '&' and show(a0) in ('&tmp_error', '&error'):
                    continue
                if a0.get('m') and a0['m'][-1] == 'NULL':
                    continue
                self._walk(a, fp, f, index)
            if n.get('fn'):
                self._walk(n['fn'], fp, f, index)
            return
        if k in ('IntegerLiteral', 'FloatingLiteral'):
            v = lit_value(n)
            if v is not None and v != 0 and not index:
                fp.lits[v] += 1
            return
        if k == 'DeclRefExpr':
            if n.get('cls') in ('global', 'slocal') and (n.get('dims') or '*' in (n.get('T') or '') or '[' in (n.get('T') or '')):
                targets = self.function_table(n['name'], f)
                if targets:
                    for t in targets:      # a constant table of functions stands for calls of its entries
                        fp.calls[t] += 1
                        fp.prop[t] += 1
                else:
                    fp.tables[norm_table(n['name'])] += 1
            return
        if k == 'ArraySubscriptExpr':
            self._walk(n['c'][0], fp, f, index)
            self._walk(n['c'][1], fp, f, True)
            return
        if k == 'MemberExpr' and n.get('fcls') == 'field' and n.get('rec') != '_xrl_error':
            fp.fields[n['field'].lower()] += 1
        for key in ('cond', 'then', 'else', 'init', 'inc', 'body', 'lhs', 'rhs', 'sub'):
            if key in n:
                self._walk(n[key], fp, f, index)
        for c in n.get('c', []) or []:
            self._walk(c, fp, f, index)
        for d in n.get('decls', []) or []:
            if d.get('init') is not None:
                self._walk(d['init'], fp, f, index)

    def record_const(self, name, fp, depth=0):
        """a constant defined in terms of other named constants (DEGRAD = PI / 180.0) counts as its ingredients"""
        m = self.prog.macro(name)
        body = [t for t in (m['body'] if m else []) if t not in ('(', ')')]
        inner = [t for t in body if re.match(r'^[A-Za-z_]\w*$', t) and self.is_obj_macro(t) and t != name]
        idents = [t for t in body if re.match(r'^[A-Za-z_]\w*$', t)]
        if inner and depth < 3 and idents == inner and '-' not in body and \
                all(re.match(r'^[A-Za-z_]\w*$|^[+*/]$|^[0-9.]+[fFlL]?$|^[0-9.]+[eE][-+]?[0-9]+$', t) for t in body):
            for t in body:
                if t in inner:
                    self.record_const(t, fp, depth + 1)
                elif re.match(r'^[0-9.]', t):
                    try:
                        v = parse_number(t)
                        if v != 0:
                            fp.lits[v] += 1
                    except ValueError:
                        pass
            return
        fp.consts[name] += 1

    def function_table(self, name, f):
        key = (name, f['unit'])
        if key not in self._ftab:
            self._ftab[key] = None
            for g in self.prog.globals_named(name):
                if 'init' in g and g['unit'] == f['unit'] and '(*' in (g.get('T') or ''):
                    try:
                        v = inittab.evaluate(g['init'])
                        refs = [x.name for x in v if isinstance(x, inittab.Ref)]
                        if refs and all(r in self.funcs for r in refs):
                            self._ftab[key] = refs
                    except Exception:
                        pass
        return self._ftab[key]

    def fingerprint(self, name, java_names, depth=0):
        """fingerprint of C function `name` with static helpers that have no Java twin inlined"""
        if name in self._fp:
            return self._fp[name]
        f = self.funcs[name]
        fp = self.raw(f)
        if depth < 4:
            for callee, cnt in list(fp.calls.items()):
                g = self.funcs.get(callee)
                if g is not None and callee not in java_names and g.get('static') and callee != name:
                    sub = self.fingerprint(callee, java_names, depth + 1)
                    del fp.calls[callee]
                    if not fp.prop.pop(callee, 0):
                        sub2 = Finger()
                        sub2.add(sub)
                        sub2.prop = Counter()
                        sub2.msgs = Counter()
                        sub = sub2
                    fp.add(sub, cnt)
        self._fp[name] = fp
        return fp


# static helper functions that no rule names: transparent (filled by CSide from the program)
TRANSPARENT_HELPERS = set()


def is_error_exit_c(stmt):
    """a block whose statements are: report an error, release things, return"""
    body = stmt.get('c', []) if stmt.get('k') == 'CompoundStmt' else [stmt]
    sets = rets = False
    for s in body:
        s0 = strip_casts(s)
        if s0.get('k') == 'CallExpr' and s0.get('callee') in ERR_PLUMBING:
            sets = True
        elif s0.get('k') == 'CallExpr' and (s0.get('callee') in MEMORY or (s0.get('callee') or '').startswith('Free') or s0.get('callee') in ('fclose',)):
            pass
        elif s0.get('k') == 'ReturnStmt':
            rets = True
        elif _is_store(s0):
            pass                      # out-parameters are cleared on failure
        elif s0.get('k') == 'CallExpr' and s0.get('callee') and s0.get('callee') in TRANSPARENT_HELPERS:
            pass                      # a static helper of the same unit (e.g. one that clears the out-parameters)
        elif s0.get('k') == 'IfStmt' and not s0.get('else') and _is_store(_single(s0.get('then') or {})):
            pass
        elif _is_cleanup(s0):
            pass                      # if (cd) FreeCompoundData(cd); else if (cdn) FreeCompoundDataNIST(cdn);
        else:
            return False
    return sets and rets


def _is_cleanup(n):
    """a statement that only releases things, possibly under tests of what there is to release"""
    n = strip_casts(n) if isinstance(n, dict) else {}
    k = n.get('k')
    if k == 'CallExpr':
        return n.get('callee') in MEMORY or (n.get('callee') or '').startswith('Free') or n.get('callee') in ('fclose',)
    if k == 'CompoundStmt':
        return bool(n.get('c')) and all(_is_cleanup(c) for c in n['c'])
    if k == 'IfStmt':
        return _is_cleanup(n.get('then') or {}) and (n.get('else') is None or _is_cleanup(n['else']))
    return False


def _single(n):
    if n.get('k') == 'CompoundStmt' and len(n.get('c', [])) == 1:
        return strip_casts(n['c'][0])
    return strip_casts(n)


def _is_store(n):
    return n.get('k') == 'BinaryOperator' and n.get('op') == '=' and strip_casts(n['c'][1]).get('k') in ('IntegerLiteral', 'FloatingLiteral', 'ImplicitValueInitExpr')


def guard_of_c(n):
    th = n.get('then')
    if th is None or not is_error_exit_c(th):
        return None
    return norm_cond(n['cond'], 'c')


# --------------------------------------------------------------------------------------------------------------- Java
class JavaSide:
    def __init__(self, prog):
        self.prog = prog
        ju = [u for u in prog.units if u.get('lang') == 'java']
        self.classes = {c['name']: c for c in ju[0]['classes']} if ju else {}
        self.x = self.classes.get('Xraylib')
        self.funcs = {}
        self.consts = {}
        self.fields = {}
        if self.x:
            for f in self.x['functions']:
                self.funcs.setdefault(f['name'], f)
            for fl in self.x['fields']:
                self.fields[fl['name']] = fl
                if fl.get('final') and fl.get('static'):
                    self.consts[fl['name']] = fl
        self._fp = {}
        self.c_names = set()
        self._swallow = 0
        self._own_fields = set()
        # nested classes of Xraylib (strategy objects): name -> class
        self.nested = {c['name']: c for c in self.classes.values() if c.get('outer') == 'Xraylib'}

    def strategy(self, field_name):
        """FIELD.execute(...) where FIELD is a static final strategy object: returns (method body owner class, binding)
        with binding: abstract method name -> name of the static method it is bound to."""
        fl = self.fields.get(field_name)
        if not fl or fl['T'] not in self.nested:
            return None
        base = self.nested[fl['T']]
        init = fl.get('init') or {}
        binding = {}
        if init.get('k') == 'MemberRef':
            # functional interface: its single abstract method is the referenced static method
            abstract = [m['name'] for m in base['functions'] if 'body' not in m]
            for a in abstract:
                binding[a] = init['name']
        elif init.get('k') == 'NewExpr' and init.get('cls') in self.nested:
            impl = self.nested[init['cls']]
            for m in impl['functions']:
                body = (m.get('body') or {}).get('c', [])
                if len(body) == 1 and body[0].get('k') == 'ReturnStmt' and body[0]['c'][0].get('k') == 'CallExpr':
                    binding[m['name']] = body[0]['c'][0]['callee']
        else:
            return None
        return base, binding

    def is_msg(self, name):
        fl = self.consts.get(name)
        return fl is not None and fl['T'] == 'String'

    def raw(self, f):
        fp = Finger()
        self._walk(normalise_returns(f.get('body') or {}, Guards._java_exit), fp, f)
        return fp

    def _walk(self, n, fp, f, index=False):
        if not isinstance(n, dict):
            return
        k = n.get('k')
        if k == 'TryStmt':
            for r in n.get('resources', []) or []:
                self._walk(r, fp, f, index)
            if n.get('catches'):
                self._swallow += 1
            self._walk(n.get('block') or {}, fp, f, index)
            if n.get('catches'):
                self._swallow -= 1
            for c in n.get('catches', []) or []:
                self._walk(c.get('block') or {}, fp, f, index)
            if n.get('finally'):
                self._walk(n['finally'], fp, f, index)
            return
        if k == 'ThrowStmt':
            e = n['c'][0]
            if e.get('k') == 'NewExpr':
                for a in e.get('args', [])[:1]:
                    if a.get('k') == 'DeclRefExpr':
                        fp.msgs[a['name']] += 1
                    elif a.get('k') == 'StringLiteral':
                        fp.msgs['"%s"' % a.get('val')] += 1
                    else:
                        self._walk(a, fp, f)
            return
        if k == 'IfStmt':
            g = guard_of_java(n)
            if g is not None:
                fp.guards[g] += 1
        if k == 'CallExpr':
            name = n.get('callee')
            q = n.get('qcallee') or name
            if q.startswith('Math.'):
                name = JAVA_MATH.get(name, name)
            elif 'recv' in n and not q.startswith('Xraylib.'):
                name = q.split('.', 1)[-1] if q.count('.') == 1 and q.split('.')[0][:1].isupper() else '.' + name
            if index and name in self.funcs and name not in self.c_names:
                name = None           # a private helper that computes a flat offset: only its arguments matter
            recv = n.get('recv') or {}
            if recv.get('k') == 'DeclRefExpr' and recv.get('cls') == 'global' and self.strategy(recv['name']):
                # FIELD.execute(...): the template method of the strategy object with its abstract steps bound
                base, binding = self.strategy(recv['name'])
                tm = [m for m in base['functions'] if m['name'] == n.get('callee') and 'body' in m]
                if tm:
                    sub = Finger()
                    self._walk(tm[0]['body'], sub, tm[0], False)
                    for a, target in binding.items():
                        if a in sub.calls:
                            sub.calls[target] += sub.calls.pop(a)
                        if a in sub.prop:
                            sub.prop[target] += sub.prop.pop(a)
                        # the template method may call the bound step through a *_catch adaptor of its own
                        for suffix in ('_catch',):
                            if a + suffix in sub.calls:
                                sub.calls[target] += sub.calls.pop(a + suffix)
                                sub.prop.pop(a + suffix, None)
                    fp.add(sub)
                    for a in n.get('args', []):
                        self._walk(a, fp, f, index)
                    return
            if name and re.match(r'^\.get[A-Z]\w*$', name) and not n.get('args'):
                fp.fields[name[4:].lower()] += 1
                name = None           # getter of a result object: the C side reads the field
            if name:
                fp.calls[name] += 1
                if not self._swallow:
                    fp.prop[name] += 1
            for a in n.get('args', []):
                self._walk(a, fp, f, index)
            if 'recv' in n and not q.startswith('Math.') and not q.startswith('Xraylib.'):
                self._walk(n['recv'], fp, f, index)
            return
        if k in ('IntegerLiteral', 'FloatingLiteral'):
            v = lit_value(n)
            if v is not None and v != 0 and not index:
                fp.lits[v] += 1
            return
        if k == 'ArraySubscriptExpr':
            self._walk(n['c'][0], fp, f, index)
            self._walk(n['c'][1], fp, f, True)
            return
        if k == 'MemberExpr' and n.get('text') == 'Math.PI':
            fp.consts['PI'] += 1
            return
        if k == 'MemberExpr' and (n.get('text') or '').startswith('Xraylib.') and n.get('c') and n['c'][0].get('k') == 'DeclRefExpr' and \
                n['c'][0].get('name') == 'Xraylib':
            n = {'k': 'DeclRefExpr', 'cls': 'global', 'name': n['field']}
            k = 'DeclRefExpr'
        if k == 'DeclRefExpr':
            if n.get('cls') == 'global':
                nm = n['name']
                if (nm in self.consts and self.consts[nm]['T'] in ('int', 'double', 'String')) or \
                        (nm in self.fields and self.fields[nm]['T'] in ('int', 'double') and self.fields[nm].get('static')):
                    if self.is_msg(nm):
                        fp.msgs[nm] += 1
                    elif not (index and nm in DIM_NAMES):
                        fp.consts[nm] += 1
                elif nm in self.fields and ('[' in (self.fields[nm]['T'] or '') or self.fields[nm]['T'] not in ('int', 'double', 'String', 'boolean')):
                    fp.tables[norm_table(nm)] += 1
                elif nm in self._own_fields:
                    fp.fields[nm.lower()] += 1
            return
        if k == 'MemberExpr' and n.get('fcls') == 'field' and n.get('field') != 'length' and n.get('c') and \
                n['c'][0].get('k') in ('DeclRefExpr', 'ArraySubscriptExpr', 'CallExpr', 'ParenExpr') and not (n.get('text') or '').startswith(('Math.', 'Xraylib.')):
            fp.fields[n['field'].lower()] += 1
        for key in ('cond', 'then', 'else', 'init', 'inc', 'body', 'lhs', 'rhs', 'sub', 'block', 'finally', 'range'):
            if key in n and isinstance(n[key], dict):
                self._walk(n[key], fp, f, index)
        for key in ('c', 'args', 'dims', 'resources'):
            for c in n.get(key, []) or []:
                self._walk(c, fp, f, index)
        for c in n.get('catches', []) or []:
            self._walk(c.get('block') or {}, fp, f, index)
        for d in n.get('decls', []) or []:
            if d.get('init') is not None:
                self._walk(d['init'], fp, f, index)

    def catch_adaptor(self, f):
        """try { return g(args); } catch (...) { return 0.0; }  ->  name of g"""
        body = (f.get('body') or {}).get('c', [])
        if len(body) == 1 and body[0].get('k') == 'TryStmt':
            blk = body[0]['block'].get('c', [])
            cats = body[0].get('catches', [])
            plain = all(len((c.get('block') or {}).get('c', [])) == 1 and c['block']['c'][0].get('k') == 'ReturnStmt' and
                        c['block']['c'][0].get('c') and c['block']['c'][0]['c'][0].get('k') in ('FloatingLiteral', 'IntegerLiteral') for c in cats)
            if len(blk) == 1 and blk[0].get('k') == 'ReturnStmt' and blk[0]['c'][0].get('k') == 'CallExpr' and cats and plain:
                return blk[0]['c'][0]['callee']
        return None

    def delegate(self, f):
        """static f(obj, args...) { return obj.g(args...); }  ->  the method g of obj's class"""
        body = (f.get('body') or {}).get('c', [])
        if len(body) != 1 or body[0].get('k') != 'ReturnStmt' or not body[0].get('c'):
            return None
        e = body[0]['c'][0]
        if e.get('k') != 'CallExpr' or 'recv' not in e or e['recv'].get('k') != 'DeclRefExpr' or e['recv'].get('cls') != 'param':
            return None
        cls = self.classes.get(e['recv'].get('T'))
        if not cls:
            return None
        ms = [m for m in cls['functions'] if m['name'] == e['callee'] and len(m['params']) == len(e.get('args', []))]
        return (cls, ms[0]) if ms else None

    def fingerprint(self, name, c_names, depth=0):
        if name in self._fp:
            return self._fp[name]
        self.c_names = c_names
        f = self.funcs[name]
        d = self.delegate(f)
        if d:
            cls, m = d
            # calls to sibling methods of the object are calls to the static twins of the same name
            self._own_fields = {fl['name'] for fl in cls['fields'] if not fl.get('static')}
            fp = self.raw(m)
            helpers = {h['name']: h for h in cls['functions'] if h['name'] not in c_names and h['name'] not in self.funcs and 'body' in h}
            for _ in range(3):
                for callee, cnt in list(fp.calls.items()):
                    if callee in helpers:
                        del fp.calls[callee]
                        fp.prop.pop(callee, None)
                        fp.add(self.raw(helpers[callee]), cnt)
            self._own_fields = set()
            self._fp[name] = fp
            fp.delegated = '%s.%s' % (cls['name'], m['name'])
            return fp
        fp = self.raw(f)
        if depth < 4:
            for callee, cnt in list(fp.calls.items()):
                g = self.funcs.get(callee)
                if g is None or callee == name or callee in c_names:
                    continue
                ad = self.catch_adaptor(g)
                del fp.calls[callee]
                pc = fp.prop.pop(callee, 0)
                if ad:
                    fp.calls[ad] += cnt      # g_catch(args) is the C idiom g(args, NULL) with the 0 sentinel
                else:
                    sub = self.fingerprint(callee, c_names, depth + 1)
                    if not pc:
                        sub2 = Finger()
                        sub2.add(sub)
                        sub2.prop = Counter()
                        sub2.msgs = Counter()
                        sub = sub2
                    fp.add(sub, cnt)
        self._fp[name] = fp
        return fp


def guard_of_java(n):
    th = n.get('then')
    if th is None:
        return None
    body = th.get('c', []) if th.get('k') == 'CompoundStmt' else [th]
    if len(body) >= 1 and body[-1].get('k') == 'ThrowStmt':
        return norm_cond(n['cond'], 'java')
    return None


# ------------------------------------------------------------------------------------------------------- guard shapes
def norm_cond(n, side):
    """order-insensitive rendering of a guard: comparisons over names, macro names and numbers"""
    n = strip_casts(n)
    while n.get('k') == 'ParenExpr':
        n = strip_casts(n['c'][0])
    k = n.get('k')
    if k == 'BinaryOperator' and n['op'] in ('||', '&&'):
        parts = sorted(norm_cond(c, side) for c in flatten(n, n['op']))
        return '(' + (' %s ' % n['op']).join(parts) + ')'
    if k == 'BinaryOperator' and n['op'] in ('<', '<=', '>', '>=', '==', '!='):
        a, b = term(n['c'][0], side), term(n['c'][1], side)
        op = n['op']
        if op in ('>', '>='):
            a, b, op = b, a, {'>': '<', '>=': '<='}[op]
        if op in ('==', '!=') and a > b:
            a, b = b, a
        return '%s %s %s' % (a, op, b)
    if k == 'UnaryOperator' and n['op'] == '!':
        return '!' + norm_cond(n['c'][0], side)
    return term(n, side)


def flatten(n, op):
    out = []
    for c in n['c']:
        c0 = strip_casts(c)
        while c0.get('k') == 'ParenExpr':
            c0 = strip_casts(c0['c'][0])
        if c0.get('k') == 'BinaryOperator' and c0.get('op') == op:
            out += flatten(c0, op)
        else:
            out.append(c0)
    return out


def term(n, side):
    n = strip_casts(n)
    while n.get('k') == 'ParenExpr':
        n = strip_casts(n['c'][0])
    if n.get('m') and n.get('mw') and len(n['m']) == 1:
        return n['m'][-1]
    k = n.get('k')
    if k in ('IntegerLiteral', 'FloatingLiteral'):
        v = lit_value(n)
        return str(v) if v is not None else str(n.get('val'))
    if k == 'DeclRefExpr':
        return n['name']
    if k in ('CXXNullPtrLiteralExpr', 'GNUNullExpr'):
        return 'NULL'
    if k == 'UnaryOperator':
        return n['op'] + term(n['c'][0], side)
    if k == 'BinaryOperator':
        a, b = term(n['c'][0], side), term(n['c'][1], side)
        if n['op'] in ('+', '*') and a > b:
            a, b = b, a
        return '(%s%s%s)' % (a, n['op'], b)
    if k == 'ArraySubscriptExpr':
        return '%s[%s]' % (norm_table(term(n['c'][0], side)), term(n['c'][1], side))
    if k == 'MemberExpr':
        base = term(n['c'][0], side) if n.get('c') else 'this'
        return '%s.%s' % (base, n['field'])
    if k == 'CallExpr':
        name = n.get('callee')
        args = [term(a, side) for a in n.get('args', [])]
        args = [a for a in args if a not in ('error', 'NULL', '&tmp_error')]
        if name and name.endswith('_catch'):
            name = name[:-6]
        return '%s(%s)' % (name, ','.join(args))
    return show(n)


# ------------------------------------------------------------------------------------------ transitive parameter guards
class Guards:
    """G*(f): the conditions over f's own parameters (and constants / tables) under which f - or a callee whose failure
    becomes f's failure - reports an error.  Conditions are rendered order-insensitively with positional parameter
    placeholders, so that they can be mapped through call sites."""

    def __init__(self, cside, jside):
        self.C = cside
        self.J = jside
        self.memo = {}

    # -- per function -------------------------------------------------------------------------------------------
    def params(self, side, f):
        ps = [p['name'] for p in f.get('params', [])]
        if side == 'c' and ps and ps[-1] in ('error',):
            ps = ps[:-1]
        return ps

    def local(self, side, f):
        """[(cond string with parameters as p0.., )] and call sites [(callee, [arg strings or None], propagating)]"""
        ps = self.params(side, f)
        guards, sites = [], []
        self._branches = []
        self._order = []
        J = self.J
        # a parameter that the body assigns (density = cdn->density) no longer stands for the caller's argument: a test of it is not a
        # range of arguments that is rejected
        assigned, pos = {}, {}
        nbody = normalise_returns(f.get('body') or {}, is_error_exit_c if side == 'c' else self._java_exit)
        for i_, n_ in enumerate(walk(nbody)):
            pos[id(n_)] = i_
            t_ = None
            if n_.get('k') in ('BinaryOperator', 'CompoundAssignOperator') and (n_.get('op') or '').endswith('=') and n_.get('op') not in ('==', '!=', '<=', '>=') \
                    and n_.get('c'):
                t_ = strip_casts(n_['c'][0])
            elif n_.get('k') == 'UnaryOperator' and n_.get('op') in ('++', '--') and n_.get('c'):
                t_ = strip_casts(n_['c'][0])
            if t_ is not None and t_.get('k') == 'DeclRefExpr' and t_.get('cls') == 'param':
                assigned.setdefault(t_['name'], i_)

        def ok_leaf(n):
            n = strip_casts(n)
            while n.get('k') == 'ParenExpr':
                n = strip_casts(n['c'][0])
            return n

        def simple(n):
            """parameter -> 'p<i>', constant / literal / global table -> its text, otherwise None"""
            n = ok_leaf(n)
            if n.get('mw') and n.get('m'):
                cl = [x for x in n['m'] if self.C.is_obj_macro(x)]
                if cl and cl[-1] == n['m'][-1]:
                    return cl[-1]
                if cl and n.get('k') in ('IntegerLiteral', 'FloatingLiteral') and cl[0] == n['m'][0]:
                    return cl[0]           # the literal itself is the body of a named constant used inside a larger macro
            k = n.get('k')
            if k == 'DeclRefExpr':
                if n.get('cls') == 'param' and n['name'] in ps:
                    if n['name'] in assigned and pos.get(id(n), 1 << 60) > assigned[n['name']]:
                        return None           # read after the (first) assignment in the text of the body
                    return 'p%d' % ps.index(n['name'])
                if n.get('cls') in ('global', 'enumc'):
                    return norm_table(n['name'])
                return None
            if k in ('IntegerLiteral', 'FloatingLiteral'):
                v = lit_value(n)
                return str(v) if v is not None else None
            if k == 'MemberExpr' and (n.get('text') or '').startswith('Xraylib.'):
                return n['field']
            if k == 'UnaryOperator' and n.get('op') == '-':
                s_ = simple(n['c'][0])
                return None if s_ is None else '-' + s_
            if k == 'BinaryOperator' and n.get('op') in ('+', '-', '*', '/'):
                a, b = simple(n['c'][0]), simple(n['c'][1])
                if a is None or b is None:
                    return None
                if n['op'] in ('+', '*') and a > b:
                    a, b = b, a
                return '(%s%s%s)' % (a, n['op'], b)
            if k == 'ArraySubscriptExpr':
                a = simple(n['c'][0])
                idx = ok_leaf(n['c'][1])
                # flat Java table: T[row * DIM + col]  ->  T[row][col]
                if side == 'j' and idx.get('k') == 'BinaryOperator' and idx.get('op') == '+':
                    x, y = ok_leaf(idx['c'][0]), ok_leaf(idx['c'][1])
                    for prod, col in ((x, y), (y, x)):
                        if prod.get('k') == 'BinaryOperator' and prod.get('op') == '*':
                            f1, f2 = ok_leaf(prod['c'][0]), ok_leaf(prod['c'][1])
                            for dim, row in ((f1, f2), (f2, f1)):
                                if dim.get('k') == 'DeclRefExpr' and dim.get('name') in DIM_NAMES:
                                    r_, c_ = simple(row), simple(col)
                                    if a is not None and r_ is not None and c_ is not None:
                                        return '%s[%s][%s]' % (a, r_, c_)
                b = simple(n['c'][1])
                if a is None or b is None:
                    return None
                return '%s[%s]' % (a, b)
            return None

        def cond(n):
            n = ok_leaf(n)
            k = n.get('k')
            if k == 'BinaryOperator' and n['op'] in ('||',):
                out = []
                for c in flatten(n, '||'):
                    out += cond(c)
                return out
            if k == 'BinaryOperator' and n['op'] in ('<', '<=', '>', '>=', '==', '!='):
                a, b = simple(n['c'][0]), simple(n['c'][1])
                if a is None or b is None:
                    return []
                op = n['op']
                ptr = any((ok_leaf(c).get('T') or '').endswith('*') for c in n['c'])
                if 'NULL' in (a, b) or (ptr and '0' in (a, b)):
                    return []              # a null argument is an exception in Java by itself
                if op in ('>', '>='):
                    a, b, op = b, a, {'>': '<', '>=': '<='}[op]
                if op in ('==', '!=') and a > b:
                    a, b = b, a
                return ['%s %s %s' % (a, op, b)]
            if k == 'BinaryOperator' and n['op'] == '&&':
                parts = []
                for c in flatten(n, '&&'):
                    x = cond(c)
                    if len(x) != 1:
                        return []
                    parts.append(x[0])
                return ['(' + ' && '.join(sorted(parts)) + ')']
            return []

        def walk_stmt(n, swallow):
            if not isinstance(n, dict):
                return
            k = n.get('k')
            if k == 'IfStmt':
                th = n.get('then') or {}
                is_exit = is_error_exit_c(th) if side == 'c' else self._java_exit(th)
                if is_exit:
                    for g in cond(n['cond']):
                        guards.append(g)
                        self._order.append(('guard', g))
                else:
                    for g in cond(n['cond']):
                        if re.search(r'\bp\d+\b', g):
                            self._branches.append(g)
                    # an early value return: `if (cond) return <value>;`
                    tb = th.get('c', []) if th.get('k') == 'CompoundStmt' else [th]
                    if len(tb) == 1 and tb[0].get('k') == 'ReturnStmt' and not n.get('else'):
                        cs_ = cond(n['cond'])
                        if len(cs_) == 1 and re.search(r'\bp\d+\b', cs_[0]):
                            self._order.append(('early', cs_[0]))
            if k == 'TryStmt':
                for r in n.get('resources', []) or []:
                    walk_stmt(r, swallow)
                walk_stmt(n.get('block'), swallow or bool(n.get('catches')))
                for c in n.get('catches', []) or []:
                    walk_stmt(c.get('block'), swallow)
                walk_stmt(n.get('finally'), swallow)
                return
            if k == 'CallExpr':
                name = n.get('callee')
                args = list(n.get('args', []))
                prop = not swallow
                targets = [name] if name else []
                if side == 'c':
                    last = strip_casts(args[-1]) if args else {}
                    is_err = last.get('name') in ('error', 'tmp_error') or 'error' in show(last)
                    is_null = (last.get('m') and last['m'][-1] == 'NULL') or (last.get('k') == 'IntegerLiteral' and last.get('val') == 0)
                    if is_err or is_null:
                        args = args[:-1]
                    prop = is_err and not is_null
                    if not name and n.get('fn'):
                        base = n['fn']
                        while base.get('k') in ('ArraySubscriptExpr', 'UnaryOperator', 'ParenExpr', 'ImplicitCastExpr') and base.get('c'):
                            base = base['c'][0]
                        if base.get('k') == 'DeclRefExpr':
                            targets = self.C.function_table(base['name'], f) or []
                else:
                    q = n.get('qcallee') or name
                    recv = n.get('recv') or {}
                    if recv.get('k') == 'DeclRefExpr' and recv.get('cls') == 'global' and J.strategy(recv['name']):
                        targets = ['%s.%s' % (recv['name'], name)]
                    elif 'recv' in n and not q.startswith('Xraylib.'):
                        targets = []
                if name not in ERR_PLUMBING:
                    argt = [simple(a) for a in args]
                    if side == 'j' and f.get('_cls') and 'recv' not in n and any(m['name'] == name for m in f['_cls']['functions']):
                        argt = ['p0'] + argt          # a sibling method called on the same object
                    for t in targets:
                        sites.append((t, argt, prop))
                        self._order.append(('site', t, argt, prop))
            for key in ('cond', 'then', 'else', 'init', 'inc', 'body', 'lhs', 'rhs', 'sub', 'block', 'finally', 'range', 'recv', 'fn'):
                if key in n and isinstance(n[key], dict):
                    walk_stmt(n[key], swallow)
            for key in ('c', 'args', 'dims'):
                for c in n.get(key, []) or []:
                    walk_stmt(c, swallow)
            for d in n.get('decls', []) or []:
                if isinstance(d, dict) and d.get('init') is not None:
                    walk_stmt(d['init'], swallow)

        walk_stmt(nbody, False)
        return guards, sites

    def early_returns(self, side, name):
        """{condition of an early value return (`if (c) return v;`): the set of parameter guards - the function's own and those of the
        propagating calls made before it - that have been passed when it is reached}.  A guard that the twin evaluates BEFORE the early
        return and this side only after it (or never on that path) makes the two sides disagree about errors on the early-return inputs."""
        f = self.lookup(side, name)
        if f is None:
            return {}
        self.local(side, f)
        order = list(self._order)
        binding = f.get('_binding') or {}
        before, out = set(), {}
        for ev in order:
            if ev[0] == 'guard':
                before.add(canon_guard(ev[1]))
            elif ev[0] == 'site':
                _, callee, args, prop = ev
                if not prop:
                    continue
                callee = binding.get(callee, callee)
                for g in self.gstar(side, callee, (name,)):
                    ok = True

                    def rep(m):
                        nonlocal ok
                        i = int(m.group(1))
                        if i >= len(args) or args[i] is None:
                            ok = False
                            return m.group(0)
                        return '\0' + args[i] + '\0'
                    g2 = re.sub(r'\bp(\d+)\b', rep, g)
                    if ok:
                        before.add(canon_guard(g2.replace('\0', '')))
            else:
                out[canon_guard(ev[1])] = {g for g in before if self.keep(g)}
        return out

    def branches(self, side, name):
        """conditions over the function's own parameters that select a NON-failing branch (e.g. `density <= 0` -> take the catalogue
        density), in the same canonical form as the guards; local to the function"""
        f = self.lookup(side, name)
        if f is None:
            return []
        self.local(side, f)
        return sorted(canon_guard(g) for g in self._branches)

    @staticmethod
    def _java_exit(th):
        body = th.get('c', []) if th.get('k') == 'CompoundStmt' else [th]
        return len(body) >= 1 and body[-1].get('k') == 'ThrowStmt' and all(s.get('k') in ('ThrowStmt',) for s in body)

    def lookup(self, side, name):
        if side == 'c':
            return self.C.funcs.get(name)
        J = self.J
        if '.' in name:
            fld, meth = name.split('.', 1)
            st = J.strategy(fld)
            if st:
                base, binding = st
                tm = [m for m in base['functions'] if m['name'] == meth and 'body' in m]
                if tm:
                    f = dict(tm[0])
                    f['_binding'] = binding
                    return f
            return None
        f = J.funcs.get(name)
        if f is not None:
            d = J.delegate(f)
            if d:
                # static f(obj, a, b) -> obj.f(a, b): parameters shift by one
                m = dict(d[1])
                m['_shift'] = 1
                m['_cls'] = d[0]
                m['params'] = [f['params'][0]] + list(m['params'])
                return m
        return f

    def gstar(self, side, name, stack=()):
        key = (side, name)
        if key in self.memo:
            return self.memo[key]
        f = self.lookup(side, name)
        if f is None or name in stack or len(stack) > 6:
            return set()
        guards, sites = self.local(side, f)
        out = {canon_guard(g) for g in guards}
        binding = f.get('_binding') or {}
        for callee, args, prop in sites:
            if not prop:
                continue
            callee = binding.get(callee, callee)
            if side == 'j' and callee.endswith('_catch') and callee in self.J.funcs and self.J.catch_adaptor(self.J.funcs[callee]):
                continue
            sub = self.gstar(side, callee, stack + (name,))
            for g in sub:
                ok = True

                def rep(m):
                    nonlocal ok
                    i = int(m.group(1))
                    if i >= len(args) or args[i] is None:
                        ok = False
                        return m.group(0)
                    return '\0' + args[i] + '\0'
                g2 = re.sub(r'\bp(\d+)\b', rep, g)
                if ok:
                    out.add(canon_guard(g2.replace('\0', '')))
        out = {g for g in out if self.keep(g)}
        if not stack:
            self.memo[key] = out
        return out

    def dstar(self, side, name, stack=()):
        """parameters (positions) on which the function, or a callee that receives them unchanged, dispatches by comparing
        them with named constants"""
        key = ('d', side, name)
        if key in self.memo:
            return self.memo[key]
        f = self.lookup(side, name)
        if f is None or name in stack or len(stack) > 6:
            return set()
        out = set(self._local_dispatch(side, f))
        _, sites = self.local(side, f)
        binding = f.get('_binding') or {}
        for callee, args, prop in sites:
            callee = binding.get(callee, callee)
            for j in self.dstar(side, callee, stack + (name,)):
                if j < len(args) and args[j] is not None and re.match(r'^p\d+$', args[j]):
                    out.add(int(args[j][1:]))
        if not stack:
            self.memo[key] = out
        return out

    def _local_dispatch(self, side, f):
        ps = self.params(side, f)
        out = set()
        for n in walk(f.get('body') or {}):
            if n.get('k') == 'SwitchStmt':
                c = strip_casts(n.get('cond') or {})
                if c.get('k') == 'DeclRefExpr' and c.get('name') in ps:
                    out.add(ps.index(c['name']))
            if n.get('k') == 'BinaryOperator' and n.get('op') == '==':
                a, b = (strip_casts(x) for x in n['c'])
                for x, y in ((a, b), (b, a)):
                    if x.get('k') == 'DeclRefExpr' and x.get('cls') == 'param' and x.get('name') in ps and \
                            (y.get('m') or (y.get('k') == 'DeclRefExpr' and y.get('cls') == 'global')):
                        out.add(ps.index(x['name']))
        return out

    def value(self, t):
        t = t.strip()
        if re.match(r'^-?\d+(/\d+)?$', t):
            return Fraction(t)
        if re.match(r'^\w+$', t):
            try:
                v = self.C.prog.macro_value(t)
                if v is not None:
                    return Fraction(v)
            except Exception:
                pass
            fl = self.J.consts.get(t)
            if fl and (fl.get('init') or {}).get('k') in ('IntegerLiteral',):
                return Fraction(fl['init']['val'])
            if fl and (fl.get('init') or {}).get('k') == 'UnaryOperator' and fl['init'].get('op') == '-' and fl['init']['c'][0].get('k') == 'IntegerLiteral':
                return -Fraction(fl['init']['c'][0]['val'])
        return None

    def keep(self, g):
        """a guard between two constants that can never fire is no guard"""
        if re.search(r'\bp\d+\b', g) or '[' in g or '(' in g:
            return True
        m = re.match(r'^(\S+) (<|<=|==|!=) (\S+)$', g)
        if not m:
            return True
        a, b = self.value(m.group(1)), self.value(m.group(3))
        if a is None or b is None:
            return True
        fires = {'<': a < b, '<=': a <= b, '==': a == b, '!=': a != b}[m.group(2)]
        return fires


def canon_guard(g):
    """C hands `table - 1` to the 1-based spline routines: (X-1)[k] is X[k-1]"""
    # a positive scale factor does not change the sign test: (X/1000) <= 0 is X <= 0
    g = re.sub(r'^\((\w+)/(\d+)\) (<=|<) 0$', r'\1 \3 0', g)
    prev = None
    while prev != g:
        prev = g
        m = re.search(r'\(([^()]*(?:\[[^\]]*\])*)-1\)\[', g)
        if not m:
            break
        # find the matching bracket of the subscript
        i = m.end()
        depth, j = 1, i
        while j < len(g) and depth:
            depth += g[j] == '['
            depth -= g[j] == ']'
            j += 1
        idx = g[i:j - 1]
        idx2 = str(int(idx) - 1) if re.match(r'^-?\d+$', idx) else '(%s-1)' % idx
        g = g[:m.start()] + m.group(1) + '[' + idx2 + ']' + g[j:]
    return g
