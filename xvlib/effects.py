"""E4 - call graph, global-write effects and who-may-call (C16, C17)."""
import re

from .facts import walk, show, strip_casts, calls_in
from . import inittab

LIB_EXCLUDE = ('src/pr_data.c', 'src/xrayfiles.c', 'src/xrayglob.c', 'src/xrf_cross_sections_aux-private.c')


def lib_functions(prog):
    out = {}
    for f in prog.src_funcs():
        if f['unit'] in LIB_EXCLUDE:
            continue
        out.setdefault(f['name'], f)
    return out


def global_names(prog):
    """All file-scope objects of the library (tables declared in xrayglob.h / defined in the generated unit, statics)."""
    g = {}
    for u in prog.units:
        if u['lang'] != 'c' or u['rel'] in ('src/pr_data.c', 'java/pr_data_java.c'):
            continue
        for v in u['globals']:
            g.setdefault(v['name'], []).append((u['rel'], v))
    return g


def call_graph(prog, funcs):
    """name -> set of callee names (direct calls; indirect calls through constant function tables are resolved through
    the table initialiser)."""
    cg = {}
    tables = {}
    for name, f in funcs.items():
        callees = set()
        for n in walk(f['body']):
            if n.get('k') != 'CallExpr':
                continue
            if n.get('callee'):
                callees.add(n['callee'])
                continue
            fn = n.get('fn') or {}
            base = fn
            while base.get('k') in ('ArraySubscriptExpr', 'UnaryOperator', 'ParenExpr') and base.get('c'):
                base = base['c'][0]
            if base.get('k') == 'DeclRefExpr' and base.get('cls') in ('global', 'slocal'):
                tn = base['name']
                if tn not in tables:
                    tables[tn] = None
                    for g in prog.globals_named(tn):
                        if 'init' in g and g['unit'] == f['unit']:
                            try:
                                v = inittab.evaluate(g['init'])
                                tables[tn] = [x.name for x in v if isinstance(x, inittab.Ref)]
                            except Exception:
                                pass
                if tables[tn]:
                    callees.update(tables[tn])
                else:
                    callees.add('<indirect:%s>' % tn)
            else:
                callees.add('<indirect>')
        cg[name] = callees
    return cg


def reachable(cg, start):
    seen = set()
    stack = [start]
    while stack:
        x = stack.pop()
        if x in seen:
            continue
        seen.add(x)
        for c in cg.get(x, ()):
            stack.append(c)
    return seen


def path_to(cg, start, target):
    """One call chain start -> ... -> target (for diagnostics)."""
    prev = {start: None}
    stack = [start]
    while stack:
        x = stack.pop(0)
        if x == target:
            break
        for c in sorted(cg.get(x, ())):
            if c not in prev:
                prev[c] = x
                stack.append(c)
    if target not in prev:
        return None
    chain = [target]
    while prev[chain[-1]] is not None:
        chain.append(prev[chain[-1]])
    return list(reversed(chain))


def lvalue_root(n):
    """Root declaration of an lvalue expression and whether a pointer was followed on the way."""
    deref = False
    n = strip_casts(n)
    while True:
        k = n.get('k')
        if k == 'DeclRefExpr':
            return n, deref
        if k == 'MemberExpr':
            if n.get('arrow'):
                deref = True
            if not n.get('c'):
                return None, deref
            n = strip_casts(n['c'][0])
        elif k == 'ArraySubscriptExpr':
            b = strip_casts(n['c'][0])
            # subscript on a pointer follows it; on an array it stays inside the object
            t = b.get('Ti') or b.get('T') or ''
            if '[' not in t and not (b.get('k') == 'DeclRefExpr' and b.get('dims')):
                deref = True
            n = b
        elif k == 'UnaryOperator' and n.get('op') == '*':
            deref = True
            n = strip_casts(n['c'][0])
        elif k == 'UnaryOperator' and n.get('op') == '&':
            n = strip_casts(n['c'][0])
        elif k == 'BinaryOperator' and n.get('op') in ('+', '-'):
            n = strip_casts(n['c'][0])
        elif k == 'ParenExpr':
            n = strip_casts(n['c'][0])
        else:
            return None, deref


def writes(f):
    """All syntactic writes of a function: (node, lhs expression, kind)."""
    out = []
    for n in walk(f['body']):
        k = n.get('k')
        if k in ('BinaryOperator', 'CompoundAssignOperator') and n.get('op') in ('=', '+=', '-=', '*=', '/=', '%=', '|=', '&=', '^=', '<<=', '>>='):
            out.append((n, n['c'][0], 'assign'))
        elif k == 'UnaryOperator' and n.get('op') in ('++', '--'):
            out.append((n, n['c'][0], 'incdec'))
        elif k == 'CallExpr' and n.get('callee') in ('memcpy', 'memmove', 'memset', 'strcpy', 'strncpy', 'strcat', 'strncat', 'sprintf',
                                                    'snprintf', 'vsnprintf', 'vsprintf', 'qsort') and n.get('args'):
            out.append((n, n['args'][0], 'libc:' + n['callee']))
        elif k == 'CallExpr' and n.get('callee') in ('sscanf', 'fscanf', 'scanf'):
            start = 1 if n['callee'] == 'scanf' else 2
            for a in n['args'][start:]:
                out.append((n, a, 'libc:' + n['callee']))
        elif k == 'CallExpr' and n.get('callee') in ('fgets', 'fread', 'getline') and n.get('args'):
            out.append((n, n['args'][0], 'libc:' + n['callee']))
    return out
