"""E1 - path-sensitive abstract interpretation over the structured statement tree of one function.

Domain per abstract path: (a) an environment mapping locals/parameters and written memory cells to *exact
rational normal forms* (E2) over symbols, (b) an interval/non-zero fact store keyed by normal forms, refined
on every branch edge, used to prune infeasible edges and to bound subscripts, (c) the ordered list of
calls and stores (events), (d) the branch history.  No solver, no concrete execution: a branch is pruned
only when the interval store refutes it; anything else forks.  Loops whose condition is decided by the
store at every iteration are unrolled exactly (counted loops over constant bounds, loops over constant
tables); other loops are over-approximated by 'zero or more iterations' with the written variables havocked.
The repository has no goto (checked at extraction: a GotoStmt makes the function inconclusive).
"""
from fractions import Fraction
import math
import re

from .facts import walk, show, strip_casts
from .normform import Rat, Poly, Normalizer, NotInClass, reduce_trig, INT_TYPES
from . import inittab


class Inconclusive(Exception):
    pass


class Interval:
    __slots__ = ('lo', 'hi', 'los', 'his', 'nz', 'ne')

    def __init__(self, lo=None, hi=None, los=False, his=False, nz=False, ne=()):
        self.lo, self.hi, self.los, self.his, self.nz = lo, hi, los, his, nz
        self.ne = tuple(ne)          # further single values known to be excluded (x != c with c != 0)

    def copy(self):
        return Interval(self.lo, self.hi, self.los, self.his, self.nz, self.ne)

    def empty(self):
        if self.lo is not None and self.hi is not None:
            if self.lo > self.hi:
                return True
            if self.lo == self.hi and (self.los or self.his or (self.nz and self.lo == 0) or self.lo in self.ne):
                return True
        return False

    def excludes_zero(self):
        if self.nz:
            return True
        if self.lo is not None and (self.lo > 0 or (self.lo == 0 and self.los)):
            return True
        if self.hi is not None and (self.hi < 0 or (self.hi == 0 and self.his)):
            return True
        return False

    def is_zero(self):
        return self.lo == 0 and self.hi == 0 and not self.los and not self.his

    def __repr__(self):
        return '%s%s, %s%s%s' % ('(' if self.los else '[', self.lo, self.hi, ')' if self.his else ']', ' nz' if self.nz else '')


class Event:
    __slots__ = ('kind', 'name', 'args', 'node', 'id', 'result', 'lv', 'value', 'loop', 'argnodes')

    def __init__(self, kind, **kw):
        self.kind = kind
        self.name = kw.get('name')
        self.args = kw.get('args')
        self.node = kw.get('node')
        self.id = kw.get('id')
        self.result = kw.get('result')
        self.lv = kw.get('lv')
        self.value = kw.get('value')
        self.loop = kw.get('loop', 0)
        self.argnodes = kw.get('argnodes')

    def __repr__(self):
        if self.kind == 'call':
            return 'call %s(%s)' % (self.name, ', '.join(a.canon() if a is not None else '?' for a in self.args))
        if self.kind in ('iter-end', 'loop-begin', 'loop-end'):
            return '%s L%s' % (self.kind, self.id)
        if self.kind == 'store' and not hasattr(self.value, 'canon'):
            return 'store %s' % self.lv
        return '%s %s = %s' % (self.kind, self.lv, self.value.canon() if self.value is not None else '?')


class State:
    __slots__ = ('env', 'mem', 'facts', 'events', 'conds', 'status', 'ret', 'ret_node', 'loopdepth', 'notes', 'forall')

    def __init__(self):
        self.env = {}
        self.mem = {}
        self.facts = {}
        self.events = []
        self.conds = []
        self.status = 'run'
        self.ret = None
        self.ret_node = None
        self.loopdepth = 0
        self.notes = []
        self.forall = []

    def fork(self):
        s = State()
        s.env = dict(self.env)
        s.mem = dict(self.mem)
        s.facts = {k: v.copy() for k, v in self.facts.items()}
        s.events = list(self.events)
        s.conds = list(self.conds)
        s.status = self.status
        s.ret = self.ret
        s.ret_node = self.ret_node
        s.loopdepth = self.loopdepth
        s.notes = list(self.notes)
        s.forall = list(self.forall)
        return s


def _breaks_loop(node):
    """A `break` that leaves *this* loop (breaks inside nested switches / loops do not count)."""
    if not isinstance(node, dict):
        return False
    k = node.get('k')
    if k == 'BreakStmt':
        return True
    if k in ('SwitchStmt', 'ForStmt', 'WhileStmt', 'DoStmt'):
        return False
    from .facts import children
    return any(_breaks_loop(c) for c in children(node))


class _FakeState:
    def __init__(self, facts):
        self.facts = facts


_NAMED = None


def rule_named_functions():
    """identifiers that the rule modules mention: a static function whose name occurs there is analysed as a function of its own (its
    calls stay opaque symbols that the rules read); every other static helper is transparent and is inlined at its call sites, so that
    extracting a few lines into a helper - or inlining one - does not change what the rules see"""
    global _NAMED
    if _NAMED is None:
        import glob
        import os
        here = os.path.dirname(os.path.dirname(os.path.abspath(__file__)))
        txt = ''
        for fn in glob.glob(os.path.join(here, 'rules', '*.py')) + glob.glob(os.path.join(here, 'xvlib', '*.py')):
            try:
                txt += open(fn).read()
            except OSError:
                pass
        _NAMED = set(re.findall(r'[A-Za-z_]\w+', txt))
    return _NAMED


def _postfix_chain(txt):
    """the text is one object designator - a name followed by subscripts, member selections, call arguments - so that selecting a
    member of it needs no parentheses: an alias `at = atom[i]` makes at.x the cell atom[i].x"""
    if not re.match(r'^[A-Za-z_]', txt):
        return False
    depth = 0
    for ch in txt:
        if ch in '([':
            depth += 1
        elif ch in ')]':
            depth -= 1
            if depth < 0:
                return False
        elif depth == 0 and not (ch.isalnum() or ch in '_.@#'):
            return False
    return depth == 0


def _designator(txt):
    """a table designator: a file-scope name followed by subscripts and member selections only (RadRate_arr[Z], a.b[i].c) - no calls,
    no operators: an alias `row = RadRate_arr[Z]` makes row[k] the cell RadRate_arr[Z][k]"""
    if not re.match(r'^[A-Za-z_]\w*[\[.]', txt):
        return False
    depth = 0
    for ch in txt:
        if ch == '[':
            depth += 1
        elif ch == ']':
            depth -= 1
            if depth < 0:
                return False
        elif ch in '()#&*':
            return False
        elif depth == 0 and not (ch.isalnum() or ch in '_.@'):
            return False
    return depth == 0


def unparen(txt):
    """(atom[i]).x -> atom[i].x, (f_re)[Z] -> f_re[Z]: parentheses that the engine puts round the value of an alias before it
    selects a member or an element of it"""
    out, i = '', 0
    while i < len(txt):
        ch = txt[i]
        if ch == '(' and (i == 0 or not (txt[i - 1].isalnum() or txt[i - 1] in '_)]')):
            depth, j = 0, i
            while j < len(txt):
                depth += txt[j] in '(['
                depth -= txt[j] in ')]'
                if depth == 0:
                    break
                j += 1
            inner = txt[i + 1:j]
            if j + 1 < len(txt) and txt[j + 1] in '.[' and _postfix_chain(inner):
                out += unparen(inner)
                i = j + 1
                continue
        out += ch
        i += 1
    return out


PURE_LIBM = {'sin', 'cos', 'tan', 'exp', 'log', 'sqrt', 'pow', 'fabs', 'asin', 'acos', 'atan', 'atan2', 'floor', 'ceil',
             'log10', 'sinh', 'cosh', 'fmax', 'fmin', 'abs'}
ALLOCATORS = {'malloc', 'calloc', 'realloc', 'strdup', 'xrl_strdup', 'xrl_strndup', 'strndup', 'fopen'}


class Interp:
    def __init__(self, prog, func, max_paths=20000, unroll=1200, const_tables=True, call_model=None, on_subscript=None,
                 on_deref=None, pure_pred=None, on_math=None, on_div=None, call_ranges=None):
        self.prog = prog
        self.func = func
        self.max_paths = max_paths
        self.unroll = unroll
        self.counter = 0
        self.call_model = call_model
        self.on_subscript = on_subscript
        self._inline_depth = 0
        self.const_globals = None
        self._inl_cache = {}
        self.on_deref = on_deref
        self.pure_pred = pure_pred
        self.on_math = on_math
        self.on_div = on_div
        self.const_tables = const_tables
        self.loop_fork_limit = 48
        self.fabs_args = {}
        # recorded assumptions about data handed out by the compound constructors (A1, A2 in DESIGN.md appendix B)
        self.assume_patterns = [(re.compile(r'\.massFractions\)\[[^\]]*\]$'), Interval(Fraction(0), None, True, False)),
                                (re.compile(r'\.nElements$'), Interval(Fraction(1), None)),
                                # A5: atom counts delivered by a successful CompoundParserSimple(.., &ca, ..) are positive
                                # (every contribution is a non-zero subscript of digits, or a product of such: rules/c07.py)
                                (re.compile(r'^\w+@\d+\.singleElements\[[^\]]*\]\.nAtoms$'), Interval(Fraction(0), None, True, False))]
        self.keep_macros = False     # True: literals that come from a numeric macro stay symbolic (PI, RE2, ...)
        self.call_ranges = dict(call_ranges or {})    # function name -> Interval of everything it can return (supplied by the rule, from data)
        self.types = {}          # canonical symbol -> C type (for integer reasoning)
        self.var_types = {}
        self.addr_taken = set()
        for n in walk(func.get('body') or {}):
            if n.get('k') == 'GotoStmt':
                raise Inconclusive('goto in %s' % func['name'])
            if n.get('k') == 'UnaryOperator' and n.get('op') == '&':
                t = n['c'][0]
                if t.get('k') == 'DeclRefExpr':
                    self.addr_taken.add(t['id'])
        self._tables = {}
        self._discovering = 0
        # `x = c ? a : b`, `T x = c ? a : b` and `return c ? a : b` are executed as branches (path-sensitive), not as an
        # opaque conditional value
        if func.get('body') is not None and any(n.get('k') == 'ConditionalOperator' for n in walk(func['body'])):
            func = dict(func)
            func['body'] = lower_conditionals(func['body'])
            self.func = func
        self._mono_found = {}
        self._compound_atoms_vars = set()
        for p in func.get('params', []):
            if 'compoundAtoms' in (p.get('T') or ''):
                self._compound_atoms_vars.add(p['name'])
        for n in walk(func.get('body') or {}):
            if n.get('k') == 'DeclStmt':
                for d in n.get('decls', []):
                    if 'compoundAtoms' in (d.get('T') or ''):
                        self._compound_atoms_vars.add(d['name'])

    # ----------------------------------------------------------------------------------- entry
    def run(self):
        st = State()
        for p in self.func['params']:
            st.env[p['id']] = Rat.sym(p['name'])
            self.types[p['name']] = p['T']
        # a static function is only entered through its call sites in the same unit: a parameter that receives an integer
        # constant at every site is known to lie in the hull of those constants
        if self.func.get('static') and self.func.get('params'):
            hull = self._static_param_hulls()
            for i, p in enumerate(self.func['params']):
                if i in hull:
                    lo, hi = hull[i]
                    st.facts[p['name']] = Interval(Fraction(lo), Fraction(hi))
        body = self.func.get('body')
        if not body:
            return []
        out = self.exec_stmt(body, [st])
        for s in out:
            if s.status == 'run':
                s.status = 'end'
        return out

    def _static_param_hulls(self):
        name, unit = self.func['name'], self.func.get('unit')
        vals = {}
        sites = 0
        try:
            funcs = [g for g in self.prog.src_funcs() if g.get('unit') == unit]
        except Exception:
            return {}
        for g in funcs:
            for n in walk(g.get('body') or {}):
                if n.get('k') == 'CallExpr' and n.get('callee') == name:
                    sites += 1
                    for i, a in enumerate(n.get('args', [])):
                        v = strip_casts(a).get('v')
                        vals.setdefault(i, []).append(v if isinstance(v, int) else None)
                # the address of the function escaping (table of function pointers) means unknown callers
                if n.get('k') == 'DeclRefExpr' and n.get('name') == name and n.get('cls') == 'func' and not n.get('_callee'):
                    pass
        if not sites:
            return {}
        for gv in self.prog.units:
            pass
        out = {}
        for i, vs in vals.items():
            if len(vs) == sites and all(v is not None for v in vs):
                out[i] = (min(vs), max(vs))
        # if the function is referenced other than as a callee (stored in a table), nothing is known
        refs = 0
        for g in funcs:
            for n in walk(g.get('body') or {}):
                if n.get('k') == 'DeclRefExpr' and n.get('name') == name:
                    refs += 1
        for u in self.prog.units:
            if u.get('rel') == unit:
                for gl in u.get('globals', []):
                    if 'init' in gl and any(x.get('k') == 'DeclRefExpr' and x.get('name') == name for x in walk(gl['init'])):
                        return {}
        return out

    def fresh(self, base):
        self.counter += 1
        return '%s@%d' % (base, self.counter)

    # ----------------------------------------------------------------------------------- facts
    def _key_of(self, d):
        """d (Rat) -> (key, scale_sign, offset) such that d = sign*(key_expr) ... returns (key, a, b) with d = a*key + b
        when d is affine in a single symbol; otherwise (canon(d'), s, 0) with d = s*d', s = +-1."""
        n = reduce_trig(d.n)
        den = reduce_trig(d.d)
        if den.is_const() and not den.is_zero():
            c = den.const_value()
            mons = {k: v / c for k, v in n.t.items()}
            nonconst = [(k, v) for k, v in mons.items() if k != ()]
            if len(nonconst) == 1 and len(nonconst[0][0]) == 1 and nonconst[0][0][0][1] == 1:
                sym = nonconst[0][0][0][0]
                return sym, nonconst[0][1], mons.get((), Fraction(0))
            if not nonconst:
                return None, Fraction(0), mons.get((), Fraction(0))
            # general polynomial: normalise sign by first monomial
            first = sorted(nonconst, key=lambda kv: str(kv[0]))[0][1]
            s = 1 if first > 0 else -1
            a = abs(first)
            p = Poly({k: v / (s * a) for k, v in mons.items() if k != ()})
            return repr(p), s * a, mons.get((), Fraction(0))
        # rational function N/D: split off the constant c with N = c*D + R, R free of D's leading monomial, so that
        # (N/D), (N/D) + 1 and (N/D) - 1 share one key
        if den.t:
            dm, dc = sorted(den.t.items(), key=lambda kv: str(kv[0]))[0]
            cpart = n.t.get(dm)
            if cpart is not None:
                c = cpart / dc
                rest = n - Poly({k: v * c for k, v in den.t.items()})
                if not rest.is_zero():
                    return Rat(rest, den).canon(), Fraction(1), c
        key = d.canon()
        return key, Fraction(1), Fraction(0)

    def interval_of(self, d, st):
        """Interval known for Rat d under st.facts."""
        key, a, b = self._key_of(d)
        if key is None:
            return Interval(b, b)
        iv = st.facts.get(key)
        base = self._builtin_interval(key)
        if iv is None:
            iv = base
        elif base is not None:
            iv = self._meet(iv, base)
        if iv is None or (iv.lo is None and iv.hi is None and not iv.nz):
            ev = self._interval_eval(d, st)
            if ev is not None:
                if iv is not None and iv.nz:
                    ev.nz = True
                return ev
            if iv is None:
                return Interval()
        lo, hi, los, his = iv.lo, iv.hi, iv.los, iv.his
        if a > 0:
            nlo = None if lo is None else a * lo + b
            nhi = None if hi is None else a * hi + b
            r = Interval(nlo, nhi, los, his)
        else:
            nlo = None if hi is None else a * hi + b
            nhi = None if lo is None else a * lo + b
            r = Interval(nlo, nhi, his, los)
        if iv.nz and b == 0:
            r.nz = True
        return r

    # ---- interval arithmetic over the polynomial structure (used when no fact is stored for the whole expression)
    def _sym_interval(self, sym, st):
        iv = st.facts.get(sym)
        base = self._builtin_interval(sym)
        if iv is None:
            return base.copy() if base else Interval()
        return self._meet(iv, base) if base else iv

    @staticmethod
    def _imul(x, y):
        """Product of two intervals (None = unbounded); strictness is kept only for sign information."""
        def sgn(iv):
            pos = iv.lo is not None and (iv.lo > 0 or (iv.lo == 0 and iv.los))
            nonneg = iv.lo is not None and iv.lo >= 0
            neg = iv.hi is not None and (iv.hi < 0 or (iv.hi == 0 and iv.his))
            nonpos = iv.hi is not None and iv.hi <= 0
            return pos, nonneg, neg, nonpos
        cands = []
        unb = False
        for a in (x.lo, x.hi):
            for b in (y.lo, y.hi):
                if a is None or b is None:
                    unb = True
                else:
                    cands.append(a * b)
        r = Interval()
        if not unb and cands:
            r.lo, r.hi = min(cands), max(cands)
        else:
            px, nnx, ngx, npx = sgn(x)
            py, nny, ngy, npy = sgn(y)
            if (nnx and nny) or (npx and npy):
                lo = None
                if x.lo is not None and y.lo is not None and nnx and nny:
                    lo = x.lo * y.lo
                elif x.hi is not None and y.hi is not None and npx and npy:
                    lo = x.hi * y.hi
                r.lo = lo if lo is not None else Fraction(0)
            elif (nnx and npy) or (npx and nny):
                r.hi = Fraction(0)
        zx, zy = x.excludes_zero(), y.excludes_zero()
        if zx and zy:
            r.nz = True
            if r.lo == 0:
                r.los = True
            if r.hi == 0:
                r.his = True
        return r

    @staticmethod
    def _iadd(x, y):
        r = Interval()
        if x.lo is not None and y.lo is not None:
            r.lo = x.lo + y.lo
            r.los = x.los or y.los
        if x.hi is not None and y.hi is not None:
            r.hi = x.hi + y.hi
            r.his = x.his or y.his
        return r

    def _poly_interval(self, p, st):
        total = Interval(Fraction(0), Fraction(0))
        for mon, co in p.t.items():
            m = Interval(co, co)
            for sym, pw in mon:
                iv = self._sym_interval(sym, st)
                if pw % 2 == 0:
                    # even power: non-negative, positive if the base excludes zero
                    base = self._imul(iv, iv)
                    if base.lo is None or base.lo < 0:
                        base.lo, base.los = Fraction(0), False
                    if iv.excludes_zero():
                        base.nz = True
                        if base.lo == 0:
                            base.los = True
                    acc = base
                    for _ in range(pw // 2 - 1):
                        acc = self._imul(acc, base)
                    m = self._imul(m, acc)
                else:
                    acc = iv
                    for _ in range(pw - 1):
                        acc = self._imul(acc, iv)
                    m = self._imul(m, acc)
            total = self._iadd(total, m) if len(p.t) > 1 or True else m
        if len(p.t) == 1:
            # single monomial keeps the non-zero flag
            mon, co = list(p.t.items())[0]
            if all(self._sym_interval(sym, st).excludes_zero() for sym, pw in mon) and co != 0:
                total.nz = True
                if total.lo == 0:
                    total.los = True
                if total.hi == 0:
                    total.his = True
        return total

    def _interval_eval(self, d, st):
        try:
            n = self._poly_interval(reduce_trig(d.n), st)
            den = reduce_trig(d.d)
            if den.is_const():
                c = den.const_value()
                if c == 0:
                    return None
                return self._imul(n, Interval(1 / c, 1 / c))
            dv = self._poly_interval(den, st)
            if not dv.excludes_zero():
                return None
            # reciprocal of an interval of one sign
            inv = Interval()
            if dv.lo is not None and dv.lo >= 0:
                inv.lo = (1 / dv.hi) if dv.hi not in (None, 0) else Fraction(0)
                inv.los = dv.hi is None
                inv.hi = (1 / dv.lo) if dv.lo not in (None, 0) else None
            elif dv.hi is not None and dv.hi <= 0:
                inv.hi = (1 / dv.lo) if dv.lo not in (None, 0) else Fraction(0)
                inv.his = dv.lo is None
                inv.lo = (1 / dv.hi) if dv.hi not in (None, 0) else None
            else:
                return None
            inv.nz = True
            return self._imul(n, inv)
        except (ZeroDivisionError, TypeError):
            return None

    def is_zero(self, d, st):
        """d is literally 0, or the fact store pins it to 0 on this path (e.g. `if (rv == 0.0) return rv;`)."""
        if d is None:
            return False
        if d.is_zero():
            return True
        return self.interval_of(d, st).is_zero()

    @staticmethod
    def _meet(x, y):
        r = x.copy()
        if y.lo is not None and (r.lo is None or y.lo > r.lo or (y.lo == r.lo and y.los)):
            r.lo, r.los = y.lo, y.los
        if y.hi is not None and (r.hi is None or y.hi < r.hi or (y.hi == r.hi and y.his)):
            r.hi, r.his = y.hi, y.his
        r.nz = x.nz or y.nz
        r.ne = tuple(sorted(set(x.ne) | set(y.ne)))[:16]
        return r

    @staticmethod
    def _single_call(key, name):
        """key is exactly one call `name(...)` (not a product or power that merely starts with it)."""
        if not key.startswith(name + '('):
            return False
        depth = 0
        for i, ch in enumerate(key):
            if ch == '(':
                depth += 1
            elif ch == ')':
                depth -= 1
                if depth == 0:
                    return i == len(key) - 1
        return False

    def _builtin_interval(self, key):
        if self._single_call(key, 'cos') or self._single_call(key, 'sin'):
            return Interval(Fraction(-1), Fraction(1))
        if self._single_call(key, 'exp'):
            return Interval(Fraction(0), None, True, False)
        if self._single_call(key, 'sqrt') or self._single_call(key, 'fabs'):
            return Interval(Fraction(0), None)
        if self._single_call(key, 'sizeof'):
            return Interval(Fraction(1), None)
        if self._single_call(key, 'strlen'):
            return Interval(Fraction(0), None)
        if key.startswith('"') and key.endswith('"') and key.count('"') == 2:
            iv_ = Interval(Fraction(1), None)      # the address of a string literal is not null
            iv_.nz = True
            return iv_
        # A6: representation invariant of Crystal_Array, 0 <= n_crystal <= n_alloc, proved to be preserved by every
        # operation in rules/c14.py and therefore available on entry of every function that receives an array
        m6 = re.match(r'^(.+)\.n_alloc \+ -1\*(.+)\.n_crystal$', key)
        if m6 and m6.group(1) == m6.group(2):
            return Interval(Fraction(0), None)
        if re.match(r'^.+\.n_crystal$', key) and '@' not in key:
            return Interval(Fraction(0), None)
        if self.call_ranges:
            m = re.match(r'^(\w+)(#\d+)?\(', key)
            if m and m.group(1) in self.call_ranges and self._single_call(key, m.group(1) + (m.group(2) or '')):
                return self.call_ranges[m.group(1)]
        for rx, iv in self.assume_patterns:
            if rx.search(key):
                # A1/A2 speak about struct compoundData handed out by the compound constructors, not about the parser's
                # internal struct compoundAtoms (which does start empty)
                if self.types.get(key + '\0rec') == 'compoundAtoms' or key.split('.')[0] in self._compound_atoms_vars:
                    continue
                return iv
        return None

    def assume(self, st, d, op, is_int=False):
        """Assume d op 0, and for a pure product a*b*... compared with 0 also what follows for the factors."""
        if not self._assume1(st, d, op, is_int):
            return False
        # |x| <= c  =>  -c <= x <= c
        key, a_, b_ = self._key_of(d)
        if key is not None and key in self.fabs_args:
            iv = st.facts.get(key)
            if iv is not None and iv.hi is not None:
                x = self.fabs_args[key]
                if not self._assume1(st, x - Rat.const(iv.hi), '<' if iv.his else '<=', False):
                    return False
                if not self._assume1(st, x + Rat.const(iv.hi), '>' if iv.his else '>=', False):
                    return False
        n = reduce_trig(d.n)
        if len(n.t) == 1 and () not in n.t and op in ('==', '!=', '<', '>'):
            mon = list(n.t.keys())[0]
            factors = [Rat.sym(s_) for s_, pw in mon]
            den = reduce_trig(d.d)
            if not den.is_const():
                if len(den.t) != 1:
                    return True
                # a quotient: the numerator decides zero-ness (denominator assumed non-zero where the code divides)
            if len(factors) >= 2 or not den.is_const():
                if op in ('!=', '<', '>'):
                    for f_ in factors:
                        if not self._assume1(st, f_, '!=', False):
                            return False
                else:
                    unknown = [f_ for f_ in factors if not self.interval_of(f_, st).excludes_zero()]
                    if not unknown:
                        return False
                    if len(unknown) == 1:
                        if not self._assume1(st, unknown[0], '==', False):
                            return False
        return True

    def _assume1(self, st, d, op, is_int=False):
        """Assume  d op 0.  Returns False if refuted by the fact store, True otherwise (store refined)."""
        key, a, b = self._key_of(d)
        if key is None:
            v = b
            return {'<': v < 0, '<=': v <= 0, '>': v > 0, '>=': v >= 0, '==': v == 0, '!=': v != 0}[op]
        # d = a*K + b  op 0   =>  K op' (-b/a)
        bound = -b / a
        if a < 0:
            op = {'<': '>', '<=': '>=', '>': '<', '>=': '<=', '==': '==', '!=': '!='}[op]
        iv = st.facts.get(key)
        base = self._builtin_interval(key)
        if iv is None:
            iv = base.copy() if base else Interval()
        else:
            iv = iv.copy()
            if base:
                iv = self._meet(iv, base)
        integer = is_int or self._is_int_key(key)
        if integer and op in ('<', '>'):
            if op == '<':
                bound = Fraction(math.ceil(bound) - 1)
                op = '<='
            else:
                bound = Fraction(math.floor(bound) + 1)
                op = '>='
        if integer and op == '<=':
            bound = Fraction(math.floor(bound))
        if integer and op == '>=':
            bound = Fraction(math.ceil(bound))
        if op in ('<', '<='):
            strict = op == '<'
            if iv.hi is None or bound < iv.hi or (bound == iv.hi and strict and not iv.his):
                iv.hi, iv.his = bound, strict
        elif op in ('>', '>='):
            strict = op == '>'
            if iv.lo is None or bound > iv.lo or (bound == iv.lo and strict and not iv.los):
                iv.lo, iv.los = bound, strict
        elif op == '==':
            if integer and bound.denominator != 1:
                return False
            if iv.lo is None or bound > iv.lo:
                iv.lo, iv.los = bound, False
            elif bound == iv.lo and iv.los:
                return False
            if iv.hi is None or bound < iv.hi:
                iv.hi, iv.his = bound, False
            elif bound == iv.hi and iv.his:
                return False
            if iv.nz and bound == 0:
                return False
            if bound in iv.ne:
                return False
        elif op == '!=':
            if iv.lo == bound and iv.hi == bound and not iv.los and not iv.his:
                return False
            if bound == 0:
                iv.nz = True
            else:
                if bound not in iv.ne and len(iv.ne) < 16:
                    iv.ne = iv.ne + (bound,)
                if iv.lo == bound and not iv.los:
                    if integer:
                        iv.lo = bound + 1
                    else:
                        iv.los = True
                if iv.hi == bound and not iv.his:
                    if integer:
                        iv.hi = bound - 1
                    else:
                        iv.his = True
        if iv.empty():
            return False
        st.facts[key] = iv
        return True

    def _is_int_key(self, key):
        t = self.types.get(key)
        if t is None and '@' in key:
            t = self.types.get(key.split('@')[0])
        return t in INT_TYPES or (t is not None and (t.startswith('enum') or t == 'xrl_error_code'))

    # ----------------------------------------------------------------------------------- expressions
    def const_table_read(self, node, st):
        """lb_pairs[3].line, jumpers[shell] with constant index into a const-initialised table -> value."""
        if not self.const_tables:
            return None
        fld = None
        n = node
        if n.get('k') == 'MemberExpr' and not n.get('arrow') and n.get('c'):
            fld = n['field']
            fidx = n.get('fidx')
            n = n['c'][0]
        else:
            fidx = None
        if n.get('k') != 'ArraySubscriptExpr':
            return None
        base, idx = n['c'][0], n['c'][1]
        if base.get('k') != 'DeclRefExpr' or base.get('cls') not in ('global', 'slocal'):
            return None
        g = self._table(base['name'])
        if g is None:
            return None
        try:
            iv = self.eval(idx, st)
        except NotInClass:
            return None
        n_ = reduce_trig(iv.n)
        if not (iv.d.is_const() and n_.is_const()):
            return None
        i = n_.const_value() / iv.d.const_value()
        if i.denominator != 1 or not (0 <= i < len(g['value'])):
            return None
        v = g['value'][int(i)]
        if fld is not None:
            if not isinstance(v, list) or fidx is None or not (0 <= fidx < len(v)):
                return None
            v = v[fidx]
        if isinstance(v, (int, Fraction)):
            return Rat.const(v)
        if isinstance(v, inittab.Ref):
            return Rat.sym(v.name)
        return None

    def _table(self, name):
        if name in self._tables:
            return self._tables[name]
        r = None
        for g in self.prog.globals_named(name):
            if g.get('is_def') and 'init' in g and (g.get('const') or g.get('static')) and g['unit'] == self.func['unit']:
                # a static table is constant only if no function of the unit writes it
                if g.get('const') or not self._written(name):
                    try:
                        val = inittab.evaluate(g['init'])
                    except Exception:
                        val = None
                    if isinstance(val, list):
                        r = {'value': val, 'fields': self._anon_fields(g)}
                break
        self._tables[name] = r
        return r

    def _anon_fields(self, g):
        # anonymous struct element type: "struct (unnamed struct at ...)[13]" -> find record by location is not
        # possible; use field names from the first MemberExpr on this table in the function instead
        names = []
        for n in walk(self.func['body']):
            if n.get('k') == 'MemberExpr' and n.get('c') and n['c'][0].get('k') == 'ArraySubscriptExpr' and \
                    n['c'][0]['c'][0].get('name') == g['name']:
                try:
                    r = self.prog.record(n.get('rec')) if n.get('rec') else None
                except Exception:
                    r = None
                if r:
                    return [f['name'] for f in r['fields']]
        return None

    def _written(self, name):
        u = self.prog.unit(self.func['unit'])
        for f in u['functions']:
            for n in walk(f['body']):
                if n.get('k') in ('BinaryOperator', 'CompoundAssignOperator') and n.get('op', '').endswith('=') and \
                        n['op'] not in ('==', '!=', '<=', '>='):
                    lhs = n['c'][0]
                    for x in walk(lhs):
                        if x.get('k') == 'DeclRefExpr' and x.get('name') == name:
                            return True
                if n.get('k') == 'UnaryOperator' and n.get('op') in ('++', '--'):
                    for x in walk(n['c'][0]):
                        if x.get('k') == 'DeclRefExpr' and x.get('name') == name:
                            return True
        return False

    def lvalue_key(self, node, st):
        """Canonical text of a memory cell, with locals replaced by their current values."""
        k = node.get('k')
        c = node.get('c', [])
        if k == 'DeclRefExpr':
            if node.get('cls') in ('local', 'param') and node['id'] in st.env and node['id'] not in self.addr_taken \
                    and not node.get('dims'):
                cv = st.env[node['id']].canon()
                # an alias of a plain object name (cc = crystal) is that name: no parentheses, so that cc->a and crystal->a are one cell
                return cv if (cv == node['name'] or re.match(r'^[A-Za-z_]\w*$', cv) or _designator(cv)) else '(' + cv + ')'
            if node.get('cls') == 'local' and (node.get('dims') or ('\0ver:' + node['name']) in st.mem):
                ver = st.mem.get('\0ver:' + node['name'])
                if ver is not None:
                    return '%s@%s' % (node['name'], ver.canon())     # contents as left by the call that last wrote the array
            return node['name']
        if k == 'MemberExpr':
            base = self.lvalue_key(c[0], st) if c else 'this'
            if node.get('arrow') and base.startswith('(&') and base.endswith(')'):
                # p->f with p == &X is X.f: a local pointer that names an object is transparent
                inner, depth, ok = base[2:-1], 0, True
                for ch in inner:
                    depth += ch in '([' 
                    depth -= ch in ')]'
                    if depth < 0:
                        ok = False
                        break
                if ok and depth == 0 and inner.endswith(']'):      # the address of an array element (p = &a[i]; p->f is a[i].f)
                    base = inner
            if base == getattr(self, 'receiver', None):
                return node['field']        # the record that the twin method reads as `this`
            return '%s.%s' % (base, node['field'])
        if k == 'ArraySubscriptExpr':
            try:
                i = self.eval(c[1], st).canon()
            except NotInClass:
                i = show(c[1])
            return '%s[%s]' % (self.lvalue_key(c[0], st), i)
        if k == 'UnaryOperator' and node['op'] == '*':
            return '*' + self.lvalue_key(c[0], st)
        if k == 'UnaryOperator' and node['op'] == '&':
            return '&' + self.lvalue_key(c[0], st)
        if k in ('CStyleCastExpr', 'ParenExpr'):
            return self.lvalue_key(c[0], st)
        try:
            return '(' + self.eval(node, st).canon() + ')'
        except NotInClass:
            return show(node)

    def eval(self, node, st):
        r = self._eval(node, st)
        # implicit floating -> integer conversion (the extractor strips ImplicitCastExpr but keeps the outer type T and the inner type
        # Ti): the value is truncated, e.g. abs(x) with the integer abs, or `int n = d`
        if node.get('Ti') in ('double', 'float', 'long double') and node.get('T') in INT_TYPES and node.get('k') not in (
                'CStyleCastExpr', 'IntegerLiteral'):
            n_ = reduce_trig(r.n)
            if r.d.is_const() and n_.is_const():
                return Rat.const(int(n_.const_value() / r.d.const_value()))
            s = '(int)(%s)' % r.canon()
            self.types[s] = 'int'
            return Rat.sym(s)
        return r

    def _eval(self, node, st):
        k = node.get('k')
        c = node.get('c', [])
        if k == 'ParenExpr' and c:          # only the Java dump keeps parentheses
            return self.eval(c[0], st)
        if 'v' in node and k in ('BinaryOperator', 'UnaryOperator', 'ConditionalOperator') and node.get('op') not in ('=', '++', '--'):
            return Rat.const(node['v'])     # integer constant expression folded by clang
        if k == 'DeclRefExpr':
            if node.get('cls') == 'enumc' and 'v' in node:
                return Rat.const(node['v'])
            if node.get('cls') in ('local', 'param', 'slocal'):
                self.types.setdefault(node['name'], node.get('dT'))
                if node['id'] in st.env:
                    return st.env[node['id']]
                return Rat.sym(node['name'])
            self.types.setdefault(node['name'], node.get('dT'))
            key = node['name']
            if key in st.mem:
                return st.mem[key]
            if self.const_globals and key in self.const_globals:
                return Rat.const(self.const_globals[key])      # Java: static final int constants (the C side gets them folded by clang)
            return Rat.sym(key)
        if k in ('IntegerLiteral', 'FloatingLiteral', 'CharacterLiteral'):
            if k == 'CharacterLiteral':
                return Rat.const(node['val'])
            return Normalizer(self.prog, keep_macros=self.keep_macros).to_rat(node)
        if k == 'StringLiteral':
            return Rat.sym('"%s"' % node.get('val'))
        if k in ('CStyleCastExpr', 'CXXStaticCastExpr', 'CXXFunctionalCastExpr', 'CXXReinterpretCastExpr'):
            sub = self.eval(c[0], st)
            toT = node.get('toT', '')
            if toT in INT_TYPES and c[0].get('T') not in INT_TYPES and '*' not in (c[0].get('T') or ''):
                n_ = reduce_trig(sub.n)
                if sub.d.is_const() and n_.is_const():
                    v = n_.const_value() / sub.d.const_value()
                    return Rat.const(int(v))
                s = '(int)(%s)' % sub.canon()
                self.types[s] = 'int'
                return Rat.sym(s)
            return sub
        if k == 'UnaryOperator':
            op = node['op']
            if op == '-':
                return -self.eval(c[0], st)
            if op == '+':
                return self.eval(c[0], st)
            if op == '!':
                t, f = self.branch(c[0], [st.fork()])
                if t and not f:
                    return Rat.const(0)
                if f and not t:
                    return Rat.const(1)
                return Rat.sym('!(%s)' % self.eval(c[0], st).canon())
            if op in ('++', '--'):
                old = self.eval(c[0], st)
                new = old + Rat.const(1 if op == '++' else -1)
                self.assign(c[0], new, st, node)
                return old if node.get('post') else new
            if op == '*':
                if self.on_deref:
                    self.on_deref(node, c[0], st, self)
                key = self.lvalue_key(node, st)
                if key in st.mem:
                    return st.mem[key]
                self.types.setdefault(key, node.get('T'))
                return Rat.sym(key)
            if op == '&':
                return Rat.sym('&' + self.lvalue_key(c[0], st))
            if op == '~':
                return Rat.sym('~(%s)' % self.eval(c[0], st).canon())
            raise NotInClass('unary ' + op)
        if k in ('BinaryOperator', 'CompoundAssignOperator'):
            op = node['op']
            if op == '=':
                v = self.eval(c[1], st)
                self.assign(c[0], v, st, node)
                return v
            if op in ('+=', '-=', '*=', '/='):
                a = self.eval(c[0], st)
                b = self.eval(c[1], st)
                v = self._arith(op[0], a, b, node, st)
                self.assign(c[0], v, st, node)
                return v
            if op in ('+', '-', '*', '/'):
                a = self.eval(c[0], st)
                b = self.eval(c[1], st)
                return self._arith(op, a, b, node, st)
            if op == '%':
                a = self.eval(c[0], st)
                b = self.eval(c[1], st)
                an, bn = reduce_trig(a.n), reduce_trig(b.n)
                if a.d.is_const() and b.d.is_const() and an.is_const() and bn.is_const() and bn.const_value() != 0:
                    x = an.const_value() / a.d.const_value()
                    y = bn.const_value() / b.d.const_value()
                    if x.denominator == 1 and y.denominator == 1:
                        return Rat.const(int(math.fmod(int(x), int(y))))
                s = 'mod(%s,%s)' % (a.canon(), b.canon())
                self.types[s] = 'int'
                return Rat.sym(s)
            if op in ('<', '<=', '>', '>=', '==', '!=', '&&', '||'):
                t, f = self.branch(node, [st.fork()])
                if t and not f:
                    return Rat.const(1)
                if f and not t:
                    return Rat.const(0)
                # side effects of operands must still happen once
                return Rat.sym('(%s)' % show(node))
            if op == ',':
                self.eval(c[0], st)
                return self.eval(c[1], st)
            if op in ('&', '|', '^', '<<', '>>'):
                a = self.eval(c[0], st)
                b = self.eval(c[1], st)
                an, bn = reduce_trig(a.n), reduce_trig(b.n)
                if a.d.is_const() and b.d.is_const() and an.is_const() and bn.is_const():
                    x = an.const_value() / a.d.const_value()
                    y = bn.const_value() / b.d.const_value()
                    if x.denominator == 1 and y.denominator == 1:
                        x, y = int(x), int(y)
                        return Rat.const({'&': x & y, '|': x | y, '^': x ^ y, '<<': x << y if 0 <= y < 64 else 0,
                                          '>>': x >> y if 0 <= y < 64 else 0}[op])
                s = 'bit%s(%s,%s)' % (op, a.canon(), b.canon())
                self.types[s] = 'int'
                return Rat.sym(s)
            raise NotInClass('binary ' + op)
        if k == 'NewExpr' and node.get('cls') and all(isinstance(a, dict) for a in node.get('args', [])):
            # Java value object: new Complex(re, im) is the pair of its arguments
            sym = 'new_%s(%s)' % (node['cls'], ','.join(self.eval(a, st).canon() for a in node.get('args', [])))
            self.types[sym] = node['cls']
            return Rat.sym(sym)
        if k == 'ArraySubscriptExpr' or k == 'MemberExpr':
            ct = self.const_table_read(node, st)
            if ct is not None:
                return ct
            if k == 'ArraySubscriptExpr' and self.on_subscript:
                self.on_subscript(node, st, self)
            if k == 'MemberExpr' and node.get('arrow') and self.on_deref and c:
                self.on_deref(node, c[0], st, self)
            if k == 'ArraySubscriptExpr':
                # evaluate nested bases for their own subscript obligations
                self._touch_bases(c[0], st)
            key = self.lvalue_key(node, st)
            if key in st.mem:
                return st.mem[key]
            self.types.setdefault(key, node.get('T'))
            return Rat.sym(key)
        if k == 'CallExpr' and node.get('callee') and self._inlinable(node.get('callee')):
            r_ = self._eval_inlined_expr(node, st)
            if r_ is not None:
                return r_
        if k in ('CallExpr', 'CXXMemberCallExpr'):
            return self.call(node, st)
        if k == 'ConditionalOperator':
            t, f = self.branch(c[0], [st.fork()])
            if t and not f:
                self._adopt(st, t[0])
                return self.eval(c[1], st)
            if f and not t:
                self._adopt(st, f[0])
                return self.eval(c[2], st)
            a = self.eval(c[1], st.fork())
            b = self.eval(c[2], st.fork())
            if a.equals(b):
                return a
            return Rat.sym(self.fresh('cond'))
        if k == 'UnaryExprOrTypeTraitExpr':
            if 'v' in node:
                return Rat.sym('sizeof(%s)' % node.get('argT'))
            return Rat.sym('sizeof(%s)' % node.get('argT'))
        if k == 'InitListExpr':
            return Rat.sym(self.fresh('initlist'))
        if k == 'ImplicitValueInitExpr':
            return Rat.const(0)
        if k == 'CompoundLiteralExpr':
            return Rat.sym(self.fresh('compound'))
        if k == 'StmtExpr':
            return Rat.sym(self.fresh('stmtexpr'))
        if k == 'VAArgExpr':
            return Rat.sym(self.fresh('vaarg'))
        if k == 'PredefinedExpr':
            return Rat.sym('"__func__"')
        if k in ('CXXNullPtrLiteralExpr', 'GNUNullExpr'):
            return Rat.const(0)
        if k == 'CXXBoolLiteralExpr':
            return Rat.const(1 if node.get('v') else 0)
        raise NotInClass(k)

    def _touch_bases(self, n, st):
        if n.get('k') == 'ArraySubscriptExpr':
            if self.on_subscript:
                self.on_subscript(n, st, self)
            self._touch_bases(n['c'][0], st)
        elif n.get('k') == 'MemberExpr' and n.get('c'):
            if n.get('arrow') and self.on_deref:
                self.on_deref(n, n['c'][0], st, self)
            self._touch_bases(n['c'][0], st)
        elif n.get('k') in ('CStyleCastExpr',) and n.get('c'):
            self._touch_bases(n['c'][0], st)
        elif n.get('k') == 'BinaryOperator' and n.get('c'):
            for x in n['c']:
                self._touch_bases(x, st)

    def _adopt(self, st, other):
        st.env, st.mem, st.facts, st.events, st.conds = other.env, other.mem, other.facts, other.events, other.conds

    def store_interval(self, st, d, iv):
        """Record that d lies in iv (derived structurally from its operands)."""
        if iv is None or (iv.lo is None and iv.hi is None and not iv.nz):
            return
        key, a, b = self._key_of(d)
        if key is None or a == 0:
            return
        # K = (d - b)/a
        if a > 0:
            k = Interval(None if iv.lo is None else (iv.lo - b) / a, None if iv.hi is None else (iv.hi - b) / a, iv.los, iv.his)
        else:
            k = Interval(None if iv.hi is None else (iv.hi - b) / a, None if iv.lo is None else (iv.lo - b) / a, iv.his, iv.los)
        if iv.nz and b == 0:
            k.nz = True
        old = st.facts.get(key)
        new = self._meet(old, k) if old is not None else k
        if not new.empty():
            st.facts[key] = new

    def _arith(self, op, a, b, node, st):
        if op in ('+', '-', '*'):
            r = a + b if op == '+' else (a - b if op == '-' else a * b)
            if not reduce_trig(r.n).is_const() and len(reduce_trig(r.n).t) > 1:
                ia, ib = self.interval_of(a, st), self.interval_of(b, st)
                if op == '*':
                    prod = self._imul(ia, ib)
                    if a.canon() == b.canon():
                        # a square
                        if prod.lo is None or prod.lo < 0:
                            prod.lo, prod.los = Fraction(0), False
                        if ia.excludes_zero():
                            prod.nz = True
                            if prod.lo == 0:
                                prod.los = True
                    self.store_interval(st, r, prod)
                elif op == '+':
                    self.store_interval(st, r, self._iadd(ia, ib))
                else:
                    neg = Interval(None if ib.hi is None else -ib.hi, None if ib.lo is None else -ib.lo, ib.his, ib.los)
                    self.store_interval(st, r, self._iadd(ia, neg))
            return r
        # division
        T = node.get('T')
        lt = node['c'][0].get('T')
        rt = node['c'][1].get('T')
        if T in INT_TYPES and lt in INT_TYPES + (None,) and rt in INT_TYPES + (None,) and node.get('k') != 'CompoundAssignOperator':
            an, bn = reduce_trig(a.n), reduce_trig(b.n)
            if a.d.is_const() and b.d.is_const() and an.is_const() and bn.is_const() and bn.const_value() != 0:
                x = an.const_value() / a.d.const_value()
                y = bn.const_value() / b.d.const_value()
                if x.denominator == 1 and y.denominator == 1:
                    q = abs(int(x)) // abs(int(y))
                    return Rat.const(q if (x >= 0) == (y >= 0) else -q)
            s = 'idiv(%s,%s)' % (a.canon(), b.canon())
            self.types[s] = 'int'
            return Rat.sym(s)
        if reduce_trig(b.n).is_zero():
            st.notes.append(('div-by-zero-literal', node))
            return Rat.sym(self.fresh('divzero'))
        if self.on_div:
            self.on_div(node, b, st, self)
        r = a / b
        ib = self.interval_of(b, st)
        if ib.excludes_zero() and not (reduce_trig(r.n).is_const() and r.d.is_const()):
            ia = self.interval_of(a, st)
            one = Rat.const(1)
            inv = self._interval_eval(Rat(Poly.const(1), Poly.sym('__b__')), _FakeState({'__b__': ib}))
            if inv is not None:
                self.store_interval(st, r, self._imul(ia, inv))
        return r

    # ----------------------------------------------------------------------------------- assignment
    def assign(self, lhs, v, st, node=None):
        l = lhs
        while l.get('k') in ('ParenExpr',):
            l = l['c'][0]
        if l.get('k') == 'DeclRefExpr' and l.get('cls') in ('local', 'param'):
            st.env[l['id']] = v
            self.types.setdefault(l['name'], l.get('dT'))
            return
        if l.get('k') == 'ArraySubscriptExpr' and self.on_subscript:
            self.on_subscript(l, st, self, write=True)
            self._touch_bases(l['c'][0], st)
        if l.get('k') == 'MemberExpr' and l.get('arrow') and self.on_deref and l.get('c'):
            self.on_deref(l, l['c'][0], st, self)
        if l.get('k') == 'UnaryOperator' and l.get('op') == '*' and self.on_deref:
            self.on_deref(l, l['c'][0], st, self)
        key = self.lvalue_key(l, st)
        st.mem[key] = v
        st.events.append(Event('store', lv=key, value=v, node=node or lhs, loop=st.loopdepth))

    # ----------------------------------------------------------------------------------- calls
    def call(self, node, st):
        name = node.get('callee')
        args = []
        for a in node.get('args', []):
            try:
                args.append(self.eval(a, st))
            except NotInClass:
                args.append(Rat.sym(self.fresh('opaque')))
        self.counter += 1
        cid = self.counter
        if name is None:
            # indirect call: through a constant table of functions?
            fn = node.get('fn')
            tgt = None
            if fn is not None:
                try:
                    tv = self.eval(fn, st)
                    syms = tv.n.symbols()
                    if len(syms) == 1 and tv.d.is_const():
                        tgt = list(syms)[0]
                except NotInClass:
                    tgt = None
            name = tgt or '<indirect>'
            indirect_resolved = tgt is not None and bool(self.prog.funcs(tgt))
        else:
            indirect_resolved = False
        ev = Event('call', name=name, args=args, node=node, id=cid, loop=st.loopdepth, argnodes=node.get('args', []))
        st.events.append(ev)
        # out-parameters: &local -> havoc
        for a in node.get('args', []):
            a0 = strip_casts(a)
            if a0.get('k') == 'DeclRefExpr' and a0.get('dims') and a0.get('cls') == 'local' and name not in PURE_LIBM:
                # a local array handed to a callee through a pointer to non-const: its cells hold unknown values afterwards
                pt = (a.get('T') or '').strip()
                if pt.endswith('*') and not pt.startswith('const '):
                    st.mem['\0ver:' + a0['name']] = Rat.const(cid)
            if a0.get('k') == 'UnaryOperator' and a0.get('op') == '&':
                t = a0['c'][0]
                if t.get('k') == 'DeclRefExpr' and t.get('cls') in ('local', 'param'):
                    st.env[t['id']] = Rat.sym('%s@%d' % (t['name'], cid))
                    self.types['%s@%d' % (t['name'], cid)] = t.get('dT')
                    if t.get('cls') == 'local' and ('struct ' in (t.get('dT') or '') or (t.get('dT') or '')[:1].isupper()) and \
                            not (a.get('T') or '').startswith('const ') and name not in PURE_LIBM:
                        # a local record handed to a callee by address: its fields hold unknown values afterwards
                        st.mem['\0ver:' + t['name']] = Rat.const(cid)
                else:
                    key = self.lvalue_key(t, st)
                    st.mem[key] = Rat.sym('%s@%d' % (key, cid))
        # objects reachable through a pointer to non-const handed to a callee that may write: cells known so far hold
        # unknown values afterwards
        if name not in PURE_LIBM and name not in ('free', 'xrl_free', 'xrlFree') and st.mem:
            for a, av in zip(node.get('args', []), args):
                pt = (a.get('T') or '').strip()
                if av is None or not pt.endswith('*') or pt.startswith('const ') or pt in ('struct _IO_FILE *',):
                    continue
                c_ = av.canon()
                if c_ in ('0',):
                    continue
                pre = ('(%s).' % c_, '(%s)[' % c_, '%s.' % c_, '%s[' % c_, '*%s' % c_, '*(%s)' % c_, '(*%s)' % c_)
                for key in list(st.mem):
                    if key.startswith(pre):
                        st.mem[key] = Rat.sym('%s@%d' % (key, cid))
        if self.on_math and name in ('log', 'log10', 'asin', 'acos', 'sqrt', 'pow'):
            self.on_math(node, name, args, st, self)
        res = None
        if name == 'pow' and len(args) == 2:
            en = reduce_trig(args[1].n)
            if args[1].d.is_const() and en.is_const():
                ex = en.const_value() / args[1].d.const_value()
                if ex.denominator == 1 and 0 <= ex <= 8:
                    res = Rat.const(1)
                    for _ in range(int(ex)):
                        res = res * args[0]
        if res is None and self.call_model:
            res = self.call_model(ev, st, self)
        if res is None:
            T = node.get('T', '')
            pure = name in PURE_LIBM or (self.pure_pred(name, node) if self.pure_pred else
                                         ((node.get('callee_proj') or indirect_resolved) and '*' not in T and T != 'void'))
            if pure:
                sym = '%s(%s)' % (name, ','.join(a.canon() for a in args))
            else:
                sym = '%s#%d(%s)' % (name, cid, ','.join(a.canon() for a in args))
            self.types[sym] = T
            res = Rat.sym(sym)
            if name in ('fabs', 'abs') and len(args) == 1:
                self.fabs_args[sym] = args[0]
        ev.result = res
        return res

    # ----------------------------------------------------------------------------------- conditions
    def branch(self, node, states):
        """Returns (states where cond is true, states where false)."""
        T, F = [], []
        k = node.get('k')
        c = node.get('c', [])
        if k == 'BinaryOperator' and node['op'] == '&&':
            t1, f1 = self.branch(c[0], states)
            t2, f2 = self.branch(c[1], t1)
            return t2, f1 + f2
        if k == 'BinaryOperator' and node['op'] == '||':
            t1, f1 = self.branch(c[0], states)
            t2, f2 = self.branch(c[1], f1)
            return t1 + t2, f2
        if k == 'UnaryOperator' and node['op'] == '!':
            t, f = self.branch(c[0], states)
            return f, t
        n0 = strip_casts(node)
        if n0.get('k') == 'ParenExpr' and n0.get('c'):
            return self.branch(n0['c'][0], states)
        if n0.get('k') == 'CallExpr' and self._inlinable(n0.get('callee')):
            # a transparent helper used as a condition: its paths become paths of the caller, each with its own return value
            for st in states:
                for o, rv in self._bind_and_run(n0, st):
                    if o.status != 'run':
                        T.append(o)            # cannot happen in C (no exceptions); kept so that no path is lost
                        continue
                    if rv is None:
                        rv = Rat.sym(self.fresh(n0.get('callee')))
                    of = o.fork()
                    if self.assume(o, rv, '!=', True):
                        o.conds.append((node, True))
                        T.append(o)
                    if self.assume(of, rv, '==', True):
                        of.conds.append((node, False))
                        F.append(of)
            return T, F
        for st in states:
            try:
                if k == 'BinaryOperator' and node['op'] in ('<', '<=', '>', '>=', '==', '!='):
                    a = self.eval(c[0], st)
                    b = self.eval(c[1], st)
                    d = a - b
                    op = node['op']
                    is_int = (c[0].get('T') in INT_TYPES or c[0].get('Ti') in INT_TYPES) and \
                             (c[1].get('T') in INT_TYPES or c[1].get('Ti') in INT_TYPES)
                else:
                    d = self.eval(node, st)
                    op = '!='
                    is_int = node.get('T') in INT_TYPES
            except NotInClass:
                s2 = st.fork()
                st.conds.append((node, True))
                s2.conds.append((node, False))
                T.append(st)
                F.append(s2)
                continue
            neg = {'<': '>=', '<=': '>', '>': '<=', '>=': '<', '==': '!=', '!=': '=='}[op]
            st_f = st.fork()
            if self.assume(st, d, op, is_int):
                st.conds.append((node, True))
                T.append(st)
            if self.assume(st_f, d, neg, is_int):
                st_f.conds.append((node, False))
                F.append(st_f)
        return T, F

    # ----------------------------------------------------------------------------------- transparent static helpers
    def _inlinable(self, name):
        if not name or self._inline_depth >= 3:
            return None
        cache = self._inl_cache
        if name in cache:
            return cache[name]
        f = None
        extra = getattr(self, 'extra_inlinable', None)
        if extra and name in extra and extra[name] is not self.func and extra[name].get('body'):
            cache[name] = extra[name]
            return extra[name]
        try:
            cand = self.prog.func(name, unit=self.func.get('unit'), required=False)
        except Exception:
            cand = None
        if cand is not None and cand.get('static') and cand.get('body') and cand is not self.func and cand['name'] != self.func['name'] and \
                name not in rule_named_functions() and not any(x.get('k') == 'CallExpr' and x.get('callee') == name for x in walk(cand['body'])):
            f = cand
        cache[name] = f
        return f

    def _inline_site(self, node):
        """(kind, call node, target) when the statement is `f(..);`, `x = f(..);`, `T x = f(..);` or `return f(..);` with f a transparent helper"""
        k = node.get('k')
        n0 = strip_casts(node) if k not in ('DeclStmt', 'ReturnStmt') else node
        if k == 'ReturnStmt' and node.get('c'):
            c0 = strip_casts(node['c'][0])
            if c0.get('k') == 'CallExpr' and self._inlinable(c0.get('callee')):
                return ('return', c0, None)
        elif k == 'DeclStmt' and len(node.get('decls', [])) == 1 and isinstance(node['decls'][0], dict) and node['decls'][0].get('init') is not None:
            c0 = strip_casts(node['decls'][0]['init'])
            if c0.get('k') == 'CallExpr' and self._inlinable(c0.get('callee')):
                return ('decl', c0, node['decls'][0])
        elif n0.get('k') == 'CallExpr' and self._inlinable(n0.get('callee')):
            return ('stmt', n0, None)
        elif n0.get('k') == 'BinaryOperator' and n0.get('op') == '=':
            c0 = strip_casts(n0['c'][1])
            if c0.get('k') == 'CallExpr' and self._inlinable(c0.get('callee')):
                return ('assign', c0, n0)
        return None

    def _bind_and_run(self, call, st):
        """runs the helper's body on a state with its parameters bound to the argument values; returns [(state, return value or None)]"""
        f = self._inlinable(call.get('callee'))
        for prm, a in zip(f['params'], call.get('args', [])):
            try:
                st.env[prm['id']] = self.eval(a, st)
            except NotInClass:
                st.env[prm['id']] = Rat.sym(self.fresh(prm['name']))
            self.types.setdefault(prm['name'], prm.get('T'))
        self._inline_depth += 1
        try:
            outs = self.exec_stmt(f['body'], [st])
        finally:
            self._inline_depth -= 1
        res = []
        for o in outs:
            rv = o.ret
            if o.status in ('ret', 'run', 'end'):
                o.status = 'run'
                o.ret = None
                o.ret_node = None
            res.append((o, rv))
        return res

    def _exec_inlined(self, node, inl, live):
        kind, call, tgt = inl
        out = []
        for st in live:
            for o, rv in self._bind_and_run(call, st):
                if o.status != 'run':
                    out.append(o)
                    continue
                if rv is None:
                    rv = Rat.sym(self.fresh(call.get('callee')))
                if kind == 'return':
                    o.ret = rv
                    o.ret_node = node
                    o.status = 'ret'
                elif kind == 'decl':
                    o.env[tgt['id']] = rv
                    self.types.setdefault(tgt['name'], tgt.get('T'))
                elif kind == 'assign':
                    try:
                        self.assign(tgt['c'][0], rv, o, tgt)
                    except NotInClass:
                        pass
                out.append(o)
        return out

    def _eval_inlined_expr(self, node, st):
        """a call of a transparent helper inside a larger expression: possible when the helper is straight-line code ending in one return"""
        f = self._inlinable(node.get('callee'))
        if f is None:
            return None
        body = f['body'].get('c', []) if f['body'].get('k') == 'CompoundStmt' else [f['body']]
        if not body or body[-1].get('k') != 'ReturnStmt' or not body[-1].get('c'):
            return None
        for s_ in body[:-1]:
            if s_.get('k') not in ('DeclStmt', 'BinaryOperator', 'CompoundAssignOperator', 'NullStmt'):
                return None
        res = self._bind_and_run(node, st)
        if len(res) != 1 or res[0][0] is not st:
            return None
        return res[0][1]

    # ----------------------------------------------------------------------------------- statements
    def exec_stmt(self, node, states):
        if node is None:
            return states
        live = [s for s in states if s.status == 'run']
        done = [s for s in states if s.status != 'run']
        if not live:
            return states
        if len(states) > self.max_paths:
            raise Inconclusive('more than %d abstract paths in %s' % (self.max_paths, self.func['name']))
        k = node.get('k')
        inl = self._inline_site(node)
        if inl is not None:
            return done + self._exec_inlined(node, inl, live)
        if k == 'CompoundStmt':
            cur = live
            for s in node.get('c', []):
                cur = self.exec_stmt(s, cur)
            return done + cur
        if k == 'DeclStmt':
            for d in node.get('decls', []):
                if d.get('k') != 'var':
                    continue
                self.types.setdefault(d['name'], d.get('T'))
                for st in live:
                    if d.get('cls') == 'slocal':
                        st.notes.append(('static-local', d))
                    if 'init' in d:
                        ini = d['init']
                        if ini.get('k') == 'InitListExpr' or d.get('dims'):
                            # aggregate: fields initialised to the given constants / zero
                            self._init_aggregate(d, ini, st)
                            st.env[d['id']] = Rat.sym(d['name'])
                        else:
                            try:
                                st.env[d['id']] = self.eval(ini, st)
                            except NotInClass:
                                st.env[d['id']] = Rat.sym(self.fresh(d['name']))
                    else:
                        st.env[d['id']] = Rat.sym(d['name'] if d.get('dims') or 'struct' in d.get('T', '') or
                                                  d['id'] in self.addr_taken else d['name'] + '?uninit')
            return done + live
        if k == 'ReturnStmt':
            for st in live:
                if node.get('c'):
                    try:
                        st.ret = self.eval(node['c'][0], st)
                    except NotInClass:
                        st.ret = Rat.sym(self.fresh('ret'))
                st.ret_node = node
                st.status = 'ret'
            return done + live
        if k == 'ThrowStmt':                 # Java: the failing exit of a method (no value)
            for st in live:
                st.ret = None
                st.ret_node = node
                st.status = 'throw'
            return done + live
        if k == 'IfStmt':
            t, f = self.branch(node['cond'], live)
            t = self.exec_stmt(node['then'], t)
            if node.get('else'):
                f = self.exec_stmt(node['else'], f)
            return done + t + f
        if k in ('ForStmt', 'WhileStmt', 'DoStmt'):
            return done + self.exec_loop(node, live)
        if k == 'BreakStmt':
            for st in live:
                st.status = 'brk'
            return done + live
        if k == 'ContinueStmt':
            for st in live:
                st.status = 'cont'
            return done + live
        if k == 'NullStmt':
            return states
        if k == 'SwitchStmt':
            return done + self.exec_switch(node, live)
        if k in ('CaseStmt', 'DefaultStmt'):
            return done + self.exec_stmt(node.get('sub'), live)
        if k == 'LabelStmt':
            raise Inconclusive('label')
        if k == 'GotoStmt':
            raise Inconclusive('goto')
        # expression statement
        for st in live:
            try:
                self.eval(node, st)
            except NotInClass as e:
                st.notes.append(('unmodelled', node))
        return done + live

    def _init_aggregate(self, d, ini, st):
        name = d['name']
        if ini.get('k') == 'InitListExpr':
            items = ini.get('c', [])
            T = d.get('T', '')
            try:
                rec = self.prog.record(T.replace('struct ', '').strip()) if not d.get('dims') else None
            except Exception:
                rec = None
            if rec:
                for f, it in zip(rec['fields'], items):
                    try:
                        st.mem['%s.%s' % (name, f['name'])] = self.eval(it, st)
                    except NotInClass:
                        pass
                for f in rec['fields'][len(items):]:
                    st.mem['%s.%s' % (name, f['name'])] = Rat.const(0)
            else:
                for i, it in enumerate(items):
                    try:
                        st.mem['%s[%d]' % (name, i)] = self.eval(it, st)
                    except NotInClass:
                        pass

    def exec_loop(self, node, live):
        k = node['k']
        out = []
        if k == 'ForStmt' and node.get('init'):
            live = self.exec_stmt(node['init'], live)
            out += [s for s in live if s.status != 'run']
            live = [s for s in live if s.status == 'run']
        cond = node.get('cond')
        body = node.get('body')
        inc = node.get('inc') if k == 'ForStmt' else None
        exited = []
        originals = [s.fork() for s in live] if k != 'DoStmt' else None
        n_entry = max(1, len(live))
        cur = live
        first = (k == 'DoStmt')
        iters = 0
        while cur:
            iters += 1
            if iters > self.unroll:
                raise Inconclusive('loop in %s does not terminate under exact unrolling' % self.func['name'])
            if originals is not None and iters > 1 and len(cur) + len(exited) > self.loop_fork_limit * n_entry:
                # the body forks on every iteration (independent conditional accumulation): exact unrolling would be
                # exponential, fall back to the zero-or-more-iterations approximation from the loop entry states
                ex, rets = self.approx_loop(node, originals)
                return out + ex + rets
            nxt = []
            undecided = []
            if first:
                enter = cur
                first = False
            else:
                enter = []
                for st in cur:
                    if cond is None:
                        enter.append(st)
                        continue
                    t, f = self.branch(cond, [st.fork()])
                    if t and f:
                        undecided.append(st)
                    elif t:
                        enter += t
                    else:
                        exited += f
            if enter:
                for s in enter:
                    s.loopdepth += 1
                after = self.exec_stmt(body, enter)
                for s in after:
                    if s.status in ('cont', 'run'):
                        s.status = 'run'
                        s.loopdepth -= 1
                        nxt.append(s)
                    elif s.status == 'brk':
                        s.status = 'run'
                        s.loopdepth -= 1
                        exited.append(s)
                    else:
                        out.append(s)
                if inc is not None and nxt:
                    for s in nxt:
                        try:
                            self.eval(inc, s)
                        except NotInClass:
                            pass
            if undecided:
                ex, rets = self.approx_loop(node, undecided)
                exited += ex
                out += rets
            cur = self.merge(nxt) if len(nxt) > 8 else nxt
            if len(cur) + len(exited) + len(out) > self.max_paths:
                raise Inconclusive('path budget exceeded in a loop of %s' % self.func['name'])
        return out + exited

    def merge(self, states):
        """Join abstract paths that differ only in their facts (e.g. the two ways `a && b` can be false): the
        environment, memory and event list are identical, the fact stores are joined by interval hull."""
        groups = {}
        order = []
        for s in states:
            key = (s.status, tuple(id(e) for e in s.events),
                   tuple(sorted((k, v.canon()) for k, v in s.env.items())),
                   tuple(sorted((k, v.canon()) for k, v in s.mem.items())))
            if key in groups:
                g = groups[key]
                nf = {}
                for fk, iv in g.facts.items():
                    o = s.facts.get(fk)
                    if o is None:
                        continue
                    h = Interval()
                    if iv.lo is not None and o.lo is not None:
                        if iv.lo < o.lo or (iv.lo == o.lo and not iv.los):
                            h.lo, h.los = iv.lo, iv.los
                        else:
                            h.lo, h.los = o.lo, o.los
                    if iv.hi is not None and o.hi is not None:
                        if iv.hi > o.hi or (iv.hi == o.hi and not iv.his):
                            h.hi, h.his = iv.hi, iv.his
                        else:
                            h.hi, h.his = o.hi, o.his
                    h.nz = iv.nz and o.nz
                    nf[fk] = h
                g.facts = nf
                n = 0
                while n < len(g.conds) and n < len(s.conds) and g.conds[n] is s.conds[n]:
                    n += 1
                g.conds = g.conds[:n]
            else:
                groups[key] = s
                order.append(key)
        return [groups[k] for k in order]

    def written_in(self, node):
        ids = {}
        for n in walk(node):
            if n.get('k') in ('BinaryOperator', 'CompoundAssignOperator') and n.get('op') in ('=', '+=', '-=', '*=', '/=', '|=', '&=', '%='):
                l = n['c'][0]
                if l.get('k') == 'DeclRefExpr' and l.get('cls') in ('local', 'param'):
                    ids[l['id']] = l
            if n.get('k') == 'UnaryOperator' and n.get('op') in ('++', '--'):
                l = n['c'][0]
                if l.get('k') == 'DeclRefExpr' and l.get('cls') in ('local', 'param'):
                    ids[l['id']] = l
            if n.get('k') == 'UnaryOperator' and n.get('op') == '&':
                l = n['c'][0]
                if l.get('k') == 'DeclRefExpr' and l.get('cls') in ('local', 'param'):
                    ids[l['id']] = l
        return ids

    def approx_loop(self, node, states):
        """Zero-or-more iterations: havoc what the loop writes, run the body once under the condition to collect
        returns/events, then leave with the condition false."""
        k = node['k']
        cond, body = node.get('cond'), node.get('body')
        inc = node.get('inc') if k == 'ForStmt' else None
        w = self.written_in(body)
        if inc:
            w.update(self.written_in(inc))
        exited, rets = [], []
        for st in states:
            # exit without iterating
            if cond is not None:
                t0, f0 = self.branch(cond, [st.fork()])
            else:
                t0, f0 = [st.fork()], []
            exited += f0
            # havoc and iterate once
            h = st.fork()
            self.counter += 1
            lid = self.counter
            mono = self._monotone_counters(node, w, st)
            sig = self._loop_signature(node, w, st)
            for vid, ref in w.items():
                s = '%s@L%d' % (ref['name'], lid)
                self.types[s] = ref.get('dT')
                h.env[vid] = Rat.sym(s)
                if vid in mono:
                    direction, start = mono[vid]
                    if start is not None:
                        # a counter that only moves one way never passes back over its initial value
                        self._assume1(h, Rat.sym(s) - Rat.const(start), '>=' if direction > 0 else '<=', True)
            # facts that an earlier loop over the same range established for every iteration
            for (osig, olid, names, facts) in st.forall:
                if osig != sig:
                    continue
                for key, iv in facts.items():
                    nk = key
                    for nm in names:
                        nk = nk.replace('%s@L%d' % (nm, olid), '%s@L%d' % (nm, lid))
                    old_iv = h.facts.get(nk)
                    h.facts[nk] = self._meet(old_iv, iv) if old_iv is not None else iv.copy()
            # memory written in the loop is forgotten
            for key in list(h.mem):
                h.mem.pop(key) if any(key.startswith(p) for p in self._written_mem_prefixes(body, h)) else None
            # cells the body stores to (found by a discovery run of one iteration) hold an unknown value at the start of
            # an arbitrary iteration - not the value they had on entry of the loop
            cells = self._stored_cells(node, h, lid)
            for key in cells:
                h.mem[key] = Rat.sym('%s@L%d' % (key, lid))
            # an accumulator never passes back over the value it had on entry of the loop
            accum = {}
            unchanged = {}
            for vid, direction in dict(self._mono_found).items():
                pre = st.env.get(vid)
                if pre is None or vid not in w:
                    continue
                if direction == 'same':
                    # no completed iteration changes it: it still has its entry value at the start of every iteration
                    unchanged[vid] = pre
                    h.env[vid] = pre
                    continue
                piv = self.interval_of(pre, st)
                bound = Interval(piv.lo, None, piv.los, False) if direction == 'up' else Interval(None, piv.hi, False, piv.his)
                if bound.lo is None and bound.hi is None:
                    continue
                accum[vid] = bound
                key_ = h.env[vid].canon()
                old_ = h.facts.get(key_)
                h.facts[key_] = self._meet(old_, bound) if old_ is not None else bound.copy()
            lb_ = Event('loop-begin', node=node, id=lid, loop=h.loopdepth)
            # the value of the bound at loop entry (`v < bound`): what the loop ranges over, whatever the bound is called here
            if cond is not None and cond.get('k') == 'BinaryOperator' and cond.get('op') in ('<', '<=') and len(cond.get('c', [])) == 2:
                try:
                    lb_.value = self.eval(cond['c'][1], h)
                except NotInClass:
                    lb_.value = None
            h.events.append(lb_)
            if cond is not None:
                t, _ = self.branch(cond, [h])
            else:
                t = [h]
            for s in t:
                s.loopdepth += 1
            after = self.exec_stmt(body, t)
            cont = []
            for s in after:
                if s.status in ('run', 'cont'):
                    s.status = 'run'
                    s.loopdepth -= 1
                    cont.append(s)
                elif s.status == 'brk':
                    s.status = 'run'
                    s.loopdepth -= 1
                    s.events.append(Event('loop-end', node=node, id=lid, loop=s.loopdepth))
                    exited.append(s)
                else:
                    rets.append(s)
            # universally quantified facts: what every completed iteration established about cells indexed by the counter
            common = None
            tag = '@L%d' % lid
            for s in cont:
                mine = {k: v for k, v in s.facts.items() if tag in k}
                if common is None:
                    common = mine
                else:
                    nxt_ = {}
                    for k, v in common.items():
                        o = mine.get(k)
                        if o is None:
                            continue
                        hv = Interval()
                        if v.lo is not None and o.lo is not None:
                            hv.lo, hv.los = (v.lo, v.los) if v.lo < o.lo or (v.lo == o.lo and not v.los) else (o.lo, o.los)
                        if v.hi is not None and o.hi is not None:
                            hv.hi, hv.his = (v.hi, v.his) if v.hi > o.hi or (v.hi == o.hi and not v.his) else (o.hi, o.his)
                        hv.nz = v.nz and o.nz
                        nxt_[k] = hv
                    common = nxt_
            # only loops whose body leaves early by `return` (never by `break`) validate every element
            no_break = not _breaks_loop(body or {})
            for s in cont:
                if common and no_break and sig is not None:
                    s.forall.append((sig, lid, [ref['name'] for ref in w.values()], common))
                if inc is not None:
                    try:
                        self.eval(inc, s)
                    except NotInClass:
                        pass
                # snapshot of one symbolic iteration: written variable -> (value at iteration start, value at its end)
                snap = {}
                for vid, ref in w.items():
                    snap[ref['name']] = (Rat.sym('%s@L%d' % (ref['name'], lid)), s.env.get(vid))
                ev_ = Event('iter-end', node=node, id=lid, args=snap, loop=s.loopdepth)
                # memory cells stored during this iteration: cell -> value at the end of the iteration
                memsnap = {}
                started = False
                for e_ in s.events:
                    if e_.kind == 'loop-begin' and e_.id == lid:
                        started = True
                    elif started and e_.kind == 'store' and e_.lv in s.mem:
                        memsnap[e_.lv] = s.mem[e_.lv]
                ev_.value = memsnap
                s.events.append(ev_)
                # further iterations: havoc again, then exit with the condition false
                self.counter += 1
                for vid, ref in w.items():
                    sname = '%s@L%d' % (ref['name'], self.counter)
                    self.types[sname] = ref.get('dT')
                    s.env[vid] = Rat.sym(sname)
                for key in cells:
                    s.mem[key] = Rat.sym('%s@L%d' % (key, self.counter))
                for vid, bound in accum.items():
                    key_ = s.env[vid].canon()
                    s.facts[key_] = bound.copy()
                for vid, pre in unchanged.items():
                    s.env[vid] = pre
                s.events.append(Event('loop-end', node=node, id=lid, loop=s.loopdepth))
                if cond is not None:
                    _, f = self.branch(cond, [s])
                    exited += f
                else:
                    pass
        return exited, rets

    def _stored_cells(self, node, h, lid):
        """Memory cells (by key) that one iteration of the loop may store to, excluding cells addressed through this
        loop's own counters (those are per-iteration cells).  Found by running the body once on a copy of the state."""
        if self._discovering > 2:
            return set()
        self._discovering += 1
        saved = (self.counter, self.on_subscript, self.on_deref, self.on_math, self.on_div, dict(self.fabs_args))
        self.on_subscript = self.on_deref = self.on_math = self.on_div = None    # no obligations from the discovery run
        cells = set()
        self._mono_found = {}
        try:
            d = h.fork()
            start_env = dict(d.env)
            n0 = len(d.events)
            cond, body = node.get('cond'), node.get('body')
            t = self.branch(cond, [d])[0] if cond is not None else [d]
            after = self.exec_stmt(body, t)
            inc = node.get('inc') if node['k'] == 'ForStmt' else None
            for s_ in after:
                if inc is not None and s_.status in ('run', 'cont'):
                    try:
                        self.eval(inc, s_)
                    except NotInClass:
                        pass
                for e_ in s_.events[n0:]:
                    if e_.kind == 'store' and e_.lv and not any(int(x) >= lid for x in re.findall(r'@L(\d+)', e_.lv)) and \
                            not any(int(x) > lid for x in re.findall(r'#(\d+)', e_.lv)):
                        cells.add(e_.lv)      # not the per-iteration cells (addressed through this loop's counters or results)
            # accumulators: variables whose value only moves one way in every completed iteration
            done = [s_ for s_ in after if s_.status in ('run', 'cont')]
            for vid, v0 in start_env.items():
                if not done or v0 is None:
                    continue
                dirs = set()
                for s_ in done:
                    v1 = s_.env.get(vid)
                    if v1 is None:
                        dirs.add('?')
                        continue
                    if v1.canon() == v0.canon():
                        dirs.add('same')
                        continue
                    iv = self.interval_of(v1 - v0, s_)
                    if iv.lo is not None and iv.lo >= 0:
                        dirs.add('up')
                    elif iv.hi is not None and iv.hi <= 0:
                        dirs.add('down')
                    else:
                        dirs.add('?')
                if dirs == {'same'}:
                    self._mono_found[vid] = 'same'      # only written on paths that leave the loop
                    continue
                dirs.discard('same')
                if dirs == {'up'} or dirs == {'down'}:
                    self._mono_found[vid] = dirs.pop()
        except (NotInClass, Inconclusive):
            cells = set()
            self._mono_found = {}
        finally:
            self._discovering -= 1
            self.counter, self.on_subscript, self.on_deref, self.on_math, self.on_div, self.fabs_args = saved
        return cells

    def _loop_signature(self, node, w, st):
        """Same initialisation, same bound, same step over the same values => same iteration range."""
        if node.get('k') != 'ForStmt' or not node.get('cond'):
            return None
        outside = []
        for n in walk(node['cond']):
            if n.get('k') == 'DeclRefExpr' and n.get('cls') in ('local', 'param') and n['id'] not in w:
                v = st.env.get(n['id'])
                outside.append((n['name'], v.canon() if v is not None else n['name']))
        init = []
        for n in walk(node.get('init') or {}):
            if n.get('k') == 'BinaryOperator' and n.get('op') == '=' and n['c'][0].get('k') == 'DeclRefExpr':
                try:
                    init.append((n['c'][0]['name'], self.eval(n['c'][1], st.fork()).canon()))
                except NotInClass:
                    return None
        # memory cells read by the condition (e.g. a bound `p->n`) are part of the range: use their current values
        cells = []
        for n in walk(node['cond']):
            if n.get('k') in ('MemberExpr', 'ArraySubscriptExpr') or (n.get('k') == 'UnaryOperator' and n.get('op') == '*'):
                if any(x.get('k') == 'DeclRefExpr' and x.get('id') in w for x in walk(n)):
                    continue
                try:
                    cells.append((show(n), self.eval(n, st.fork()).canon()))
                except (NotInClass, Inconclusive):
                    return None
        return (tuple(init), show(node['cond']), show(node.get('inc')), tuple(sorted(set(outside))), tuple(sorted(set(cells))))

    def _monotone_counters(self, node, w, st):
        """Loop counters changed only by the increment expression `v++`, `++v`, `v += c`, `v--`, `v -= c`:
        returns {id: (direction, initial lower/upper bound or None)}."""
        out = {}
        if node.get('k') != 'ForStmt' or not node.get('inc'):
            return out
        inc = node['inc']
        cands = {}
        for n in walk(inc):
            if n.get('k') == 'UnaryOperator' and n.get('op') in ('++', '--') and n['c'][0].get('k') == 'DeclRefExpr':
                cands[n['c'][0]['id']] = 1 if n['op'] == '++' else -1
            if n.get('k') == 'CompoundAssignOperator' and n.get('op') in ('+=', '-=') and n['c'][0].get('k') == 'DeclRefExpr' and \
                    isinstance(n['c'][1].get('v'), int) and n['c'][1]['v'] > 0:
                cands[n['c'][0]['id']] = 1 if n['op'] == '+=' else -1
        body_w = self.written_in(node.get('body') or {})
        for vid, direction in cands.items():
            if vid in body_w or vid not in st.env:
                continue
            iv = self.interval_of(st.env[vid], st)
            start = iv.lo if direction > 0 else iv.hi
            out[vid] = (direction, start)
        return out

    def _written_mem_prefixes(self, body, st):
        pref = set()
        for n in walk(body):
            if n.get('k') in ('BinaryOperator', 'CompoundAssignOperator') and n.get('op') in ('=', '+=', '-=', '*=', '/='):
                l = n['c'][0]
                if l.get('k') in ('ArraySubscriptExpr', 'MemberExpr', 'UnaryOperator'):
                    b = l
                    while b.get('k') in ('ArraySubscriptExpr', 'MemberExpr') and b.get('c'):
                        if b.get('k') == 'MemberExpr':
                            break
                        b = b['c'][0]
                    try:
                        pref.add(self.lvalue_key(b, st).split('[')[0])
                    except Exception:
                        pass
        return pref or {'\0'}

    def exec_switch(self, node, live):
        body = node.get('body') or {}
        stmts = body.get('c', []) if body.get('k') == 'CompoundStmt' else [body]
        # flatten case labels: position -> list of values
        labels = []   # (index, values or None for default)
        flat = []
        for s in stmts:
            vals = []
            cur = s
            while cur is not None and cur.get('k') in ('CaseStmt', 'DefaultStmt'):
                if cur['k'] == 'CaseStmt':
                    vals.append(cur['lhs'].get('v'))
                else:
                    vals.append(None)
                cur = cur.get('sub')
            if vals:
                labels.append((len(flat), vals))
            flat.append(cur if vals else s)
        out = []
        for st in live:
            try:
                v = self.eval(node['cond'], st)
            except NotInClass:
                v = Rat.sym(self.fresh('switch'))
            taken_default = st.fork()
            has_default = None
            for idx, vals in labels:
                for val in vals:
                    if val is None:
                        has_default = idx
                        continue
                    s2 = st.fork()
                    if self.assume(s2, v - Rat.const(val), '==', True):
                        s2.conds.append((node, ('case', val)))
                        out += self._run_from(flat, idx, [s2])
                    if not self.assume(taken_default, v - Rat.const(val), '!=', True):
                        taken_default = None
                        break
                if taken_default is None:
                    break
            if taken_default is not None:
                taken_default.conds.append((node, ('default',)))
                if has_default is not None:
                    out += self._run_from(flat, has_default, [taken_default])
                else:
                    out.append(taken_default)
        return out

    def _run_from(self, flat, idx, states):
        cur = states
        for s in flat[idx:]:
            cur = self.exec_stmt(s, cur)
        res = []
        for s in cur:
            if s.status == 'brk':
                s.status = 'run'
            res.append(s)
        return res


def run_function(prog, func, **kw):
    it = Interp(prog, func, **kw)
    return it, it.run()


def run_fragment(prog, func, stmt, **kw):
    """Abstract paths of one statement of `func` taken on its own: parameters and locals are unconstrained symbols on
    entry (a sound over-approximation of every state in which the statement can be reached)."""
    f2 = dict(func)
    f2['body'] = stmt if stmt.get('k') == 'CompoundStmt' else {'k': 'CompoundStmt', 'ln': stmt.get('ln'), 'col': stmt.get('col'), 'c': [stmt]}
    it = Interp(prog, f2, **kw)
    return it, it.run()


def _strip_paren(n):
    n = strip_casts(n)
    while n.get('k') == 'ParenExpr' and n.get('c'):
        n = strip_casts(n['c'][0])
    return n


def lower_conditionals(n):
    """Statement-level conditional expressions become if/else statements (same evaluation order: the condition first,
    then exactly one arm)."""
    if isinstance(n, list):
        return [lower_conditionals(x) for x in n]
    if not isinstance(n, dict):
        return n
    out = {k: (lower_conditionals(v) if isinstance(v, (dict, list)) and k not in ('decls',) else v) for k, v in n.items()}
    if out.get('k') == 'CompoundStmt':
        new = []
        for st in out.get('c', []):
            new.extend(_lower_stmt(st))
        out['c'] = new
    return out


def _lower_stmt(st):
    k = st.get('k')
    if k == 'DeclStmt' and len(st.get('decls', [])) >= 1 and any(
            d.get('init') is not None and _strip_paren(d['init']).get('k') == 'ConditionalOperator' for d in st['decls']):
        res = []
        for d in st['decls']:
            ini = _strip_paren(d['init']) if d.get('init') is not None else None
            if ini is not None and ini.get('k') == 'ConditionalOperator' and not d.get('dims'):
                d2 = {kk: vv for kk, vv in d.items() if kk != 'init'}
                ref = {'k': 'DeclRefExpr', 'ln': d.get('ln'), 'col': d.get('col'), 'name': d['name'], 'id': d['id'], 'cls': d.get('cls', 'local'),
                       'T': d.get('T'), 'Ti': d.get('T'), 'dT': d.get('T')}
                res.append({'k': 'DeclStmt', 'ln': st.get('ln'), 'col': st.get('col'), 'decls': [d2]})
                res.append({'k': 'IfStmt', 'ln': ini.get('ln'), 'col': ini.get('col'), 'cond': ini['c'][0],
                            'then': {'k': 'BinaryOperator', 'op': '=', 'ln': ini.get('ln'), 'T': d.get('T'), 'c': [ref, ini['c'][1]]},
                            'else': {'k': 'BinaryOperator', 'op': '=', 'ln': ini.get('ln'), 'T': d.get('T'), 'c': [ref, ini['c'][2]]}})
            else:
                res.append({'k': 'DeclStmt', 'ln': st.get('ln'), 'col': st.get('col'), 'decls': [d]})
        return res
    if k == 'ReturnStmt' and st.get('c') and _strip_paren(st['c'][0]).get('k') == 'ConditionalOperator':
        c = _strip_paren(st['c'][0])
        return [{'k': 'IfStmt', 'ln': st.get('ln'), 'col': st.get('col'), 'cond': c['c'][0],
                 'then': dict(st, c=[c['c'][1]]), 'else': dict(st, c=[c['c'][2]])}]
    if k == 'BinaryOperator' and st.get('op') == '=' and _strip_paren(st['c'][1]).get('k') == 'ConditionalOperator':
        c = _strip_paren(st['c'][1])
        return [{'k': 'IfStmt', 'ln': st.get('ln'), 'col': st.get('col'), 'cond': c['c'][0],
                 'then': dict(st, c=[st['c'][0], c['c'][1]]), 'else': dict(st, c=[st['c'][0], c['c'][2]])}]
    return [st]
