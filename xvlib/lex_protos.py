"""E6 - foreign prototype readers (Fortran BIND(C) interfaces, Pascal externals, Cython cdef extern,
the XRL_FUNCTIONS tables of the two generate-code.py scripts) and the mapping of C types to the
abstract 'shapes' the per-language tables are written against.

Shapes:  int  double  float  void  size  char*  int*  double*  ptr* (pointer to pointer)
         struct:<name>   struct:<name>*   ptr (untyped pointer)  enum:<name>
"""
import ast
import re

from .lex_bindings import _read, fortran_logical_lines, pascal_strip_comments


def c_shape(t):
    """Canonical clang type spelling -> shape."""
    t = t.strip()
    t = re.sub(r'\bconst\b', '', t).strip()
    t = re.sub(r'\s+', ' ', t)
    t = re.sub(r'\s*\[\s*\d*\s*\]$', ' *', t)   # array parameter spelling
    if t in ('int', 'double', 'float', 'void'):
        return t
    if t in ('unsigned long', 'size_t'):
        return 'size'
    if t == 'xrl_error_code' or t.startswith('enum '):
        return 'enum:' + t.replace('enum ', '')
    m = re.match(r'^(.*?)\s*(\*+)$', t)
    if m:
        base, stars = m.group(1).strip(), m.group(2)
        if len(stars) >= 2:
            return 'ptr*:' + _base_name(base)
        if base == 'char':
            return 'char*'
        if base in ('int', 'double', 'float'):
            return base + '*'
        if base == 'void':
            return 'ptr'
        return 'struct:' + _base_name(base) + '*'
    return 'struct:' + _base_name(t)


def _base_name(b):
    b = b.replace('struct ', '').strip()
    return {'_xrl_error': 'xrl_error'}.get(b, b)


# ---------------------------------------------------------------------------------------------
# Fortran

def fortran_interfaces(path):
    """All procedures with BIND(C,NAME='...') : list of dict(cname, fname, kind, args[(name, shape)], ret, line)."""
    lines = fortran_logical_lines(path)
    out = []
    i = 0
    while i < len(lines):
        ln, txt = lines[i]
        i += 1
        if txt.startswith('#'):
            continue
        m = re.search(r"BIND\s*\(\s*C\s*,\s*NAME\s*=\s*'(\w+)'\s*\)", txt, re.I)
        if not m:
            continue
        h = re.match(r'^\s*(?:(?:PURE|ELEMENTAL|RECURSIVE)\s+)*(FUNCTION|SUBROUTINE)\s+(\w+)\s*(?:\(([^)]*)\))?', txt, re.I)
        if not h:
            continue
        kind, fname = h.group(1).upper(), h.group(2)
        args = [a.strip() for a in (h.group(3) or '').split(',') if a.strip()]
        r = re.search(r'RESULT\s*\(\s*(\w+)\s*\)', txt, re.I)
        resvar = (r.group(1) if r else fname)
        decl = {}
        while i < len(lines):
            ln2, t2 = lines[i]
            i += 1
            if re.match(r'^\s*END\s*(FUNCTION|SUBROUTINE)', t2, re.I):
                break
            d = re.match(r'^\s*(INTEGER|REAL|TYPE|CHARACTER|LOGICAL)\s*(\([^)]*\))?\s*((?:,\s*[A-Za-z]+(?:\s*\([^)]*\))?\s*)*)::\s*(.+)$', t2, re.I)
            if not d:
                continue
            base = d.group(1).upper()
            kindspec = (d.group(2) or '').upper().replace(' ', '')
            attrs = d.group(3).upper().replace(' ', '')
            for nm in re.split(r',(?![^()]*\))', d.group(4)):
                nm = nm.strip()
                nm0 = re.sub(r'\(.*$', '', nm).strip()
                dimension = 'DIMENSION' in attrs or '(' in nm
                decl[nm0.upper()] = (base, kindspec, attrs, dimension)

        def shape(v, is_result=False):
            if v.upper() not in decl:
                return '?'
            base, ks, attrs, dim = decl[v.upper()]
            byval = 'VALUE' in attrs or is_result
            if base == 'INTEGER':
                s = 'size' if 'C_SIZE_T' in ks else 'int' if ('C_INT' in ks or 'KIND(' in ks) else '?int' + ks
            elif base == 'REAL':
                s = 'double' if 'C_DOUBLE' in ks else 'float' if 'C_FLOAT' in ks else '?real' + ks
            elif base == 'CHARACTER':
                return 'char*'
            elif base == 'TYPE':
                tn = ks.strip('()')
                if tn == 'C_PTR':
                    return 'ptr' if byval else 'ptr*:?'
                tn = re.sub(r'_C$', '', tn, flags=re.I)
                return ('struct:%s' % tn) if byval else ('struct:%s*' % tn)
            else:
                s = '?' + base
            if dim or not byval:
                return s + '*'
            return s

        out.append({'cname': m.group(1), 'fname': fname, 'kind': kind,
                    'args': [(a, shape(a)) for a in args],
                    'ret': 'void' if kind == 'SUBROUTINE' else shape(resvar, True), 'line': ln})
    return out


# ---------------------------------------------------------------------------------------------
# Pascal

PAS_TYPES = {
    'longint': 'int', 'integer': 'int', 'double': 'double', 'single': 'float', 'pansichar': 'char*',
    'ppansichar': 'ptr*:char', 'pointer': 'ptr', 'ppxrl_error': 'ptr*:xrl_error', 'pxrl_error': 'struct:xrl_error*',
    'xrlcomplex': 'struct:xrlComplex',
}
PAS_RECORD_PTRS = {
    'pcompounddata': 'compoundData', 'pcompounddatanist': 'compoundDataNIST', 'pradionuclidedata': 'radioNuclideData',
    'pcrystalstruct': 'Crystal_Struct', 'pcrystalarray': 'Crystal_Array', 'pcrystalatom': 'Crystal_Atom',
}


def pascal_shape(tname, var):
    t = tname.strip().lower()
    if t in PAS_TYPES:
        s = PAS_TYPES[t]
    elif t in PAS_RECORD_PTRS:
        s = 'struct:%s*' % PAS_RECORD_PTRS[t]
    else:
        s = '?' + tname
    if var:
        if s in ('int', 'double', 'float'):
            return s + '*'
        return 'ptr*:' + s
    return s


def pascal_externals(path):
    txt = pascal_strip_comments(_read(path))
    out = []
    rx = re.compile(r"\b(function|procedure)\s+(\w+)\s*(?:\(([^)]*)\))?\s*(?::\s*(\w+))?\s*;\s*cdecl\s*;\s*external\s+\w+\s+name\s+'(\w+)'",
                    re.I | re.S)
    for m in rx.finditer(txt):
        kind, pname, params, ret, cname = m.group(1).lower(), m.group(2), m.group(3) or '', m.group(4), m.group(5)
        args = []
        for grp in params.split(';'):
            grp = grp.strip()
            if not grp:
                continue
            var = False
            g = re.match(r'^(var|const|out)\s+(.*)$', grp, re.I | re.S)
            if g:
                var = g.group(1).lower() in ('var', 'out')
                grp = g.group(2)
            names, _, ty = grp.partition(':')
            for nm in names.split(','):
                args.append((nm.strip(), pascal_shape(ty, var)))
        out.append({'cname': cname, 'fname': pname, 'kind': kind, 'args': args,
                    'ret': 'void' if kind == 'procedure' else pascal_shape(ret or '?', False),
                    'line': txt.count('\n', 0, m.start()) + 1})
    return out


# ---------------------------------------------------------------------------------------------
# Cython

def cython_externs(path):
    """Function declarations inside `cdef extern from "<header>"` blocks of a .pxd."""
    out = []
    header = None
    for i, raw in enumerate(_read(path).split('\n'), 1):
        s = raw.split('#', 1)[0].rstrip()
        m = re.match(r'^cdef\s+extern\s+from\s+"([^"]+)"', s)
        if m:
            header = m.group(1)
            continue
        if s and not s[0].isspace():
            header = None
            continue
        if header is None:
            continue
        m = re.match(r'^\s+([\w\s\*]+?[\s\*])(\w+)\s*\(([^)]*)\)\s*(?:nogil)?\s*$', s)
        if not m:
            continue
        ret, name, params = m.group(1).strip(), m.group(2), m.group(3).strip()
        args = []
        if params and params != 'void':
            for p in params.split(','):
                p = p.strip()
                pm = re.match(r'^(.*?)(\w+)?\s*(\[\s*\])?$', p)
                # split "type name": the last identifier is the name unless the text is a bare type
                toks = re.findall(r'\w+|\*+|\[\]', p)
                if len(toks) >= 2 and re.match(r'^\w+$', toks[-1]) and toks[-1] not in ('int', 'double', 'char', 'float', 'void'):
                    ty = ' '.join(toks[:-1])
                    nm = toks[-1]
                elif len(toks) >= 3 and toks[-1] == '[]':
                    ty = ' '.join(toks[:-2]) + ' *'
                    nm = toks[-2]
                else:
                    ty = ' '.join(toks)
                    nm = ''
                args.append((nm, cy_shape(ty)))
        out.append({'cname': name, 'fname': name, 'kind': 'function', 'args': args, 'ret': cy_shape(ret),
                    'line': i, 'header': header})
    return out


def cy_shape(t):
    t = re.sub(r'\s+', ' ', t.replace('const ', '').strip())
    t = re.sub(r'\s*\*', ' *', t)
    t = re.sub(r'\* \*', '**', t)
    from_c = c_shape(t)
    return from_c


# ---------------------------------------------------------------------------------------------
# generate-code.py tables (read with ast; never executed)

def generator_table(path):
    tree = ast.parse(_read(path), path)
    for node in tree.body:
        if isinstance(node, ast.Assign) and any(isinstance(t, ast.Name) and t.id == 'XRL_FUNCTIONS' for t in node.targets):
            if not isinstance(node.value, ast.Dict):
                return None
            out = []
            for k, v in zip(node.value.keys, node.value.values):
                if not isinstance(k, ast.Constant) or not isinstance(v, ast.Dict):
                    return None
                args = []
                for ak, av in zip(v.keys, v.values):
                    if not isinstance(ak, ast.Constant) or not isinstance(av, ast.Name):
                        return None
                    args.append((ak.value, {'int': 'int', 'float': 'double', 'str': 'char*'}.get(av.id, '?' + av.id)))
                out.append({'cname': k.value, 'args': args, 'line': k.lineno})
            return out
    return None
