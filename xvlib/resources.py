"""Resource typestate over the abstract paths of E1 (C04 (c), C14, C18).

A resource is the result of an allocator call or of a project constructor (discovered: a function one of whose
value paths returns a fresh resource).  On every exit a live resource must have been released, returned, or
stored into caller-visible storage.  Fields: a resource stored into a field of another live local resource
becomes its child; children follow the owner when it escapes or is destroyed by a project destructor; a plain
free() of an owner whose child is still live leaks the child."""
import re

from .normform import Rat
from .facts import strip_casts, show

ALLOC = {'malloc', 'calloc', 'strdup', 'strndup', 'xrl_strdup', 'xrl_strndup', 'fopen', 'xrl_malloc', 'xrl_calloc'}
REALLOC = {'realloc', 'xrl_realloc'}
FREE = {'free', 'fclose', 'xrlFree'}
RES_RX = re.compile(r'\b(\w+)#(\d+)\(')


def res_syms(rat):
    """resource-like symbols (name#id(...)) mentioned as whole symbols in a Rat."""
    out = set()
    if rat is None:
        return out
    for s in rat.n.symbols() | rat.d.symbols():
        if RES_RX.match(s):
            out.add(s)
    return out


class ResourceModel:
    def __init__(self, summ):
        self.summ = summ
        self.ctors = set()
        self.dtors = {}       # name -> index of the pointer parameter it releases
        self._discover()

    def _discover(self):
        summ = self.summ
        # destructors: every path releases parameter p (free/dtor on the parameter itself), or returns early when p is NULL
        changed = True
        while changed:
            changed = False
            for name, f in summ.funcs.items():
                if name in self.dtors or name not in summ.paths:
                    continue
                for i, prm in enumerate(f['params']):
                    if not prm['T'].endswith('*') or prm['T'].endswith('**'):
                        continue
                    ok = bool(summ.paths[name])
                    rel_any = False
                    it = summ.interp[name]
                    for p in summ.paths[name]:
                        rel = False
                        for e in p.events:
                            if e.kind == 'call' and (e.name in FREE or e.name in self.dtors) and e.args and e.args[0] is not None and \
                                    e.args[0].canon() == prm['name']:
                                rel = True
                        if rel:
                            rel_any = True
                        elif not it.interval_of(Rat.sym(prm['name']), p).is_zero():
                            ok = False
                    if ok and rel_any and f['ret'] == 'void':
                        self.dtors[name] = i
                        changed = True
        # constructors: some value path returns a fresh resource
        changed = True
        while changed:
            changed = False
            for name, f in summ.funcs.items():
                if name in self.ctors or name not in summ.paths or not f['ret'].endswith('*'):
                    continue
                for p in summ.paths[name]:
                    if p.ret is None:
                        continue
                    for s in res_syms(p.ret):
                        fn = RES_RX.match(s).group(1)
                        if fn in ALLOC or fn in REALLOC or fn in self.ctors:
                            self.ctors.add(name)
                            changed = True
                            break
                    if name in self.ctors:
                        break

    def is_alloc(self, name):
        return name in ALLOC or name in self.ctors

    def analyse_path(self, fname, p):
        """Returns dict(leaks=[(sym, alloc_event)], double=[(sym, event)], uaf=[(sym,event)])."""
        summ = self.summ
        f = summ.funcs[fname]
        it = summ.interp[fname]
        params = {prm['name'] for prm in f['params']}
        live = {}          # sym -> alloc event
        dead = {}          # sym -> release event
        child_of = {}      # sym -> owner sym
        escaped = set()
        double, uaf = [], []
        field_of = {}      # lvalue key -> sym stored there
        for e in p.events:
            if e.kind == 'call':
                name = e.name
                # uses of dead resources
                for a in (e.args or []):
                    if a is None:
                        continue
                    c = a.canon()
                    if c in dead and not (name in FREE or name in self.dtors):
                        uaf.append((c, e))
                if name in FREE or name in self.dtors:
                    idx = self.dtors.get(name, 0)
                    if e.args and len(e.args) > idx and e.args[idx] is not None:
                        c = e.args[idx].canon()
                        if c in live:
                            dead[c] = e
                            ev = live.pop(c)
                            if name in self.dtors:
                                # destructor releases the children too
                                for ch in [k for k, o in child_of.items() if o == c]:
                                    if ch in live:
                                        dead[ch] = e
                                        live.pop(ch)
                        elif c in dead:
                            double.append((c, e))
                    continue
                if name == 'xrl_propagate_error' and e.args and len(e.args) > 1 and e.args[1] is not None:
                    c = e.args[1].canon()
                    if c in live:
                        escaped.add(c)
                        live.pop(c)
                    continue
                if name in REALLOC:
                    if e.args and e.args[0] is not None:
                        c = e.args[0].canon()
                        if c in live:
                            live.pop(c)
                            # the block continues under the new name; children stay attached to the new block
                            for ch, o in list(child_of.items()):
                                if o == c and e.result is not None:
                                    child_of[ch] = e.result.canon()
                    if e.result is not None:
                        live[e.result.canon()] = e
                    continue
                if self.is_alloc(name) and e.result is not None:
                    live[e.result.canon()] = e
                    continue
                if name == 'vasprintf' or name == 'asprintf':
                    # allocates into its first (out) argument
                    a0 = e.argnodes[0] if e.argnodes else None
                    if a0 is not None:
                        a0 = strip_casts(a0)
                        if a0.get('k') == 'UnaryOperator' and a0.get('op') == '&':
                            t = a0['c'][0]
                            sym = '%s@%d' % (t.get('name'), e.id)
                            live[sym] = e
                    continue
            elif e.kind == 'store':
                if e.value is None:
                    continue
                for s in res_syms(e.value) | ({e.value.canon()} if e.value.canon() in live else set()):
                    if s not in live:
                        continue
                    lv = e.lv or ''
                    owner = None
                    for o in list(live):
                        if o != s and (lv.startswith('(' + o + ').') or lv.startswith('(' + o + ')[') or lv.startswith('*(' + o + ')')):
                            owner = o
                    if owner:
                        child_of[s] = owner
                        field_of[lv] = s
                    else:
                        base = re.match(r'^\*?\(?(\w+)', lv)
                        b = base.group(1) if base else ''
                        root = lv.lstrip('*(&')
                        rootname = re.match(r'^(\w+)', root)
                        rn = rootname.group(1) if rootname else ''
                        if rn in params or self._is_global(fname, rn) or self._derived_from_param(lv, params):
                            escaped.add(s)
                            live.pop(s, None)
                            for ch in [k for k, o in child_of.items() if o == s]:
                                live.pop(ch, None)
                        else:
                            # stored into a local aggregate (e.g. key2.x): stays tracked under its own name
                            pass
        # at exit
        returned = set()
        if p.ret is not None:
            returned = res_syms(p.ret) | ({p.ret.canon()} if p.ret.canon() in live else set())
        for s in list(returned):
            live.pop(s, None)
            for ch in [k for k, o in child_of.items() if o == s]:
                live.pop(ch, None)
        # returned aggregate by value whose fields hold resources (struct return) - fields of the returned local
        leaks = []
        for s, ev in live.items():
            # known NULL on this path?
            if it.interval_of(Rat.sym(s), p).is_zero():
                continue
            if ev.name in ('vasprintf', 'asprintf') and ev.result is not None:
                riv = it.interval_of(ev.result, p)
                if riv.hi is not None and riv.hi < 0:
                    continue        # the call failed: nothing was allocated
            owner = child_of.get(s)
            if owner and (owner in returned or owner in escaped):
                continue
            leaks.append((s, ev))
        # plain free of an owner with live children is reported as the child's leak (it is in `live`)
        return {'leaks': leaks, 'double': double, 'uaf': uaf}

    def _is_global(self, fname, name):
        return bool(self.summ.prog.globals_named(name))

    @staticmethod
    def _derived_from_param(lv, params):
        m = re.match(r'^[\*\(&]*(\w+)', lv)
        return bool(m and m.group(1) in params)
