"""E5 - initialisers as data: evaluate the initialiser tree of a hand-written table into Python values,
and a tokenising reader for the generated unit src/xrayglob_inline.c."""
import re
from fractions import Fraction

from .facts import parse_number
from .frontend import AnalysisBroken


class Ref:
    """Reference to another global object (array decays to pointer)."""
    def __init__(self, name):
        self.name = name

    def __repr__(self):
        return 'Ref(%s)' % self.name


class Lit:
    """A numeric literal with provenance: value (int/Fraction), macro name written at the use site, text."""
    __slots__ = ('value', 'macro', 'text')

    def __init__(self, value, macro=None, text=None):
        self.value, self.macro, self.text = value, macro, text

    def __repr__(self):
        return 'Lit(%s%s)' % (self.value, ', ' + self.macro if self.macro else '')


def evaluate(node, keep_lit=False):
    """Initialiser tree -> nested lists / int / Fraction / str / Ref / None.  With keep_lit, numbers are Lit."""
    if node is None:
        return None
    k = node.get('k')
    c = node.get('c', [])
    if k == 'InitListExpr':
        return [evaluate(x, keep_lit) for x in c]
    if k == 'StringLiteral':
        return node.get('val')
    if k == 'ImplicitValueInitExpr':
        return 0
    if k in ('CStyleCastExpr',):
        return evaluate(c[0], keep_lit)
    macro = node['m'][-1] if node.get('m') else None
    if 'v' in node and k != 'DeclRefExpr' or ('v' in node and node.get('cls') == 'enumc'):
        return Lit(node['v'], macro) if keep_lit else node['v']
    if k == 'FloatingLiteral':
        try:
            v = parse_number(node.get('sp', node['val']))
        except ValueError:
            v = Fraction(node['val'])
        return Lit(v, macro, node.get('sp')) if keep_lit else v
    if k == 'IntegerLiteral':
        return Lit(node['val'], macro) if keep_lit else node['val']
    if k == 'UnaryOperator' and node.get('op') == '-':
        v = evaluate(c[0], keep_lit)
        if isinstance(v, Lit):
            return Lit(-v.value, macro or v.macro, v.text)
        return -v
    if k == 'UnaryOperator' and node.get('op') == '&':
        return evaluate(c[0], keep_lit)
    if k == 'DeclRefExpr':
        return Ref(node['name'])
    if k == 'BinaryOperator':
        a, b = evaluate(c[0]), evaluate(c[1])
        op = node['op']
        try:
            if op == '+':
                return a + b
            if op == '-':
                return a - b
            if op == '*':
                return a * b
            if op == '/':
                return Fraction(a) / Fraction(b)
        except Exception:
            pass
    raise AnalysisBroken('initialiser contains an expression the reader does not understand: %s at line %s'
                         % (k, node.get('ln')))


# -------------------------------------------------------------------------------------------------
# generated unit

TOKEN = re.compile(r'[A-Za-z_]\w*|[-+]?(?:\d+\.?\d*|\.\d+)(?:[eE][-+]?\d+)?|[{}\[\]=;,*]|"(?:[^"\\]|\\.)*"')


def read_generated(path):
    """Reads xrayglob_inline.c as emitted by pr_data.c:  `[static] [const] type [*]name[dims...] = {...};`
    Returns dict name -> dict(type, dims, ptr, value) where value is nested lists of number-strings, identifiers
    ('NULL' or names of other objects) and strings."""
    with open(path, encoding='latin-1') as fh:
        txt = fh.read()
    # strip comments and preprocessor lines
    txt = re.sub(r'/\*.*?\*/', ' ', txt, flags=re.S)
    txt = re.sub(r'^\s*#.*$', ' ', txt, flags=re.M)
    out = {}
    pos = 0
    n = len(txt)
    decl = re.compile(r'\s*((?:static\s+|const\s+|struct\s+|unsigned\s+)*\w+)\s*(\*?)\s*(\w+)\s*((?:\[[^\]]*\])*)\s*(=?)\s*', re.S)
    while True:
        m = decl.match(txt, pos)
        if not m:
            rest = txt[pos:].strip()
            if rest:
                raise AnalysisBroken('generated unit: text the reader does not understand near: %r' % rest[:120])
            break
        ty, ptr, name, dims = m.group(1), m.group(2), m.group(3), m.group(4)
        pos = m.end()
        if m.group(5):
            val, pos = _parse_value(txt, pos)
        else:
            val = None
        m2 = re.compile(r'\s*;').match(txt, pos)
        if not m2:
            raise AnalysisBroken('generated unit: missing ; after %s' % name)
        pos = m2.end()
        out[name] = {'type': re.sub(r'\s+', ' ', ty.strip()), 'ptr': bool(ptr),
                     'dims': [d.strip() for d in re.findall(r'\[([^\]]*)\]', dims)], 'value': val}
    return out


_ws = re.compile(r'\s*')
_atom = re.compile(r'[-+]?(?:\d+\.?\d*|\.\d+)(?:[eE][-+]?\d+)?f?|[A-Za-z_&][\w]*|"(?:[^"\\]|\\.)*"')


def _parse_value(txt, pos):
    pos = _ws.match(txt, pos).end()
    if txt[pos] == '{':
        pos += 1
        items = []
        while True:
            pos = _ws.match(txt, pos).end()
            if txt[pos] == '}':
                return items, pos + 1
            v, pos = _parse_value(txt, pos)
            items.append(v)
            pos = _ws.match(txt, pos).end()
            if txt[pos] == ',':
                pos += 1
    m = _atom.match(txt, pos)
    if not m:
        raise AnalysisBroken('generated unit: unexpected text %r' % txt[pos:pos + 60])
    return m.group(0), m.end()
