"""Semantic comparison of a C function with its Java twin: both bodies are run through the abstract interpreter E1 (the Java syntax
trees are dumped in the node vocabulary of the C extractor, so the same engine reads them), and the SETS of value-returning paths are
compared: for each path the exact rational normal form of the returned expression - locals and temporaries substituted away, helper
functions inlined, operands in canonical order - together with what the path establishes about the sign of the returned value.

Unlike a comparison of source fingerprints this is insensitive to how either side is written: renaming or introducing locals,
hoisting sub-expressions, reordering guards, for/while, extracting helpers leave the path set unchanged, while a changed operand,
constant, table, callee or acceptance test changes it."""
import re
from fractions import Fraction

from .absint import Interp, Inconclusive
from .normform import NotInClass, Rat


def _split_top(txt, sep):
    out, depth, cur, i = [], 0, '', 0
    while i < len(txt):
        ch = txt[i]
        if ch in '([':
            depth += 1
        elif ch in ')]':
            depth -= 1
        if depth == 0 and txt.startswith(sep, i):
            out.append(cur)
            cur = ''
            i += len(sep)
            continue
        cur += ch
        i += 1
    out.append(cur)
    return out


def resort(txt):
    """canonical order of the terms of a sum and of the factors of a product, re-established after named constants were replaced by
    their values (the normal form sorts by the text of the symbols)"""
    txt = txt.strip()
    # (num)/(den)
    if txt.startswith('('):
        depth = 0
        for i, ch in enumerate(txt):
            depth += ch in '(['
            depth -= ch in ')]'
            if depth == 0:
                if txt[i + 1:i + 3] == '/(' and txt.endswith(')'):
                    return '(%s)/(%s)' % (resort(txt[1:i]), resort(txt[i + 3:-1]))
                break
    terms = _split_top(txt, ' + ')
    out = []
    for t in terms:
        facs = _split_top(t, '*')
        facs2 = []
        for f_ in facs:
            m = re.match(r'^([A-Za-z_][\w.]*)\((.*)\)(\^\d+)?$', f_)
            if m and _balanced(m.group(2)):
                args = _split_top(m.group(2), ',')
                f_ = '%s(%s)%s' % (m.group(1), ','.join(resort(a) if (' + ' in a or '*' in a) else a for a in args), m.group(3) or '')
            facs2.append(f_)
        num = [x for x in facs2 if re.match(r'^-?\d+(/\d+)?$', x)]
        rest = sorted(x for x in facs2 if x not in num)
        out.append('*'.join(num + rest))
    return ' + '.join(sorted(out))


def _balanced(t):
    d = 0
    for ch in t:
        d += ch in '(['
        d -= ch in ')]'
        if d < 0:
            return False
    return d == 0


class TwinPaths:
    def __init__(self, prog, cside, jside, strip_err_text, cvalue, jvalue):
        self.prog = prog
        self.C = cside
        self.J = jside
        self.strip_err = strip_err_text
        self.cvalue = cvalue
        self.jvalue = jvalue
        self._cache = {}
        # dimension constants of the flat Java tables: T[DIM*Z + x] is T[Z][x]
        self.dims = ('SHELLNUM', 'SHELLNUM_K', 'SHELLNUM_A', 'SHELLNUM_C', 'LINENUM', 'TRANSNUM', 'AUGERNUM')
        # values of the Java integer constants that conditions compare parameters with (shell, line, transition and Auger macros)
        self.jints = {}
        for k in list(jside.consts):
            if re.search(r'_(SHELL|LINE|TRANS|AUGER)$', k):
                v = self._jint(k)
                if v is not None:
                    self.jints[k] = v

    def _jint(self, name, depth=0):
        fl = self.J.consts.get(name)
        if not fl or depth > 4:
            return None
        i = fl.get('init') or {}
        if isinstance(i.get('v'), int):
            return i['v']
        if i.get('k') == 'IntegerLiteral':
            return int(i['val'])
        if i.get('k') == 'UnaryOperator' and i.get('op') == '-' and (i['c'][0].get('k') == 'IntegerLiteral'):
            return -int(i['c'][0]['val'])
        if i.get('k') == 'DeclRefExpr':
            return self._jint(i.get('name'), depth + 1)
        return None

    def const_value(self, name):
        v = None
        try:
            v = self.prog.macro_value(name)
        except Exception:
            v = None
        if v is None:
            v = self.jvalue(self.J, name)
        return v

    def normalise(self, txt, side, recv=None):
        if side == 'c':
            txt = self.strip_err(txt)
            if recv:
                txt = self.drop_receiver(txt, recv)
        txt = re.sub(r'_catch\(', '(', txt)
        txt = self.unparen(txt)
        txt = re.sub(r'#\d+', '', txt)
        txt = re.sub(r'(\w)@L?\d+', r'\1', txt)
        txt = re.sub(r'\b(\w+?)_arr(2?)\b', r'\1\2', txt)
        txt = txt.replace('Math.', '').replace('Xraylib.', '')
        # flat indices of the Java tables
        for d in self.dims:
            txt = re.sub(r'\[%s\*(\w+) \+ ([^\[\]]+)\]' % d, r'[\1][\2]', txt)
            txt = re.sub(r'\[([^\[\]]+) \+ %s\*(\w+)\]' % d, r'[\2][\1]', txt)
        txt = re.sub(r'\[get_kissel_offset\((\w+),([^,\)]+),([^,\)]+)\)\]', r'[\1][\2][\3]', txt)
        for d in self.dims:
            # T[-1*-89 + LINENUM*Z + -1]  (slot of line macro -89)  is  T[Z][88];  T[LINENUM*Z] is T[Z][0]
            txt = re.sub(r'\[-1\*(-\d+) \+ %s\*(\w+) \+ -1\]' % d, lambda m: '[%s][%d]' % (m.group(2), -int(m.group(1)) - 1), txt)
            txt = re.sub(r'\[(\d+) \+ %s\*(\w+)\]' % d, r'[\2][\1]', txt)
            txt = re.sub(r'\[%s\*(\w+)\]' % d, r'[\1][0]', txt)
        # the Java side reads the atomic weight table directly where C calls the accessor (whose failure cannot occur after the Z guard)
        txt = re.sub(r'\bAtomicWeight\[(\w+)\]', r'AtomicWeight(\1)', txt)
        # named integer constants -> values (both sides)

        def val(m):
            v = self.const_value(m.group(0))
            if v is None:
                return m.group(0)
            f = Fraction(v)
            return str(f.numerator) if f.denominator == 1 else '%d/%d' % (f.numerator, f.denominator)
        txt = re.sub(r'\b[A-Z][A-Z0-9]*(?:_[A-Z0-9]+)+\b', val, txt)
        txt = re.sub(r'\[-1\*(-\d+) \+ -1\]', lambda m: '[%d]' % (-int(m.group(1)) - 1), txt)
        try:
            return resort(txt)
        except Exception:
            return txt

    @staticmethod
    def unparen(txt):
        from .absint import unparen
        return unparen(txt)

    def sign_class(self, it, p):
        iv = it.interval_of(p.ret, p)
        if iv.lo is not None and (iv.lo > 0 or (iv.lo == 0 and iv.los)):
            return '>0'
        if iv.hi is not None and (iv.hi < 0 or (iv.hi == 0 and iv.his)):
            return '<0'
        if iv.lo is not None and iv.lo >= 0 and not iv.excludes_zero():
            return '>=0'
        # "!= 0" is how C spells "the callee did not fail" where Java relies on the callee's exception: not a difference in itself
        return 'free'

    def resolve(self, side, f):
        """(body to read, Java helper methods to inline, name of the C parameter that is the Java receiver)

        static f(obj, args) { return obj.g(args); } in Xraylib.java: the method g of obj's class is the body that the C function is the
        twin of; its private helpers (cosd, sind, pow2: macros in C) are inlined; the fields it reads are the members of the record
        that C receives as its first parameter."""
        if side == 'j':
            d = self.J.delegate(f)
            if d:
                cls, m = d
                helpers = {h['name']: h for h in cls['functions'] if h['name'] not in self.C.funcs and h['name'] not in self.J.funcs
                           and h.get('body') and h is not m}
                return m, helpers, None
            return f, {}, None
        jf = self.J.funcs.get(f.get('name'))
        if jf is not None and self.J.delegate(jf) and f.get('params'):
            return f, {}, f['params'][0]['name']
        return f, {}, None

    @staticmethod
    def drop_receiver(txt, recv):
        """crystal.a -> a, g(crystal,x) -> g(x), g(crystal) -> g(): the C spelling of what Java reads from / calls on `this`"""
        txt = re.sub(r'\b%s\.' % re.escape(recv), '', txt)
        txt = re.sub(r'\(%s,' % re.escape(recv), '(', txt)
        txt = re.sub(r'\(%s\)' % re.escape(recv), '()', txt)
        return txt

    def forms(self, side, f):
        key = (side, f.get('name'), id(f))
        if key in self._cache:
            return self._cache[key]
        f, helpers, recv = self.resolve(side, f)
        f = dict(f)
        f.setdefault('unit', 'java/Xraylib.java' if side == 'j' else f.get('unit'))
        f.setdefault('rel', f['unit'])
        f.setdefault('ret', 'double')
        it = Interp(self.prog, f, max_paths=3000)
        it.keep_macros = True
        if side == 'j':
            it.const_globals = self.jints
            it.extra_inlinable = helpers
        if recv:
            it.receiver = recv
        paths = it.run()
        out = set()
        for p in paths:
            if p.ret is None or it.is_zero(p.ret, p):
                continue
            c = self.normalise(p.ret.canon(), side, recv)
            if re.search(r'\b(ret|cond|initlist)\b', c) or '?uninit' in c:
                raise NotInClass('opaque return value in %s' % f.get('name'))
            out.add('%s   [value %s]' % (c, self.sign_class(it, p)))
        self._cache[key] = out
        return out

    def reference_forms(self, side, f):
        """forms() plus, per path, the calls made on it with their (normalised) arguments: for functions whose result reaches the return
        statement through an out-parameter (the spline callers) the tables that are read are only visible in the call"""
        f, helpers, recv = self.resolve(side, f)
        f2 = dict(f)
        f2.setdefault('unit', 'java/Xraylib.java' if side == 'j' else f.get('unit'))
        f2.setdefault('rel', f2['unit'])
        f2.setdefault('ret', 'double')
        it = Interp(self.prog, f2, max_paths=3000)
        it.keep_macros = True
        if side == 'j':
            it.const_globals = self.jints
            it.extra_inlinable = helpers
        if recv:
            it.receiver = recv
        out = set()
        for p in it.run():
            if p.ret is None or it.is_zero(p.ret, p):
                continue
            c = self.normalise(p.ret.canon(), side, recv)
            calls = set()
            for e in p.events:
                if e.kind == 'call' and e.name and not e.name.startswith('xrl_') and e.name not in ('malloc', 'free', 'calloc', 'realloc', 'memcpy'):
                    args = ','.join(a.canon() if a is not None else '?' for a in (e.args or []))
                    calls.add(self.normalise('%s(%s)' % (e.name, args), side, recv))
            # the range of every integer parameter on this path (which shells / lines / elements take this branch)
            rng = []
            for prm in f2.get('params', []):
                if prm.get('T') in ('int', 'long', 'short'):
                    iv = it.interval_of(Rat.sym(prm['name']), p)
                    if iv.lo is not None or iv.hi is not None or iv.ne:
                        rng.append('%s in [%s, %s]%s' % (prm['name'], iv.lo, iv.hi, (' except %s' % sorted(iv.ne)) if iv.ne else ''))
            # what the path stores into records and arrays (a structure-valued result is built that way: F_H.re, F_H.im)
            stores = set()
            for e in p.events:
                if e.kind == 'store' and e.lv and hasattr(e.value, 'canon'):
                    stores.add('%s = %s' % (self.normalise(e.lv, side, recv), self.normalise(e.value.canon(), side, recv)))
                elif e.kind == 'iter-end' and isinstance(e.args, dict):
                    # accumulators: what one iteration adds to a local that is carried round the loop (its name does not matter;
                    # counters and temporaries that are recomputed in every iteration are not accumulators)
                    for vname, (start, end) in e.args.items():
                        if end is None or not hasattr(end, 'canon'):
                            continue
                        sc, ec = start.canon(), end.canon()
                        if sc not in ec or ec == sc:
                            continue
                        try:
                            step = (end - start)
                            if step.n.is_const() and step.d.is_const():
                                continue
                        except Exception:
                            pass
                        stores.add('ACC = %s' % self.normalise(ec.replace(sc, 'ACC'), side, recv))
            out.add('%s   [value %s]   calls %s   stores %s   when %s' % (c, self.sign_class(it, p), sorted(calls), sorted(stores), rng))
        return sorted(out)

    def compare(self, name):
        """(equal?, only in C, only in Java) or None when one side is outside what the engine can read"""
        try:
            a = self.forms('c', self.C.funcs[name])
            b = self.forms('j', self.J.funcs[name])
        except (NotInClass, Inconclusive, KeyError, RecursionError):
            return None
        if not a and not b:
            return None
        return a == b, sorted(a - b), sorted(b - a)
