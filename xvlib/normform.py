"""E2 - exact rational normal form of C arithmetic expressions.

An expression tree (as emitted by xrl-facts) becomes a rational function P/Q over symbols with exact
Fraction coefficients.  Symbols: parameters and locals without a substitution, table reads, member
reads, calls (with their arguments normalised recursively), named constants (a macro whose body is one
numeric literal is kept as a symbol, e.g. AVOGNUM, MEC2, PI).  Equality is cross-multiplication of
multivariate polynomials: exact, no sampling.  sin(x)^2 is rewritten to 1-cos(x)^2 and sqrt(x)^2 to x.
Integer division and anything else outside the class becomes an opaque symbol (never a wrong answer:
two opaque symbols are equal only if their canonical text is equal).
"""
from fractions import Fraction

from .facts import parse_number


class Poly:
    __slots__ = ('t',)

    def __init__(self, terms=None):
        self.t = {k: v for k, v in (terms or {}).items() if v != 0}

    @staticmethod
    def const(c):
        return Poly({(): Fraction(c)})

    @staticmethod
    def sym(s):
        return Poly({((s, 1),): Fraction(1)})

    def __add__(self, o):
        r = dict(self.t)
        for k, v in o.t.items():
            r[k] = r.get(k, 0) + v
        return Poly(r)

    def __neg__(self):
        return Poly({k: -v for k, v in self.t.items()})

    def __sub__(self, o):
        return self + (-o)

    def __mul__(self, o):
        r = {}
        for k1, v1 in self.t.items():
            for k2, v2 in o.t.items():
                d = dict(k1)
                for s, p in k2:
                    d[s] = d.get(s, 0) + p
                k = tuple(sorted((s, p) for s, p in d.items() if p))
                r[k] = r.get(k, 0) + v1 * v2
        return Poly(r)

    def __eq__(self, o):
        return self.t == o.t

    def is_zero(self):
        return not self.t

    def is_const(self):
        return all(k == () for k in self.t)

    def const_value(self):
        return self.t.get((), Fraction(0))

    def symbols(self):
        s = set()
        for k in self.t:
            for x, _ in k:
                s.add(x)
        return s

    def monomials(self):
        return self.t

    def subst_pow(self, sym, power, repl):
        """Replace sym^power (as often as it divides each monomial) by polynomial repl."""
        out = Poly()
        for k, v in self.t.items():
            d = dict(k)
            e = d.get(sym, 0)
            q, r = divmod(e, power)
            if q == 0:
                out = out + Poly({k: v})
                continue
            if r:
                d[sym] = r
            else:
                d.pop(sym, None)
            base = Poly({tuple(sorted(d.items())): v})
            for _ in range(q):
                base = base * repl
            out = out + base
        return out

    def __repr__(self):
        if not self.t:
            return '0'
        parts = []
        for k, v in sorted(self.t.items(), key=lambda kv: str(kv[0])):
            m = '*'.join(s if p == 1 else '%s^%d' % (s, p) for s, p in k)
            if not m:
                parts.append(str(v))
            elif v == 1:
                parts.append(m)
            else:
                parts.append('%s*%s' % (v, m))
        return ' + '.join(parts)


class Rat:
    __slots__ = ('n', 'd')

    def __init__(self, n, d=None):
        self.n = n
        self.d = d if d is not None else Poly.const(1)

    @staticmethod
    def const(c):
        return Rat(Poly.const(c))

    @staticmethod
    def sym(s):
        return Rat(Poly.sym(s))

    def __add__(self, o):
        if self.d == o.d:
            return Rat(self.n + o.n, self.d)
        return Rat(self.n * o.d + o.n * self.d, self.d * o.d)

    def __neg__(self):
        return Rat(-self.n, self.d)

    def __sub__(self, o):
        return self + (-o)

    def __mul__(self, o):
        return Rat(self.n * o.n, self.d * o.d)

    def __truediv__(self, o):
        return Rat(self.n * o.d, self.d * o.n)

    def equals(self, o):
        if reduce_trig(self.d).is_zero() or reduce_trig(o.d).is_zero():
            return False        # an expression with a vanishing denominator equals nothing
        return reduce_trig(self.n * o.d) == reduce_trig(o.n * self.d)

    def is_zero(self):
        return reduce_trig(self.n).is_zero()

    def symbols(self):
        return self.n.symbols() | self.d.symbols()

    def canon(self):
        """Canonical text (used when this value becomes an argument of an opaque symbol)."""
        n, d = reduce_trig(self.n), reduce_trig(self.d)
        if d.is_zero():
            return '(%r)/0' % n
        if d.is_const() and not d.is_zero():
            c = d.const_value()
            n = Poly({k: v / c for k, v in n.t.items()})
            return repr(n)
        # normalise sign/scale by the leading coefficient of d
        lead = sorted(d.t.items(), key=lambda kv: str(kv[0]))[0][1]
        n = Poly({k: v / lead for k, v in n.t.items()})
        d = Poly({k: v / lead for k, v in d.t.items()})
        return '(%r)/(%r)' % (n, d)

    def __repr__(self):
        return self.canon()


def subst(rat, mapping):
    """Substitute symbols by Rats (exact)."""
    def ev(poly):
        tot = Rat.const(0)
        for mon, co in poly.t.items():
            term = Rat.const(co)
            for s, pw in mon:
                v = mapping.get(s)
                if v is None:
                    v = Rat.sym(s)
                for _ in range(pw):
                    term = term * v
            tot = tot + term
        return tot
    return ev(reduce_trig(rat.n)) / ev(reduce_trig(rat.d))


def reduce_trig(p):
    """sin(x)^2 -> 1 - cos(x)^2 ; sqrt(x)^2 -> x is handled at construction (pow/mul of sqrt symbols)."""
    for s in list(p.symbols()):
        if s.startswith('sin(') and s.endswith(')'):
            c = 'cos(' + s[4:]
            p = p.subst_pow(s, 2, Poly.const(1) - Poly.sym(c) * Poly.sym(c))
    return p


class NotInClass(Exception):
    pass


INT_TYPES = ('int', 'long', 'unsigned int', 'unsigned long', 'short', 'char', 'unsigned char', 'long long',
             'unsigned long long', 'size_t')


class Normalizer:
    """to_rat(node): env maps declaration id -> Rat (substituted definitions)."""

    def __init__(self, prog, env=None, symbol_hook=None, keep_macros=True):
        self.prog = prog
        self.env = dict(env or {})
        self.hook = symbol_hook
        self.keep_macros = keep_macros
        self.sqrt_args = {}

    def named_constant(self, node):
        if not self.keep_macros:
            return None
        for name in node.get('m', []):
            m = self.prog.macro(name)
            if not m or m['fl']:
                continue
            body = [t for t in m['body'] if t not in ('(', ')')]
            if len(body) == 1 or (len(body) == 2 and body[0] in '+-'):
                try:
                    parse_number(body[-1])
                except ValueError:
                    continue
                return name
            return None
        return None

    def to_rat(self, n):
        k = n.get('k')
        c = n.get('c', [])
        if self.hook:
            r = self.hook(n, self)
            if r is not None:
                return r
        if k == 'ParenExpr' and c:
            return self.to_rat(c[0])
        if k in ('IntegerLiteral', 'FloatingLiteral'):
            nm = self.named_constant(n)
            if nm:
                return Rat.sym(nm)
            if k == 'IntegerLiteral':
                return Rat.const(n['val'])
            try:
                return Rat.const(parse_number(n.get('sp', n['val'])))
            except ValueError:
                return Rat.const(Fraction(n['val']))
        if k == 'DeclRefExpr':
            if n.get('cls') == 'enumc' and 'v' in n:
                return Rat.const(n['v'])
            if n['id'] in self.env:
                return self.env[n['id']]
            return Rat.sym(n['name'])
        if k in ('CStyleCastExpr', 'CXXStaticCastExpr', 'CXXFunctionalCastExpr'):
            sub = self.to_rat(c[0])
            if n.get('toT') in INT_TYPES and (c[0].get('T') not in INT_TYPES):
                return Rat.sym('(int)(%s)' % sub.canon())
            return sub
        if k == 'UnaryOperator':
            op = n['op']
            if op == '-':
                nm = self.named_constant(n)
                if nm:
                    return Rat.sym(nm)
                return -self.to_rat(c[0])
            if op == '+':
                return self.to_rat(c[0])
            if op == '*':
                return Rat.sym('*' + self.to_rat(c[0]).canon())
            raise NotInClass('unary %s' % op)
        if k == 'BinaryOperator':
            op = n['op']
            if op in ('+', '-', '*', '/'):
                a, b = self.to_rat(c[0]), self.to_rat(c[1])
                if op == '+':
                    return a + b
                if op == '-':
                    return a - b
                if op == '*':
                    return self._mul(a, b)
                if n.get('T') in INT_TYPES:
                    return Rat.sym('idiv(%s,%s)' % (a.canon(), b.canon()))
                if reduce_trig(b.n).is_zero():
                    raise NotInClass('division by literal zero')
                return a / b
            if op == ',':
                return self.to_rat(c[1])
            raise NotInClass('binary %s' % op)
        if k == 'ArraySubscriptExpr':
            return Rat.sym('%s[%s]' % (self._lv(c[0]), self.to_rat(c[1]).canon()))
        if k == 'MemberExpr':
            return Rat.sym(self._lv(n))
        if k in ('CallExpr', 'CXXMemberCallExpr'):
            name = n.get('callee') or '?'
            args = n.get('args', [])
            if name in ('pow',) and len(args) == 2 and 'v' not in args[1]:
                e = self.to_rat(args[1])
                en = reduce_trig(e.n)
                if e.d.is_const() and en.is_const():
                    ev = en.const_value() / e.d.const_value()
                    if ev.denominator == 1 and 0 <= ev <= 8:
                        base = self.to_rat(args[0])
                        r = Rat.const(1)
                        for _ in range(int(ev)):
                            r = self._mul(r, base)
                        return r
            if name == 'pow' and len(args) == 2 and 'v' in args[1] and 0 <= args[1]['v'] <= 8:
                base = self.to_rat(args[0])
                r = Rat.const(1)
                for _ in range(args[1]['v']):
                    r = self._mul(r, base)
                return r
            cargs = []
            for a in args:
                try:
                    cargs.append(self.to_rat(a).canon())
                except NotInClass:
                    cargs.append(self._opaque(a))
            sym = '%s(%s)' % (name, ','.join(cargs))
            if name == 'sqrt' and len(args) == 1:
                self.sqrt_args[sym] = self.to_rat(args[0])
            return Rat.sym(sym)
        if k == 'ConditionalOperator':
            raise NotInClass('conditional')
        if k == 'UnaryExprOrTypeTraitExpr':
            return Rat.sym('sizeof(%s)' % n.get('argT'))
        if k == 'StringLiteral':
            return Rat.sym('"%s"' % n.get('val'))
        raise NotInClass(k)

    def _mul(self, a, b):
        r = a * b
        # sqrt(x)^2 -> x
        for s, arg in list(self.sqrt_args.items()):
            if s in r.n.symbols() or s in r.d.symbols():
                if arg.d.is_const():
                    cden = arg.d.const_value()
                    ap = Poly({k: v / cden for k, v in arg.n.t.items()})
                    r = Rat(r.n.subst_pow(s, 2, ap), r.d.subst_pow(s, 2, ap))
        return r

    def _opaque(self, n):
        from .facts import show
        return show(n)

    def _lv(self, n):
        """Canonical text of an lvalue-ish base expression."""
        k = n.get('k')
        c = n.get('c', [])
        if k == 'DeclRefExpr':
            if n['id'] in self.env:
                return '(' + self.env[n['id']].canon() + ')'
            return n['name']
        if k == 'MemberExpr':
            base = self._lv(c[0]) if c else 'this'
            return '%s.%s' % (base, n['field'])
        if k == 'ArraySubscriptExpr':
            return '%s[%s]' % (self._lv(c[0]), self.to_rat(c[1]).canon())
        if k == 'UnaryOperator' and n['op'] == '*':
            return '*' + self._lv(c[0])
        if k == 'UnaryOperator' and n['op'] == '&':
            return '&' + self._lv(c[0])
        if k in ('CStyleCastExpr',):
            return self._lv(c[0])
        if k == 'BinaryOperator' and n['op'] in ('+', '-'):
            # pointer arithmetic such as (E_Photo_arr[Z] - 1)
            return '(%s%s%s)' % (self._lv(c[0]), n['op'], self.to_rat(c[1]).canon())
        try:
            return '(' + self.to_rat(n).canon() + ')'
        except NotInClass:
            return self._opaque(n)
