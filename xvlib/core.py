"""Check plumbing: obligations, violations, known findings, evidence, exit codes."""
import json
import os
import sys
import time

from .frontend import AnalysisBroken, VERIF

KNOWN_FILE = os.path.join(VERIF, 'known_findings.json')


def load_known():
    try:
        with open(KNOWN_FILE) as fh:
            d = json.load(fh)
    except FileNotFoundError:
        return []
    return d.get('findings', [])


class Check:
    def __init__(self, pid, tier, level, explanation, trusted_base, assumptions=()):
        self.pid = pid
        self.tier = tier
        self.level = level
        self.explanation = explanation
        self.trusted_base = list(trusted_base)
        self.assumptions = list(assumptions)
        self.t0 = time.time()
        self.n_obl = 0
        self.n_ok = 0
        self.nontrivial = set()
        self.by_rule = {}
        self.samples = []
        self.violations = []
        self.held = []
        self.inconclusives = []
        self.notes = []
        self.coverage_extra = {}
        self.exhaustive = False
        self.programs = 0
        self.disagreements_checked = 0
        self.info = {}

    # -- recording ------------------------------------------------------------------------------
    def ok(self, rule, instance, why='', loc='', nontrivial=True):
        """An obligation that was decided and holds."""
        self.n_obl += 1
        self.n_ok += 1
        r = self.by_rule.setdefault(rule, [0, 0])
        r[0] += 1
        r[1] += 1
        if nontrivial:
            self.nontrivial.add((rule, instance))
        self.held.append((rule, instance, why, loc))
        if len([s for s in self.samples if s['rule'] == rule]) < 3:
            self.samples.append({'rule': rule, 'instance': instance, 'at': loc, 'discharged_by': why})

    def bad(self, rule, unit, function, instance, loc, msg):
        """An obligation that was decided and is violated."""
        self.n_obl += 1
        r = self.by_rule.setdefault(rule, [0, 0])
        r[0] += 1
        self.nontrivial.add((rule, instance))
        self.violations.append({'property': self.pid, 'rule': rule, 'unit': unit, 'function': function,
                                'instance': instance, 'loc': loc, 'message': msg})

    def decide(self, cond, rule, unit, function, instance, loc, msg, why=''):
        if cond:
            self.ok(rule, '%s:%s' % (function, instance) if function else instance, why, loc)
        else:
            self.bad(rule, unit, function, instance, loc, msg)
        return cond

    def inconclusive(self, rule, where, msg):
        self.inconclusives.append({'rule': rule, 'where': where, 'message': msg})

    def floor(self, what, count, minimum):
        """Instance floor: fewer instances than were confirmed by hand means the rule went blind."""
        self.coverage_extra.setdefault('instance_counts', {})[what] = count
        if count < minimum and self.violations:
            # a rule went blind after a definite violation was already decided on this tree: the verdict stands, the
            # blind rule is reported with it
            self.note('rule matched %d instances of "%s" (expected at least %d) - not decided on this tree' % (count, what, minimum))
            return
        if count < minimum:
            raise AnalysisBroken('%s: rule matched %d instances of "%s", expected at least %d - '
                                 'the rule no longer sees the code it was written for'
                                 % (self.pid, count, what, minimum))

    def note(self, s):
        self.notes.append(s)

    # -- finishing --------------------------------------------------------------------------------
    def finish(self, cmd):
        known = [k for k in load_known() if k.get('property') == self.pid and k.get('status') == 'known']
        unlisted = []
        listed = []
        for v in self.violations:
            hit = None
            for k in known:
                if all(k.get(f) == v[f] for f in ('rule', 'unit', 'function', 'instance')):
                    hit = k
                    break
            if hit:
                listed.append((v, hit))
            else:
                unlisted.append(v)
        os.makedirs(os.path.join(VERIF, 'reports'), exist_ok=True)
        os.makedirs(os.path.join(VERIF, 'evidence'), exist_ok=True)
        rpath = os.path.join(VERIF, 'reports', '%s.%s.json' % (self.pid, self.tier))
        with open(rpath, 'w') as fh:
            json.dump({'property': self.pid, 'tier': self.tier, 'violations': unlisted,
                       'known_findings_matched': [v for v, _ in listed],
                       'inconclusive': self.inconclusives}, fh, indent=1)
        wall = time.time() - self.t0
        cov = {
            'obligations': self.n_obl,
            'discharged': self.n_ok,
            'evaluations': max(self.n_obl, 1),
            'distinct_nontrivial': len(self.nontrivial),
            'rule': 'one obligation per rule instance found in the current source (function, call site, branch, '
                    'macro, table cell, binding declaration); distinct = distinct (rule, instance) pairs; every '
                    'counted obligation needed a comparison against an oracle derived from the source or data',
            'samples': self.samples[:40] if self.samples else [{'note': 'no obligations'}],
            'checker_cmd': cmd,
            'trusted_base': self.trusted_base,
            'explanation': self.explanation,
            'exhaustive': bool(self.exhaustive),
            'per_rule': {k: {'obligations': v[0], 'discharged': v[1]} for k, v in sorted(self.by_rule.items())},
            'known_findings_matched': len(listed),
            'inconclusive': len(self.inconclusives),
            'notes': self.notes[:50],
        }
        if self.programs:
            cov['programs'] = self.programs
            cov['disagreements_checked'] = self.disagreements_checked
        cov.update(self.coverage_extra)
        cov.update(self.info)
        ev = {
            'property_id': self.pid,
            'tier': self.tier,
            'seed': int(os.environ.get('VERIF_SEED', '0') or 0),
            'level': self.level,
            'coverage': cov,
            'assumptions': self.assumptions,
            'wall_s': round(wall, 3),
            'violations': len(unlisted),
        }
        with open(os.path.join(VERIF, 'evidence', '%s.json' % self.pid), 'w') as fh:
            json.dump(ev, fh, indent=1)
        out = sys.stdout
        for rule, (n, okc) in sorted(self.by_rule.items()):
            out.write('  [%s/%s] %d obligations, %d hold\n' % (self.pid, rule, n, okc))
        for v, k in listed:
            out.write('KNOWN-FINDING: property=%s %s %s(): [%s] %s -- %s\n' % (
                self.pid, v['loc'] or v['unit'], v['function'], v['rule'], v['instance'], k.get('what', v['message'])))
        for v in unlisted:
            out.write('%s: [%s/%s] %s %s: %s\n' % (v['loc'] or v['unit'], self.pid, v['rule'], v['function'],
                                                  v['instance'], v['message']))
        for i in self.inconclusives:
            out.write('INCONCLUSIVE: [%s/%s] %s: %s\n' % (self.pid, i['rule'], i['where'], i['message']))
        if unlisted:
            out.write('VIOLATION property=%s replay=%s\n' % (self.pid, rpath))
            out.flush()
            return 1
        if self.inconclusives:
            out.write('%s: analysis inconclusive (%d items) - no verdict\n' % (self.pid, len(self.inconclusives)))
            out.flush()
            return 2
        out.write('%s %s: %d obligations hold (%d known findings) in %.1fs\n' % (
            self.pid, self.tier, self.n_ok, len(listed), wall))
        out.flush()
        return 0
