"""C14 - crystal collections stay consistent under any sequence of operations.

Per-operation preservation of the representation invariant
    0 <= n_crystal <= n_alloc  /\  entries [0, n_crystal) sorted by complete name and unique  /\  every entry owns its
    name and atom vector and carries the volume of its own cell,
assumed on entry of each operation and decided on each of its abstract paths (induction over the history: the
invariant holds after ArrayInit, every operation preserves it, so it holds after any sequence)."""
import re

from xvlib.core import Check
from xvlib.absint import run_function
from xvlib.facts import walk, show, strip_casts, calls_in
from xvlib.normform import Rat
from rules.common import sets_error, value_paths, zero_paths

U = 'src/crystal_diffraction.c'
V = 'src/xrayvars.c'
BUILTIN = '&Crystal_arr'


def nl(s):
    """lvalue / pointer text without address-of, parentheses and blanks: (&(&Crystal_arr).crystal[n]).volume -> Crystal_arr.crystal[n].volume"""
    s = s.replace('(', '').replace(')', '').replace(' ', '')
    return re.sub(r'(?<![\w\]])\*&', '', s).replace('&', '')       # *&x is x (a dereference, not a product)


def run(prog, tier):
    chk = Check('C14', tier, 'other',
                'Representation invariant of Crystal_Array preserved by every operation, decided on abstract paths: appends are '
                'dominated by the capacity test or a successful extension of the SAME array object; extension moves exactly '
                'n_crystal entries into a vector of n_alloc + n_new entries and updates the array object in place; every append '
                'is followed by qsort over the current n_crystal with the comparator that agrees with the bsearch matcher; a name '
                'is looked up before insertion and duplicates are rejected; the entry whose volume is recomputed is the entry '
                'inserted (AddCrystal) / every entry (ReadFile); the built-in array is never extended; lookups return deep copies; '
                'ArrayFree releases every entry, the vector and the record; every failing exit of a mutator either has not '
                'stored into the collection or has truncated it back to the size it had on entry.',
                ['clang front end', 'E1 path enumeration with memory cells, loop havoc and per-iteration snapshots'],
                ['behaviour of user code that keeps aliases into an array and the bytes of crystal files are not decided',
                 'libc qsort/bsearch/strcmp behave as specified'])
    init(prog, chk)
    extend(prog, chk)
    add_crystal(prog, chk)
    comparators(prog, chk)
    lookups(prog, chk)
    array_free(prog, chk)
    read_file(prog, chk)
    return chk


def zero_init(lp):
    return any(a.get('k') == 'BinaryOperator' and a['op'] == '=' and a['c'][1].get('v') == 0 for a in walk(lp.get('init') or {}))


# ------------------------------------------------------------------------------------------------------------ ArrayInit
def init(prog, chk):
    f = prog.func('Crystal_ArrayInit', unit=U)
    it, paths = run_function(prog, f)
    vals = value_paths(it, paths)
    chk.floor('Crystal_ArrayInit success paths', len(vals), 2)
    cap = f['params'][0]['name']
    for p in vals:
        r = p.ret.canon()
        st = {}
        for e in p.events:
            if e.kind == 'store':
                st[nl(e.lv)] = e.value
        n, a, v = st.get(nl(r) + '.n_crystal'), st.get(nl(r) + '.n_alloc'), st.get(nl(r) + '.crystal')
        ok = n is not None and n.is_zero() and a is not None and a.equals(Rat.sym(cap)) and v is not None
        if ok and not v.is_zero():
            al = [e for e in p.events if e.kind == 'call' and e.name in ('malloc', 'calloc') and e.result is not None and e.result.canon() == v.canon()]
            size = (al[0].args[0] if al[0].name == 'malloc' else al[0].args[0] * al[0].args[1]) if al else None
            ok = size is not None and size.equals(Rat.sym(cap) * Rat.sym('sizeof(Crystal_Struct)'))
            lo = it.interval_of(Rat.sym(cap), p).lo
            ok = ok and lo is not None and lo >= 0
        elif ok:
            ok = it.interval_of(Rat.sym(cap), p).is_zero()
        chk.decide(ok, 'initial-state', U, f['name'], 'exit@%s' % ('empty' if v is not None and v.is_zero() else 'allocated'),
                   '%s:%d' % (U, p.ret_node['ln']),
                   'a new array must start with n_crystal = 0, n_alloc = the requested capacity (>= 0) and a vector of exactly that many entries',
                   why='n_crystal = 0, n_alloc = capacity, vector of capacity entries')


# ---------------------------------------------------------------------------------------------------------- ExtendArray
def extend(prog, chk):
    f = prog.func('Crystal_ExtendArray', unit=U)
    loc = '%s:%d' % (U, f['ln'])
    p0, p1 = f['params'][0], f['params'][1]
    root = {'Crystal_Array *': p0['name'], 'Crystal_Array **': '*' + p0['name']}.get(p0['T'])
    if root is None:
        chk.bad('grow-in-place', U, f['name'], 'signature', loc, 'cannot identify the array object in parameter %s %s' % (p0['T'], p0['name']))
        return
    it, paths = run_function(prog, f)
    oks = value_paths(it, paths)
    chk.floor('Crystal_ExtendArray success paths', len(oks), 1)
    good, detail = True, set()
    for p in oks:
        stores = [e for e in p.events if e.kind == 'store']
        if any(nl(e.lv) == nl(root) for e in stores):
            good = False
            detail.add('the array object itself is replaced (store to %s): callers that hold the old pointer - and their callers - keep a stale array' % root)
        vec = [e for e in stores if nl(e.lv) == nl(root) + '.crystal']
        na = [e for e in stores if nl(e.lv) == nl(root) + '.n_alloc']
        if not vec or not na:
            good = False
            detail.add('the crystal vector and n_alloc of the caller\'s array object are not both updated')
            continue
        vec, na = vec[-1], na[-1]
        want_alloc = Rat.sym(na.lv) + Rat.sym(p1['name'])
        if not na.value.equals(want_alloc):
            good = False
            detail.add('n_alloc becomes %s instead of n_alloc + %s' % (na.value.canon(), p1['name']))
        al = [e for e in p.events if e.kind == 'call' and e.name in ('malloc', 'calloc', 'realloc') and e.result is not None and
              e.result.canon() == vec.value.canon()]
        if not al:
            good = False
            detail.add('the new vector is not a fresh allocation')
            continue
        al = al[0]
        size = al.args[0] * al.args[1] if al.name == 'calloc' else al.args[-1]
        if not size.equals(want_alloc * Rat.sym('sizeof(Crystal_Struct)')):
            good = False
            detail.add('the new vector holds %s bytes instead of (n_alloc + %s) * sizeof(Crystal_Struct)' % (size.canon(), p1['name']))
        if al.name != 'realloc':
            moved = False
            for e in p.events:
                if e.kind == 'iter-end':
                    for lv, v in (e.value or {}).items():
                        m = re.match(r'^\((.*)\)\[(\w+@L\d+)\]$', lv)
                        if m and m.group(1) == vec.value.canon() and v is not None and nl(v.canon()) == '%s.crystal[%s]' % (nl(root), m.group(2)):
                            moved = True
                if e.kind == 'call' and e.name in ('memcpy', 'memmove') and e.args[0].canon() == vec.value.canon() and \
                        nl(e.args[1].canon()) == nl(root) + '.crystal' and \
                        e.args[2].equals(Rat.sym(na.lv.replace('n_alloc', 'n_crystal')) * Rat.sym('sizeof(Crystal_Struct)')):
                    moved = True
            has_loop = any(e.kind == 'loop-begin' for e in p.events)
            if has_loop and not moved:
                good = False
                detail.add('the existing entries are not moved into the new vector')
    # range of the move loop
    loops = [n for n in walk(f['body']) if n.get('k') == 'ForStmt']
    copies = [c for c in calls_in(f['body']) if c.get('callee') in ('memcpy', 'memmove', 'realloc')]
    if loops:
        lp = loops[0]
        cond = lp.get('cond') or {}
        bound = cond.get('k') == 'BinaryOperator' and cond['op'] == '<' and nl(show(cond['c'][1]).replace('->', '.')) == nl(root) + '.n_crystal'
        if not (zero_init(lp) and bound):
            good = False
            detail.add('the move loop does not run over [0, n_crystal)')
    elif not copies:
        good = False
        detail.add('the existing entries are not moved into the new vector')
    chk.decide(good, 'grow-in-place', U, f['name'], 'effect', loc, 'a successful extension is wrong: ' + '; '.join(sorted(detail)),
               why='array object %s updated in place: new vector of n_alloc + %s entries, [0, n_crystal) moved' % (root, p1['name']))
    # the replaced vector: released exactly when it is a heap vector (a user array), never when it is the built-in table
    builtin = prog.global_def('Crystal_arr', required=False)
    rel_ok, rel_detail = True, set()
    for p in oks:
        old = Rat.sym(nl(root) + '.crystal')
        diff = it.interval_of(old - Rat.sym('Crystal_arr.crystal'), p)
        frees = [e for e in p.events if e.kind == 'call' and e.name in ('free', 'xrl_free') and e.args and e.args[0] is not None and
                 nl(e.args[0].canon()) == nl(root) + '.crystal']
        realloc = [e for e in p.events if e.kind == 'call' and e.name == 'realloc' and e.args and e.args[0] is not None and
                   nl(e.args[0].canon()) == nl(root) + '.crystal']
        is_user = diff.excludes_zero()
        is_builtin = diff.lo is not None and diff.lo == diff.hi == 0
        if is_user and not frees and not realloc:
            rel_ok = False
            rel_detail.add('the replaced vector of a user array is never released: every growth step leaks n_alloc entries')
        elif is_builtin and (frees or realloc):
            rel_ok = False
            rel_detail.add('the built-in table (static storage) is handed to free()')
        elif not is_user and not is_builtin:
            rel_ok = False
            rel_detail.add('the path does not distinguish the built-in table from a heap vector before %s' % (
                'releasing the old vector' if frees or realloc else 'dropping the old vector'))
    chk.decide(rel_ok, 'grow-in-place', U, f['name'], 'old-vector-released', loc,
               'a successful extension mishandles the vector it replaces: ' + '; '.join(sorted(rel_detail)),
               why='old vector freed iff it is not Crystal_arr.crystal')
    fails = zero_paths(it, paths)
    okf = bool(fails) and all(not any(e.kind == 'store' and nl(e.lv).startswith(nl(root)) for e in p.events) for p in fails) and \
        all(sets_error(p) for p in fails)
    chk.decide(okf, 'failure-atomic', U, f['name'], 'failed-extension', loc,
               'a failed extension must leave the array untouched and report an error', why='array untouched, error reported')


# ----------------------------------------------------------------------------------------------------------- AddCrystal
def array_of(p):
    """The array object a path works on, from its bsearch call: (text of the object, the bsearch event)."""
    for e in p.events:
        if e.kind == 'call' and e.name == 'bsearch' and len(e.args) == 5:
            m = re.match(r'^(.*)\.crystal$', e.args[1].canon())
            if m:
                return m.group(1), e
    return None, None


def add_crystal(prog, chk):
    f = prog.func('Crystal_AddCrystal', unit=U)
    loc = '%s:%d' % (U, f['ln'])
    it, paths = run_function(prog, f)
    cr = f['params'][0]['name']
    vals = value_paths(it, paths)
    chk.floor('Crystal_AddCrystal success paths', len(vals), 2)
    for p in vals:
        ploc = '%s:%d' % (U, p.ret_node['ln'])
        X, bs = array_of(p)
        if X is None:
            chk.bad('duplicates-rejected', U, f['name'], 'lookup-before-insert', ploc,
                    'an element is inserted on a path that never looked its name up with bsearch')
            continue
        tag = 'builtin' if 'Crystal_arr' in X else 'user'
        ext = [e for e in p.events if e.kind == 'call' and e.name == 'Crystal_ExtendArray']
        nold = Rat.sym(X + '.n_crystal')
        nalloc = Rat.sym(X + '.n_alloc')
        inst = '%s %s' % (tag, 'after-extension' if ext else 'room-left')
        # (1) capacity
        if ext:
            okx = nl(ext[0].args[0].canon()) == nl(X) and it.interval_of(ext[0].result, p).excludes_zero()
            chk.decide(okx, 'append-capacity', U, f['name'], inst, ploc,
                       'when the array is full the element may only be appended after a successful extension of the array object that is appended '
                       'to (extension applied to %s, element appended to %s)' % (ext[0].args[0].canon(), X),
                       why='successful extension of the same array object')
            amt = it.interval_of(ext[0].args[1], p) if len(ext[0].args) > 1 and ext[0].args[1] is not None else None
            chk.decide(amt is not None and amt.lo is not None and amt.lo >= 1, 'append-capacity', U, f['name'], inst + ' slots-added', ploc,
                       'the extension must add at least one slot; it adds %s, which is only known to lie in %s: an array created with capacity 0 is '
                       '"extended" by nothing and the element is written past the (empty) vector' % (
                           ext[0].args[1].canon() if len(ext[0].args) > 1 and ext[0].args[1] is not None else '?', amt),
                       why='extension by %s >= 1 slots' % (amt.lo if amt is not None else '?'))
        else:
            full = it.interval_of(nold - nalloc, p)
            chk.decide(full.excludes_zero() or (full.hi is not None and (full.hi < 0 or (full.hi == 0 and full.his))), 'append-capacity', U, f['name'], inst, ploc,
                       'the element is appended on a path that has not established n_crystal != n_alloc', why='n_crystal != n_alloc established')
        # (2) the stores: crystal[n_old] = copy ; n_crystal = n_old + 1
        st = [e for e in p.events if e.kind == 'store']
        ncr = [e for e in st if nl(e.lv) == nl(X) + '.n_crystal']
        slot = [e for e in st if nl(e.lv).startswith(nl(X) + '.crystal[') and nl(e.lv).endswith(']')]
        vol = [e for e in st if nl(e.lv).endswith('.volume')]
        want_slot = '%s.crystal[%s]' % (nl(X), nl(nold.canon()))
        okn = len(ncr) == 1 and ncr[0].value.equals(nold + Rat.const(1))
        oks = len(slot) == 1 and nl(slot[0].lv) == want_slot
        chk.decide(okn and oks, 'append', U, f['name'], inst + ' slot', ploc,
                   'the new entry must be written to slot n_crystal and n_crystal incremented by one; found stores %s' % [repr(e) for e in slot + ncr],
                   why='entry stored at crystal[n_crystal], n_crystal + 1')
        mk = [e for e in p.events if e.kind == 'call' and e.name == 'Crystal_MakeCopy']
        okc = len(mk) == 1 and mk[0].args[0].canon() == cr and it.interval_of(mk[0].result, p).excludes_zero() and \
            len(slot) == 1 and slot[0].value is not None and slot[0].value.canon() == '*(%s)' % mk[0].result.canon()
        chk.decide(okc, 'append', U, f['name'], inst + ' deep-copy', ploc,
                   'the array must receive a deep copy (Crystal_MakeCopy, tested for failure) of the caller\'s crystal', why='Crystal_MakeCopy(crystal) stored')
        # (3) volume recomputed for the inserted entry
        uc = [e for e in p.events if e.kind == 'call' and e.name == 'Crystal_UnitCellVolume']
        okv = len(vol) >= 1 and nl(vol[-1].lv) == want_slot + '.volume' and len(uc) == 1 and nl(uc[0].args[0].canon()) == want_slot and \
            vol[-1].value is not None and uc[0].result is not None and vol[-1].value.equals(uc[0].result)
        chk.decide(okv, 'volume-of-inserted-entry', U, f['name'], inst, ploc,
                   'the recomputed cell volume must be computed from and stored into the entry just inserted (slot n_crystal before the increment); it is '
                   'computed from %s and stored to %s' % ([e.args[0].canon() for e in uc], [e.lv for e in vol]), why='volume of crystal[old n_crystal]')
        # (4) sorted before return
        qs = [e for e in p.events if e.kind == 'call' and e.name == 'qsort']
        okq = len(qs) == 1 and len(slot) == 1 and nl(qs[0].args[0].canon()) == nl(X) + '.crystal' and qs[0].args[1].equals(nold + Rat.const(1)) and \
            qs[0].args[2].canon() == 'sizeof(Crystal_Struct)' and qs[0].args[3].canon() == 'compareCrystalStructs' and \
            p.events.index(qs[0]) > p.events.index(slot[0])
        chk.decide(okq, 'sorted-after-append', U, f['name'], inst, ploc,
                   'after the append the whole vector (all n_crystal entries) must be sorted with compareCrystalStructs before returning; found %s' % [repr(e) for e in qs],
                   why='qsort(crystal, n_crystal, sizeof(Crystal_Struct), compareCrystalStructs)')
        # (5) duplicates rejected: bsearch over all entries returned NULL on this path
        okb = it.interval_of(bs.result, p).is_zero() and bs.args[0].canon() == cr + '.name' and bs.args[2].equals(nold) and \
            bs.args[3].canon() == 'sizeof(Crystal_Struct)' and bs.args[4].canon() == 'matchCrystalStruct'
        chk.decide(okb, 'duplicates-rejected', U, f['name'], inst, ploc,
                   'an element may only be inserted when bsearch(crystal->name, vector, n_crystal, sizeof(Crystal_Struct), matchCrystalStruct) found nothing',
                   why='name not present (bsearch == NULL)')
    # failure paths leave the collection as it was
    seen = set()
    for p in zero_paths(it, paths):
        muts = [e for e in p.events if e.kind == 'store' and re.search(r'\.n_crystal$|\.crystal\[', nl(e.lv))]
        inst = 'exit@%s' % exit_name(p)
        good = not muts and bool(sets_error(p) or delegated(p, it))
        if good and inst in seen:
            continue
        seen.add(inst)
        chk.decide(good, 'failure-atomic', U, f['name'], inst,
                   '%s:%d' % (U, p.ret_node['ln']), 'a rejected addition modifies the collection (%s) or does not report an error' % [e.lv for e in muts],
                   why='collection untouched, error reported')
    builtin_fixed(chk, it, paths, f, loc)


def exit_name(p):
    es = sets_error(p)
    if es and es[-1].args and len(es[-1].args) > 2 and es[-1].args[2] is not None:
        return es[-1].args[2].canon()[:60]
    calls = [e.name for e in p.events if e.kind == 'call']
    return 'after ' + (calls[-1] if calls else 'entry')


def builtin_fixed(chk, it, paths, f, loc):
    grows = []
    for p in paths:
        for e in p.events:
            if e.kind == 'call' and e.name == 'Crystal_ExtendArray':
                a = e.args[0]
                d = it.interval_of(a - Rat.sym(BUILTIN), p)
                if 'Crystal_arr' in a.canon() or not d.excludes_zero():
                    grows.append(e)
    chk.decide(not grows, 'builtin-array-fixed', U, f['name'], 'refuses-growth', loc,
               'the extension can be applied to the built-in crystal array (argument %s not known to differ from &Crystal_arr): the built-in collection '
               'must refuse to grow past its capacity with an error' % (grows[0].args[0].canon() if grows else ''),
               why='every extension is applied to an array known to differ from &Crystal_arr')


def delegated(p, it):
    return any(e.kind == 'call' and e.args and e.args[-1] is not None and e.args[-1].canon() == 'error' and e.result is not None and
               it.interval_of(e.result, p).is_zero() for e in p.events)


# ---------------------------------------------------------------------------------------------------------- comparators
def comparators(prog, chk):
    cmpf = prog.func('compareCrystalStructs', unit=V)
    mat = prog.func('matchCrystalStruct', unit=V)

    def shape(f):
        """(callee, [what each argument is]) of the single returned call; arguments are classified as 'key' (a parameter
        itself) or 'name-of-entry' (->name of a parameter cast to Crystal_Struct*)."""
        rets = [n for n in walk(f['body']) if n.get('k') == 'ReturnStmt']
        if len(rets) != 1 or not rets[0].get('c'):
            return None
        c = strip_casts(rets[0]['c'][0])
        if c.get('k') != 'CallExpr':
            return None
        local_src = {}
        for n in walk(f['body']):
            if n.get('k') == 'DeclStmt':
                for d in n.get('decls', []):
                    if d.get('init') is not None:
                        local_src[d['name']] = show(strip_casts(d['init']))
        kinds = []
        for a in c['args']:
            a = strip_casts(a)
            if a.get('k') == 'MemberExpr' and a.get('field') == 'name':
                b = strip_casts(a['c'][0])
                src = local_src.get(b.get('name'), b.get('name'))
                kinds.append('name-of-entry:' + str(src))
            elif a.get('k') == 'DeclRefExpr':
                kinds.append('key:' + str(local_src.get(a.get('name'), a.get('name'))))
            else:
                kinds.append('other:' + show(a))
        return c.get('callee'), kinds
    a, b = shape(cmpf), shape(mat)
    pa = [p['name'] for p in cmpf['params']]
    pb = [p['name'] for p in mat['params']]
    ok = a is not None and b is not None and a[0] == 'strcmp' and b[0] == 'strcmp' and \
        a[1] == ['name-of-entry:' + pa[0], 'name-of-entry:' + pa[1]] and b[1] == ['key:' + pb[0], 'name-of-entry:' + pb[1]]
    chk.decide(ok, 'order-agrees-with-search', V, 'compareCrystalStructs', 'comparator-vs-matcher', '%s:%d' % (V, cmpf['ln']),
               'the vector is sorted with %s but searched with %s: bsearch is only correct, and names that differ are only kept apart, when both '
               'order by strcmp of the complete names (first argument against second)' % (a, b),
               why='both are strcmp over the complete names, in argument order')


# -------------------------------------------------------------------------------------------------------------- lookups
def lookups(prog, chk):
    f = prog.func('Crystal_GetCrystal', unit=U)
    it, paths = run_function(prog, f)
    vals = value_paths(it, paths)
    chk.floor('Crystal_GetCrystal success paths', len(vals), 2)
    ok = True
    for p in vals:
        mk = [e for e in p.events if e.kind == 'call' and e.name == 'Crystal_MakeCopy']
        X, bs = array_of(p)
        ok = ok and X is not None and len(mk) == 1 and mk[0].args[0].equals(bs.result) and p.ret.equals(mk[0].result) and \
            bs.args[0].canon() == f['params'][0]['name'] and bs.args[2].equals(Rat.sym(X + '.n_crystal')) and \
            bs.args[3].canon() == 'sizeof(Crystal_Struct)' and bs.args[4].canon() == 'matchCrystalStruct'
    chk.decide(ok, 'lookups-copy', U, f['name'], 'deep-copy', '%s:%d' % (U, f['ln']),
               'a lookup must return Crystal_MakeCopy of the entry found by bsearch over all n_crystal entries with matchCrystalStruct '
               '(never a pointer into the vector, which the next insertion moves)', why='independent deep copy of the entry found')
    f = prog.func('Crystal_MakeCopy', unit=U)
    it, paths = run_function(prog, f)
    vals = value_paths(it, paths)
    chk.floor('Crystal_MakeCopy success paths', len(vals), 1)
    src = f['params'][0]['name']
    ok = True
    for p in vals:
        st = {nl(e.lv): e for e in p.events if e.kind == 'store'}
        res = nl(p.ret.canon())
        whole = st.get('*' + res)
        name = st.get(res + '.name')
        atom = st.get(res + '.atom')
        mc = [e for e in p.events if e.kind == 'call' and e.name == 'memcpy']
        okw = whole is not None and whole.value is not None and whole.value.canon() == '*' + src
        okn = name is not None and re.match(r'^xrl_strdup#\d+\(%s\.name\)$' % re.escape(src), name.value.canon()) is not None
        oka = atom is not None and atom.value.canon().startswith('malloc#')
        okm = False
        if oka and len(mc) == 1:
            want = Rat.sym(src + '.n_atom') * Rat.sym('sizeof(Crystal_Atom)')
            al = [e for e in p.events if e.kind == 'call' and e.name == 'malloc' and e.result is not None and e.result.canon() == atom.value.canon()]
            okm = mc[0].args[0].canon() == atom.value.canon() and mc[0].args[1].canon() == src + '.atom' and mc[0].args[2].equals(want) and \
                bool(al) and al[0].args[0].equals(want)
        ok = ok and okw and okn and oka and okm
    chk.decide(ok, 'lookups-copy', U, f['name'], 'owns-name-and-atoms', '%s:%d' % (U, f['ln']),
               'the copy must take all fields of the source and own a duplicate of the name and a fresh vector of n_atom atoms copied from the source',
               why='fields copied, name duplicated, n_atom atoms copied into a fresh vector of n_atom')
    f = prog.func('Crystal_GetCrystalsList', unit=U)
    it, paths = run_function(prog, f)
    vals = value_paths(it, paths)
    chk.floor('Crystal_GetCrystalsList success paths', len(vals), 2)
    ok = True
    for p in vals:
        r = p.ret.canon()
        al = [e for e in p.events if e.kind == 'call' and e.name == 'malloc' and e.result is not None and e.result.canon() == r]
        if not al:
            ok = False
            continue
        m = re.match(r'^(.*)\.n_crystal\*sizeof\(char \*\) \+ sizeof\(char \*\)$', al[0].args[0].canon())
        if not m:
            ok = False
            continue
        X = m.group(1)
        n = Rat.sym(X + '.n_crystal')
        term = [e for e in p.events if e.kind == 'store' and e.lv == '(%s)[%s]' % (r, n.canon()) and e.value is not None and e.value.is_zero()]
        ok = ok and bool(term)
        for e in p.events:
            if e.kind == 'iter-end':
                good = False
                for lv, v in (e.value or {}).items():
                    mm = re.match(r'^\((.*)\)\[(\w+@L\d+)\]$', lv)
                    if mm and mm.group(1) == r and v is not None and re.match(r'^xrl_strdup#\d+\(%s\.crystal\[%s\]\.name\)$' % (re.escape(X), re.escape(mm.group(2))), v.canon()):
                        good = True
                ok = ok and good
        cnt = [e for e in p.events if e.kind == 'store' and e.lv.startswith('*') and e.value is not None and e.value.equals(n)]
        outp = f['params'][1]['name']
        if it.interval_of(Rat.sym(outp), p).excludes_zero():
            ok = ok and bool(cnt)
    lp = [n for n in walk(f['body']) if n.get('k') == 'ForStmt']
    okl = len(lp) == 1 and zero_init(lp[0]) and lp[0]['cond'].get('op') == '<' and show(lp[0]['cond']['c'][1]).endswith('n_crystal')
    chk.decide(ok and okl, 'lookups-copy', U, f['name'], 'list-of-all-names', '%s:%d' % (U, f['ln']),
               'the list must hold duplicates of the names of entries [0, n_crystal) in vector (sorted) order, be NULL-terminated at index n_crystal and '
               'report n_crystal', why='names of [0, n_crystal) duplicated in order, NULL terminator, count reported')


# ------------------------------------------------------------------------------------------------------------ ArrayFree
def array_free(prog, chk):
    f = prog.func('Crystal_ArrayFree', unit=U)
    it, paths = run_function(prog, f)
    arr = f['params'][0]['name']
    ok = True
    n_full = 0
    for p in paths:
        if it.interval_of(Rat.sym(arr), p).is_zero():
            continue
        fr = [e.args[0].canon() for e in p.events if e.kind == 'call' and e.name == 'free']
        # the record last, the vector unless known NULL
        okr = bool(fr) and fr[-1] == arr
        okv = (arr + '.crystal') in fr or it.interval_of(Rat.sym(arr + '.crystal'), p).is_zero()
        oke = True
        for e in p.events:
            if e.kind == 'loop-begin':
                n_full += 1
                j = p.events.index(e)
                seg = []
                for e2 in p.events[j + 1:]:
                    if e2.kind in ('iter-end', 'loop-end') and e2.id == e.id:
                        break
                    seg.append(e2)
                frees = [x.args[0].canon() for x in seg if x.kind == 'call' and x.name == 'free']
                for fld in ('name', 'atom'):
                    pat = r'^%s\.crystal\[\w+@L%d\]\.%s$' % (re.escape(arr), e.id, fld)
                    if not [x for x in frees if re.match(pat, x)]:
                        # not freed: only acceptable when known NULL on this path
                        cands = [k for k in p.facts if re.match(pat, k)]
                        if not (cands and p.facts[cands[0]].is_zero()):
                            oke = False
        ok = ok and okr and okv and oke
    lp = [n for n in walk(f['body']) if n.get('k') == 'ForStmt']
    bound = len(lp) == 1 and lp[0]['cond'].get('op') == '<' and show(lp[0]['cond']['c'][1]).endswith('n_crystal') and zero_init(lp[0])
    chk.floor('Crystal_ArrayFree loop paths', n_full, 1)
    chk.decide(ok and bool(bound), 'release-everything', U, f['name'], 'entries-vector-record', '%s:%d' % (U, f['ln']),
               'releasing an array must free the name and the atoms of every entry in [0, n_crystal), then the vector, then the record',
               why='every entry, the vector and the record released')


# ------------------------------------------------------------------------------------------------------------- ReadFile
def truncators(prog):
    """Static helpers that cut an array back to a given size: on every path the last store to <p0>.n_crystal is the
    value of parameter 1 and name/atom of the entries [p1, n_crystal) are released.  Returns {function name}."""
    out = set()
    for f in prog.src_funcs():
        if f['unit'] != U or len(f['params']) != 2 or f['params'][0]['T'] != 'Crystal_Array *' or f['params'][1]['T'] != 'int':
            continue
        try:
            it, paths = run_function(prog, f)
        except Exception:
            continue
        a, n = f['params'][0]['name'], f['params'][1]['name']
        good = bool(paths)
        for p in paths:
            st = [e for e in p.events if e.kind == 'store' and nl(e.lv) == a + '.n_crystal']
            if not st or not st[-1].value.equals(Rat.sym(n)):
                good = False
        loops = [x for x in walk(f['body']) if x.get('k') == 'ForStmt']
        if len(loops) != 1:
            continue
        lp = loops[0]
        init_ok = any(x.get('k') == 'BinaryOperator' and x['op'] == '=' and show(strip_casts(x['c'][1])) == n for x in walk(lp.get('init') or {}))
        cond = lp.get('cond') or {}
        cond_ok = cond.get('op') == '<' and nl(show(cond['c'][1]).replace('->', '.')) == a + '.n_crystal'
        freed = set()
        for p in paths:
            for e in p.events:
                if e.kind == 'call' and e.name == 'free':
                    m = re.match(r'^%s\.crystal\[\w+@L\d+\]\.(\w+)$' % re.escape(a), e.args[0].canon())
                    if m:
                        freed.add(m.group(1))
        if good and init_ok and cond_ok and {'name', 'atom'} <= freed:
            out.add(f['name'])
    return out


def holds_entry_count(f, name):
    """local `name` is assigned once, before the first loop of f, from <array>->n_crystal: it holds the number of entries on entry"""
    sts = [x for x in walk(f['body']) if x.get('k') == 'BinaryOperator' and x.get('op') == '=' and strip_casts(x['c'][0]).get('name') == name]
    decl = [(x, d) for x in walk(f['body']) if x.get('k') == 'DeclStmt' for d in x.get('decls', []) if isinstance(d, dict) and d.get('name') == name and d.get('init')]
    srcs = [show(x['c'][1]) for x in sts] + [show(d['init']) for _, d in decl]
    first_loop_ln = min([x['ln'] for x in walk(f['body']) if x.get('k') in ('WhileStmt', 'ForStmt')] or [0])
    return len(srcs) == 1 and srcs[0].replace('->', '.').endswith('.n_crystal') and all(x['ln'] < first_loop_ln for x in sts) and \
        all(x['ln'] < first_loop_ln for x, _ in decl)


def reader_capacity(prog, chk, f):
    """every statement of the reader that takes a new slot (n_crystal++ used as a subscript of the vector) is preceded, in the same
    block, by the "array full" test; analysed as a fragment (the test and the statement, locals unconstrained, A6 on entry): on every
    path that reaches the slot either n_crystal != n_alloc holds or Crystal_ExtendArray succeeded with at least one new slot."""
    from xvlib.absint import run_fragment
    n = 0
    for blk in [x for x in walk(f['body']) if x.get('k') == 'CompoundStmt']:
        kids = blk.get('c', [])
        for j, st_ in enumerate(kids):
            takes = [x for x in walk(st_) if x.get('k') == 'ArraySubscriptExpr' and show(x['c'][0]).replace('->', '.').endswith('.crystal') and
                     any(y.get('k') == 'UnaryOperator' and y.get('op') in ('++', 'post++', 'pre++') and 'n_crystal' in show(y) for y in walk(x['c'][1]))]
            if not takes or st_.get('k') in ('IfStmt', 'ForStmt', 'WhileStmt', 'CompoundStmt'):
                continue
            n += 1
            sloc = '%s:%d' % (U, st_['ln'])
            guard = kids[j - 1] if j > 0 and kids[j - 1].get('k') == 'IfStmt' else None
            if guard is None:
                chk.bad('reader-capacity', U, f['name'], 'slot@%d' % st_['ln'], sloc, 'a new slot is taken without an "array full" test right before it')
                continue
            itf, ps = run_fragment(prog, f, {'k': 'CompoundStmt', 'ln': guard['ln'], 'c': [guard, st_]})
            ok, why = True, set()
            arr = show(takes[0]['c'][0]).replace('->', '.')[:-len('.crystal')]
            reach = [p for p in ps if any(e.kind == 'store' and nl(e.lv).endswith('.n_crystal') or (e.kind == 'store' and 'crystal' in nl(e.lv)) for e in p.events)
                     and p.ret is None]
            for p in reach:
                ext = [e for e in p.events if e.kind == 'call' and e.name == 'Crystal_ExtendArray']
                if ext:
                    amt = itf.interval_of(ext[-1].args[1], p) if len(ext[-1].args) > 1 and ext[-1].args[1] is not None else None
                    good = itf.interval_of(ext[-1].result, p).excludes_zero() and amt is not None and amt.lo is not None and amt.lo >= 1
                    if not good:
                        ok = False
                        why.add('after an extension that is not established to have succeeded with at least one new slot (adds %s in %s)' % (
                            ext[-1].args[1].canon() if len(ext[-1].args) > 1 and ext[-1].args[1] is not None else '?', amt))
                else:
                    d = itf.interval_of(Rat.sym(nl(arr) + '.n_crystal') - Rat.sym(nl(arr) + '.n_alloc'), p)
                    if not (d.excludes_zero() or (d.hi is not None and d.hi < 0)):
                        ok = False
                        why.add('without having established n_crystal != n_alloc')
            chk.decide(ok and bool(reach), 'reader-capacity', U, f['name'], 'slot@%d' % st_['ln'], sloc,
                       'the reader takes slot n_crystal %s: the entry is written past the vector' % ('; '.join(sorted(why)) or '(no path reaches it)'),
                       why='room left, or successful extension by >= 1 slots')
    chk.floor('slots taken by the reader', n, 1)


def read_file(prog, chk):
    f = prog.func('Crystal_ReadFile', unit=U)
    reader_capacity(prog, chk, f)
    it, paths = run_function(prog, f, max_paths=20000)
    loc = '%s:%d' % (U, f['ln'])
    vals = value_paths(it, paths)
    chk.floor('Crystal_ReadFile success paths', len(vals), 2)
    trunc = truncators(prog)

    def obj(p):
        """array object of the path: the parameter, or the built-in array when NULL was passed"""
        arr = f['params'][1]
        v = p.env.get(arr['id'])
        x = v.canon() if v is not None else arr['name']
        return '(%s)' % x if x.startswith('&') else x

    # (a) every crystal read from the file gets the volume of its own cell.  qsort moves entries, so there are exactly two sound forms:
    #     a loop over the new entries [n_start, n_crystal) BEFORE the sort (entries that were in the array keep what they had), or a loop
    #     over all entries [0, n_crystal) AFTER it.  A loop over a sub-range after the sort recomputes the wrong entries.
    okvol, seen = True, 0
    placement = set()
    for p in vals:
        X = obj(p)
        q = [e for e in p.events if e.kind == 'call' and e.name == 'qsort']
        if not q:
            continue
        qi = p.events.index(q[-1])
        for ei, e in enumerate(p.events):
            if e.kind == 'iter-end':
                for lv, v in (e.value or {}).items():
                    m = re.match(r'^(.*)\.crystal\[(\w+@L\d+)\]\.volume$', nl(lv))
                    if m:
                        seen += 1
                        placement.add('after' if ei > qi else 'before')
                        uc = [c for c in p.events if c.kind == 'call' and c.name == 'Crystal_UnitCellVolume' and v is not None and c.result is not None and v.equals(c.result)]
                        okvol = okvol and m.group(1) == nl(X) and bool(uc) and nl(uc[0].args[0].canon()) == '%s.crystal[%s]' % (nl(X), m.group(2))
    vol_loops = []
    for lp in [n for n in walk(f['body']) if n.get('k') == 'ForStmt']:
        if any(c.get('callee') == 'Crystal_UnitCellVolume' for c in calls_in(lp['body'])):
            vol_loops.append(lp)
    rng = False
    form = None
    if len(vol_loops) == 1 and len(placement) == 1:
        lp = vol_loops[0]
        cond = lp.get('cond') or {}
        upto = cond.get('op') == '<' and show(cond['c'][1]).endswith('n_crystal')
        start = None
        for a_ in walk(lp.get('init') or {}):
            if a_.get('k') == 'BinaryOperator' and a_.get('op') == '=':
                start = strip_casts(a_['c'][1])
        # n_start: a local that holds the array's n_crystal on entry and is never written again
        entry_count = False
        if start is not None and start.get('k') == 'DeclRefExpr' and start.get('cls') == 'local':
            sts = [x for x in walk(f['body']) if x.get('k') == 'BinaryOperator' and x.get('op') == '=' and strip_casts(x['c'][0]).get('name') == start['name']]
            decl = [d for x in walk(f['body']) if x.get('k') == 'DeclStmt' for d in x.get('decls', []) if isinstance(d, dict) and d.get('name') == start['name'] and d.get('init')]
            srcs = [show(x['c'][1]) for x in sts] + [show(d['init']) for d in decl]
            first_loop_ln = min([x['ln'] for x in walk(f['body']) if x.get('k') in ('WhileStmt', 'ForStmt')] or [0])
            entry_count = len(srcs) == 1 and srcs[0].replace('->', '.').endswith('.n_crystal') and all(x['ln'] < first_loop_ln for x in sts) and \
                all(x['ln'] < first_loop_ln for x in walk(f['body']) if x.get('k') == 'DeclStmt' and any(isinstance(d, dict) and d.get('name') == start['name'] for d in x.get('decls', [])))
        if 'after' in placement:
            rng, form = zero_init(lp) and upto, 'all entries after the sort'
        else:
            rng, form = upto and (zero_init(lp) or entry_count), 'the new entries before the sort'
    chk.decide(okvol and seen > 0 and rng, 'reader-recomputes-volumes', U, f['name'], 'all-entries', loc,
               'every crystal read from the file must get the volume of its own cell: a loop over [n_start, n_crystal) before the sort, or over '
               '[0, n_crystal) after it; qsort moves entries, so a loop over a sub-range after the sort recomputes the wrong entries and leaves newly '
               'read crystals with a stale or uninitialised volume (found: loop %s the sort, range ok: %s)' % (sorted(placement), rng),
               why='Crystal_UnitCellVolume(&crystal[i]) stored into crystal[i].volume for %s' % form)
    # (b) sorted before returning success: qsort(X.crystal, current X.n_crystal, ..., compareCrystalStructs) after the last append
    oksort = True
    for p in vals:
        X = obj(p)
        q = [e for e in p.events if e.kind == 'call' and e.name == 'qsort']
        app = [e for e in p.events if e.kind == 'store' and nl(e.lv) == nl(X) + '.n_crystal']
        if not q:
            oksort = False
            continue
        e = q[-1]
        cnt_node = strip_casts(e.argnodes[1]) if e.argnodes else {}
        oksort = oksort and nl(e.args[0].canon()) == nl(X) + '.crystal' and cnt_node.get('k') == 'MemberExpr' and cnt_node.get('field') == 'n_crystal' and \
            show(strip_casts(cnt_node['c'][0])) == show(strip_casts(strip_casts(e.argnodes[0])['c'][0])) and \
            e.args[2].canon() == 'sizeof(Crystal_Struct)' and e.args[3].canon() == 'compareCrystalStructs' and \
            (not app or p.events.index(e) > p.events.index(app[-1]))
    chk.decide(oksort, 'sorted-after-append', U, f['name'], 'before-success-return', loc,
               'the reader must sort the vector over its current n_crystal with compareCrystalStructs after the last append and before returning success',
               why='qsort(crystal, n_crystal, sizeof(Crystal_Struct), compareCrystalStructs) after the last append')
    # (c) appends: capacity, slot, name lookup
    okcap, okdup, okslot, napp = True, True, True, 0
    why_cap = ''
    for p in paths:
        X = obj(p)
        ev = p.events
        for i, e in enumerate(ev):
            if not (e.kind == 'store' and nl(e.lv) == nl(X) + '.n_crystal'):
                continue
            # an append is a store n_crystal = (value of n_crystal read just before) + 1
            before = e.value - Rat.const(1)
            if not re.match(r'^%s\.n_crystal(@L\d+)?$' % re.escape(nl(X)), nl(before.canon())):
                continue
            napp += 1
            # capacity: n_crystal != n_alloc known, or a successful extension of X earlier in this iteration
            lb = max([j for j, c in enumerate(ev[:i]) if c.kind == 'loop-begin' and loop_appends(c.node)] or [0])
            ext = [c for c in ev[lb:i] if c.kind == 'call' and c.name == 'Crystal_ExtendArray']
            if ext:
                c = ext[-1]
                if not (nl(c.args[0].canon()) == nl(X) and it.interval_of(c.result, p).excludes_zero()):
                    okcap = False
                    why_cap = 'extension applied to %s while appending to %s' % (c.args[0].canon(), X)
            else:
                cands = [k for k, v in p.facts.items() if v.excludes_zero() and
                         re.match(r'^%s\.n_alloc(@L\d+)?\+-1\*%s$' % (re.escape(nl(X)), re.escape(nl(before.canon()))), nl(k))]
                if not cands:
                    okcap = False
                    why_cap = 'n_crystal != n_alloc not established before the append to %s' % X
            # slot: stores of this entry go to crystal[before]
            pref = '%s.crystal[%s].' % (nl(X), nl(before.canon()))
            nxt = [j for j, c in enumerate(ev[i + 1:], i + 1) if c.kind == 'iter-end' and loop_appends(c.node)]
            for s in ev[i:(nxt[0] if nxt else len(ev))]:
                if s.kind == 'store' and nl(s.lv).startswith(nl(X) + '.crystal[') and not nl(s.lv).startswith(pref):
                    okslot = False
            # duplicate test: a comparison of the new name against every entry [0, n_crystal) on the way here
            dup = False
            for c in ev[lb:i]:
                if c.kind == 'call' and c.name == 'bsearch':
                    dup = True
                if c.kind == 'call' and c.name == 'strcmp' and any(re.match(r'^%s\.crystal\[\w+@L\d+\]\.name$' % re.escape(nl(X)), nl(a.canon())) for a in c.args):
                    dup = True
            hi = it.interval_of(before, p).hi
            if hi is not None and hi <= 0:
                dup = True              # the array is known to be empty on this path: nothing to compare with
            okdup = okdup and dup
    chk.floor('Crystal_ReadFile append sites on paths', napp, 2)
    chk.decide(okcap, 'append-capacity', U, f['name'], 'every-append', loc,
               'an entry is appended without room for it: ' + why_cap, why='capacity test or successful extension of the same array before every append')
    chk.decide(okslot, 'append', U, f['name'], 'entry-fields', loc,
               'the fields of a crystal being read must be stored into the slot that was counted (crystal[n_crystal before the increment])',
               why='all fields stored into the counted slot')
    # the loops that the paths run through (also those of a helper that the engine inlined)
    seen_loops = {id(e.node): e.node for p in paths for e in p.events if e.kind == 'loop-begin' and e.node is not None}
    dup_loops = [lp for lp in seen_loops.values() if is_dup_loop(lp)] or [lp for lp in walk(f['body']) if lp.get('k') == 'ForStmt' and is_dup_loop(lp)]
    has_bsearch = any(c.get('callee') == 'bsearch' for c in calls_in(f['body'])) or any(e.kind == 'call' and e.name == 'bsearch' for p in paths for e in p.events)
    # a match must end in a failure exit, and no success path may have seen one
    rejects = any(k.startswith('strcmp') and v.is_zero() for p in zero_paths(it, paths) for k, v in p.facts.items())
    accepts_dup = any(k.startswith('strcmp') and v.is_zero() for p in vals for k, v in p.facts.items())
    chk.decide(okdup and (bool(dup_loops) or has_bsearch) and rejects and not accepts_dup, 'duplicates-rejected', U, f['name'], 'name-looked-up', loc,
               'a crystal read from a file is appended without comparing its name with every entry already in the array (or a match does not end in '
               'an error): duplicate names are accepted, which Crystal_AddCrystal rejects', why='name compared with entries [0, n_crystal); a match is an error')
    # (d) failure atomicity
    dirty = []
    fails = zero_paths(it, paths)
    for p in fails:
        X = obj(p)
        ev = p.events
        muts = [i for i, e in enumerate(ev) if e.kind == 'store' and re.match(r'^%s\.(n_crystal$|crystal\[)' % re.escape(nl(X)), nl(e.lv))]
        # an exit inside or after the appending loop may follow appends of earlier iterations
        in_or_after = any(e.kind == 'loop-begin' and loop_appends(e.node) for e in ev)
        if not (muts or in_or_after):
            continue
        last = muts[-1] if muts else -1
        restored = False
        for c in ev[last + 1:]:
            if c.kind == 'call' and c.name in trunc and nl(c.args[0].canon()) == nl(X) and c.args[1].equals(Rat.sym(X + '.n_crystal')):
                restored = True
        if not restored:
            dirty.append(p)
    for nm in sorted({exit_name(p) for p in dirty}):
        chk.bad('failure-atomic', U, f['name'], 'exit@' + nm, '%s:%d' % (U, [p for p in dirty if exit_name(p) == nm][0].ret_node['ln']),
                'this error exit returns after crystals of the file may have been appended, without cutting the array back to the size it had on entry: '
                'a malformed file leaves counted, unsorted or half-initialised entries in the collection')
    nfail = len({exit_name(p) for p in fails})
    chk.floor('Crystal_ReadFile failure exits', nfail, 6)
    for nm in sorted({exit_name(p) for p in fails} - {exit_name(p) for p in dirty}):
        chk.ok('failure-atomic', 'Crystal_ReadFile exit@' + nm, 'nothing stored into the collection, or truncated back to the entry size by %s' % sorted(trunc),
               loc, nontrivial=True)
    for p in fails:
        if not (sets_error(p) or delegated(p, it)):
            chk.bad('failure-atomic', U, f['name'], 'silent-exit@%s' % exit_name(p), '%s:%d' % (U, p.ret_node['ln']), 'failure exit without error report')
    builtin_fixed(chk, it, paths, f, loc)


def is_dup_loop(lp):
    if lp.get('k') != 'ForStmt' or not any(c.get('callee') == 'strcmp' for c in calls_in(lp.get('body') or {})):
        return False
    cond = lp.get('cond') or {}
    return zero_init(lp) and cond.get('op') == '<' and show(cond['c'][1]).endswith('n_crystal')


def loop_appends(node):
    for n in walk((node or {}).get('body') or {}):
        if n.get('k') == 'UnaryOperator' and n.get('op') == '++' and show(n['c'][0]).endswith('n_crystal'):
            return True
        if n.get('k') in ('CompoundAssignOperator', 'BinaryOperator') and n.get('op') in ('+=', '=') and show(n['c'][0]).endswith('n_crystal'):
            return True
    return False
