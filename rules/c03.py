"""C03 - errors are reported if and only if the call failed; results are finite (domain guards).

O1  a path that returns the 0/NULL sentinel has set the error slot exactly once
O2  a path whose slot is set returns the sentinel
O3  no path sets the slot twice (direct set after a failed delegate, delegate after a set, ...)
O3b the mechanism in xraylib-error.c keeps the first error and consumes/release the others
O4  a delegated call whose result is not tested cannot fail there (coverage fact from the shipped data)
O5  outside xraylib-error.c the error parameter is only forwarded (passing no slot changes nothing but reporting)
O6  partial operations (log, asin/acos, division) are guarded on every path"""
import re

from xvlib.core import Check
from xvlib.frontend import AnalysisBroken
from xvlib.absint import run_function, Inconclusive
from xvlib.errstate import Summaries, scan_path, returns_sentinel, error_param, SETTERS, outcome
from xvlib.coverage import Coverage, data_return_ranges
from xvlib.facts import walk, show, strip_casts
from xvlib.normform import Rat

# Frozen, reasoned exceptions of O1 (one named function each; confirmed by reading):
LEGIT_ZERO = {
    'Q_scattering_amplitude': 'the (0,0,0) reflection has zero momentum transfer by definition; documented in the source',
    'Crystal_F_H_StructureFactor_Partial': 'a structure factor is a signed complex amplitude; 0+0i is a legitimate value (forbidden reflection, empty cell)',
    'Crystal_F_H_StructureFactor': 'delegates to the _Partial function',
    'xrl_error_matches': 'predicate, 0 means "does not match"',
    'SymbolToAtomicNumber': None,
}
# O4: the failing delegate yields the sentinel through the arithmetic itself
SELF_CONSISTENT = {
    ('Q_scattering_amplitude', 'Bragg_angle'): 'E*sin(rel*theta)/K with theta = 0 from the failed delegate is 0: the sentinel is returned together with the error',
}
MECH_UNIT = 'src/xraylib-error.c'


def run(prog, tier):
    chk = Check('C03', tier, 'other',
                'Error-slot typestate (empty / set once / possibly set) over every abstract path of every function of libxrl '
                'that takes an error slot; each return is classified sentinel / value from the interval facts; delegated '
                'calls are resolved failed / succeeded from the facts about their result (including products and the '
                'tmp-error idiom); untested delegates are discharged by coverage sets computed from the shipped data files; '
                'who-may-touch rule for the error parameter; domain guards of log/asin/acos and divisions; structural rules for '
                'the three setters, propagate and clear.',
                ['clang front end', 'E1 path enumeration with interval/non-zero facts and product reasoning',
                 'coverage sets from data/*.dat (xvlib/coverage.py)'],
                ['A1 a resolved compound has >= 1 element; A2 mass fractions are > 0',
                 'A3 the signed quantities f\', f\'\' are not exactly 0.0 for valid input, so == 0.0 on them is read as failure',
                 'A4 untested allocations succeed',
                 'A5 atom counts delivered by a successful CompoundParserSimple are positive (established by the C07 rules on its merge and subscript code)',
                 'overflow/underflow of finite arithmetic is not decided'])
    notes = []

    def on_math(node, name, args, st, it):
        iv = it.interval_of(args[0], st)
        st.notes.append(('math', node, name, iv, args[0]))

    def on_div(node, b, st, it):
        iv = it.interval_of(b, st)
        st.notes.append(('div', node, '/', iv, b))

    # ranges of the table accessors (hull of the data file and the sentinel), e.g. AtomicWeight in [0, 257]
    ranges = data_return_ranges(prog)
    chk.coverage_extra['data_return_ranges'] = {k: repr(v) for k, v in ranges.items()}
    summ = Summaries(prog, skip=('CompoundParserSimple', 'add_compound_data'), on_math=on_math, on_div=on_div, call_ranges=ranges)
    cov = Coverage(prog, summ)
    nfun = 0
    for name in sorted(summ.paths):
        f = summ.funcs[name]
        ep = error_param(f)
        if not ep or f['unit'] == MECH_UNIT:
            continue
        nfun += 1
        it = summ.interp[name]
        U = f['unit']
        seen = set()
        for p in summ.paths[name]:
            if p.status not in ('ret', 'end'):
                continue
            ln = p.ret_node['ln'] if p.ret_node else f['ln']
            loc = '%s:%d' % (f['rel'], ln)
            state, problems, maybe_from = scan_path(summ, name, p)
            sent = returns_sentinel(summ, name, p)
            delegated = None
            if p.ret is not None:
                for e in p.events:
                    if e.kind == 'call' and e.result is not None and e.result.canon() == p.ret.canon() and \
                            any(a is not None and a.canon() == ep for a in (e.args or [])):
                        delegated = e
            if p.ret is None and f['ret'] == 'void':
                delegated = None
            # struct returned from a delegate through a local (z = g(...); out->re = z.re ...)
            key_base = 'exit@%d' % ln
            # O3
            for kind, e, m in problems:
                inst = '%s %s at line %d' % (kind, e.name, e.node['ln'])
                if (inst) in seen:
                    continue
                seen.add(inst)
                chk.bad('O3-set-once', U, name, inst, '%s:%d' % (f['rel'], e.node['ln']),
                        {'double-set': 'the error slot is already set on this path when %s sets it again (second error is only diagnosed on stderr)',
                         'set-after-maybe': 'a delegated call that received the caller\'s slot and was not tested may already have set it when %s sets it',
                         'maybe-after-set': 'the slot is already set when it is handed to %s, which may set it again'}[kind] % e.name)
            if not problems:
                chk.ok('O3-set-once', '%s:%s' % (name, key_base), 'slot set at most once on this path', loc, nontrivial=(state != 'U'))
            if delegated is not None and state in ('M', 'U'):
                chk.ok('O1-sentinel-has-error', '%s:%s' % (name, key_base), 'returns the verdict of %s unchanged' % delegated.name, loc)
                continue
            # O1
            if sent is True:
                if state == 'S':
                    chk.ok('O1-sentinel-has-error', '%s:%s' % (name, key_base), 'error set before the sentinel is returned', loc)
                elif name in LEGIT_ZERO and LEGIT_ZERO[name]:
                    chk.ok('O1-sentinel-has-error', '%s:%s' % (name, key_base), 'reasoned exception: ' + LEGIT_ZERO[name], loc, nontrivial=False)
                else:
                    inst = 'sentinel-without-error ' + key_base
                    if inst not in seen:
                        seen.add(inst)
                        chk.bad('O1-sentinel-has-error', U, name, inst, loc,
                                'a path returns the failure sentinel although no error has %s been stored%s' % (
                                    'certainly' if state == 'M' else '',
                                    ' (the only candidate is the untested call to %s)' % maybe_from.name if maybe_from else ''))
            # O2 / O4
            if sent is False:
                if state == 'S':
                    inst = 'value-after-error ' + key_base
                    if inst not in seen:
                        seen.add(inst)
                        chk.bad('O2-error-means-sentinel', U, name, inst, loc,
                                'a path stores an error and then returns a value (%s) instead of the sentinel' % p.ret.canon()[:120] if p.ret is not None else '')
                elif state == 'M':
                    g = maybe_from.name
                    inst = 'untested-delegate %s %s' % (g, key_base)
                    if inst in seen:
                        continue
                    seen.add(inst)
                    if (name, g) in SELF_CONSISTENT:
                        chk.ok('O4-untested-delegate', '%s:%s' % (name, inst), 'reasoned: ' + SELF_CONSISTENT[(name, g)], loc, nontrivial=False)
                        continue
                    allowed = cov.allowed_on_path(name, p)
                    exact = cov.cover_exact(g)
                    zarg = maybe_from.args[0].canon() if maybe_from.args and maybe_from.args[0] is not None else None
                    if allowed is not None and exact is not None and zarg == cov.zsym(name):
                        missing = sorted(allowed - exact)
                        chk.decide(not missing, 'O4-untested-delegate', U, name, inst, loc,
                                   '%s(%s, ...) receives the caller\'s error slot and its result is used untested; it fails for Z = %s '
                                   'which reach this call (the earlier lookups succeed for them): an error would be stored while a '
                                   'value is returned' % (g, zarg, missing[:12]),
                                   why='coverage fact: the %d Z that can reach the call all have a positive %s record' % (len(allowed), g))
                    else:
                        chk.bad('O4-untested-delegate', U, name, inst, loc,
                                'the result of %s, which received the caller\'s error slot, is used without testing it; no coverage '
                                'argument applies (not a Z-only lookup)' % g)
                else:
                    chk.ok('O2-error-means-sentinel', '%s:%s' % (name, key_base), 'value returned with an empty slot', loc, nontrivial=False)
        # O6
        domain(prog, chk, summ, name, cov)
    chk.floor('functions with an error slot analysed', nfun, 140)
    for n, why in summ.inconclusive.items():
        chk.inconclusive('paths', n, why)
    for fname in ('CompoundParserSimple',):
        exit_block_rule(prog, chk, prog.func(fname))
    who_may_touch(prog, chk)
    mechanism(prog, chk)
    return chk


# frozen: geometry of caller-supplied unit cells is the caller's contract (DESIGN C03 O6)
DOMAIN_NOT_ARMED = {
    ('Crystal_UnitCellVolume', 'sqrt'): 'validity of a caller-supplied unit cell is the caller\'s contract',
    ('Crystal_dSpacing', 'sqrt'): 'validity of a caller-supplied unit cell is the caller\'s contract',
    ('Crystal_dSpacing', '/'): 'validity of a caller-supplied unit cell (non-zero edges, non-degenerate angles) is the caller\'s contract',
    ('Crystal_UnitCellVolume', '/'): 'validity of a caller-supplied unit cell is the caller\'s contract',
}
# frozen, one expression each: divisors whose non-zeroness is a data fact decided elsewhere or an algebraic consequence
DOMAIN_REASONED = {
    ('CSb_Photo_Partial', '(x1 - x0)'): 'first two knots of a Kissel sub-shell table; that they differ is a data fact decided by C02 (thorough tier, rule kissel-first-knots; vacuous while data/kissel_pe.dat is empty)',
    ('lininterp', '(xa[(findpos + 1)] - xa[findpos])'): 'adjacent knots of a caller-supplied table; lininterp has no caller inside the library (helper kept for API compatibility), distinct knots are its caller\'s contract',
    ('LineEnergyComposed', '(rate_tmp1 + rate_tmp2)'): 'guarded by e1*r1 + e2*r2 > 0 with non-negative energies and rates (accessor value paths are > 0, sentinel 0), which implies r1 + r2 > 0',
}


def domain(prog, chk, summ, name, cov=None):
    f = summ.funcs[name]
    U = f['unit']
    seen = {}
    for p in summ.paths[name]:
        for n in p.notes:
            if not isinstance(n, tuple) or n[0] not in ('math', 'div'):
                continue
            _, node, fn, iv, arg = n
            key = (node['ln'], node.get('col'), fn)
            ok = True
            why = ''
            if fn in ('log', 'log10'):
                ok = iv.lo is not None and (iv.lo > 0 or (iv.lo == 0 and iv.los))
                why = 'argument > 0'
            elif fn in ('asin', 'acos'):
                ok = iv.lo is not None and iv.hi is not None and iv.lo >= -1 and iv.hi <= 1
                why = 'argument in [-1, 1]'
            elif fn == '/':
                ok = iv.excludes_zero()
                why = 'divisor non-zero'
            elif fn == 'sqrt':
                ok = iv.lo is not None and iv.lo >= 0
                why = 'argument >= 0'
            else:
                continue
            prev = seen.get(key)
            seen[key] = (prev[0] and ok if prev else ok, node, fn, iv, arg, why)
    for key, (ok, node, fn, iv, arg, why) in sorted(seen.items()):
        inst = '%s@%s' % (fn, show(node)[:60] if fn != '/' else 'div by ' + show(node['c'][1])[:50])
        loc = '%s:%d' % (f['rel'], node['ln'])
        if (name, fn) in DOMAIN_NOT_ARMED:
            chk.ok('O6-domain-guard', '%s:%s' % (name, inst), 'not armed: ' + DOMAIN_NOT_ARMED[(name, fn)], loc, nontrivial=False)
            continue
        if fn == '/' and (name, show(node['c'][1])) in DOMAIN_REASONED:
            chk.ok('O6-domain-guard', '%s:%s' % (name, inst), 'reasoned: ' + DOMAIN_REASONED[(name, show(node['c'][1]))], loc, nontrivial=False)
            continue
        if fn == '/' and not ok and cov is not None:
            # data-backed: the divisor is a guard-table cell of Z, or a Z-only lookup, and every Z that can reach it has a non-zero value
            dsym = arg.canon()
            why2 = None
            bad_z = None
            for p in summ.paths[name]:
                if not any(isinstance(n_, tuple) and n_[0] == 'div' and n_[1] is node for n_ in p.notes):
                    continue
                allowed = cov.allowed_on_path(name, p)
                z = cov.zsym(name)
                if allowed is None or z is None:
                    bad_z = 'n/a'
                    break
                m1 = re.match(r'^(\w+)\[%s\]$' % re.escape(z), dsym)
                m2 = re.match(r'^(\w+)\(%s,(0|error)\)$' % re.escape(z), dsym)
                if m1 and cov.data.table(m1.group(1)) is not None:
                    tbl = cov.data.table(m1.group(1))
                    bz = sorted(x for x in allowed if not (0 <= x <= cov.zmax) or tbl[x] == 0)
                    why2 = 'data fact: %s[Z] is non-zero for every Z that reaches the division' % m1.group(1)
                elif m2 and cov.cover_exact(m2.group(1)) is not None:
                    bz = sorted(allowed - cov.cover_exact(m2.group(1)))
                    why2 = 'coverage fact: %s succeeds for every Z that reaches the division' % m2.group(1)
                else:
                    bad_z = 'n/a'
                    break
                if bz:
                    bad_z = bz[:10]
                    break
            if why2 and bad_z is None:
                chk.ok('O6-domain-guard', '%s:%s' % (name, inst), why2, loc)
                continue
            if bad_z not in (None, 'n/a'):
                chk.bad('O6-domain-guard', f['unit'], name, inst, loc, 'division by %s, which is 0/unavailable for Z = %s that reach it' % (dsym, bad_z))
                continue
        chk.decide(ok, 'O6-domain-guard', f['unit'], name, inst, loc,
                   '%s of a value the path facts only bound to %s: %s is not established on every path reaching it' % (
                       {'/': 'division by', 'log': 'log', 'log10': 'log10', 'asin': 'asin', 'acos': 'acos', 'sqrt': 'sqrt'}[fn], iv, why),
                   why=why)


def who_may_touch(prog, chk):
    n = 0
    for f in prog.src_funcs():
        if f['unit'] in (MECH_UNIT, 'src/pr_data.c', 'src/xrayfiles.c'):
            continue
        ep = error_param(f)
        if not ep:
            continue
        n += 1
        pid = f['params'][-1]['id']
        bad = []

        def visit(node, parent_call_arg):
            if not isinstance(node, dict):
                return
            if node.get('k') == 'DeclRefExpr' and node.get('id') == pid:
                if not parent_call_arg:
                    bad.append(node)
                return
            if node.get('k') in ('CallExpr',):
                for a in node.get('args', []):
                    a0 = strip_casts(a)
                    visit(a0, a0.get('k') == 'DeclRefExpr')
                if node.get('fn'):
                    visit(node['fn'], False)
                return
            for key in ('c', 'decls'):
                for x in node.get(key, []) or []:
                    visit(x, False)
            for key in ('cond', 'then', 'else', 'init', 'inc', 'body', 'lhs', 'rhs', 'sub'):
                if isinstance(node.get(key), dict):
                    visit(node[key], False)
        visit(f['body'], False)
        chk.decide(not bad, 'O5-error-only-forwarded', f['unit'], f['name'], 'error-parameter-use', '%s:%d' % (f['rel'], bad[0]['ln'] if bad else f['ln']),
                   'the error parameter is inspected (%d uses other than passing it on): behaviour then depends on whether the caller '
                   'supplied a slot' % len(bad), why='only forwarded to callees and setters')
    chk.floor('functions checked for O5', n, 140)


def mechanism(prog, chk):
    U = MECH_UNIT
    # setters: store *err = ... only under *err == NULL; err == NULL returns first
    for fn in ('xrl_set_error', 'xrl_set_error_literal'):
        f = prog.func(fn, unit=U)
        it, paths = run_function(prog, f)
        err = f['params'][0]['name']
        loc = '%s:%d' % (U, f['ln'])
        stores = 0
        okstore = True
        null_ok = False
        for p in paths:
            iv = it.interval_of(Rat.sym(err), p)
            st = [e for e in p.events if e.kind == 'store' and e.lv == '*' + err]
            if iv.is_zero():
                # err == NULL: nothing may be allocated or stored
                allocs = [e for e in p.events if e.kind == 'call' and e.name.startswith('xrl_error_new')]
                null_ok = not st and not allocs
                if not null_ok:
                    okstore = False
                continue
            if st:
                stores += 1
                ivs = it.interval_of(Rat.sym('*' + err), p)
                if not ivs.is_zero():
                    okstore = False
            else:
                # slot occupied: must only diagnose and release the new object
                news = [e for e in p.events if e.kind == 'call' and e.name.startswith('xrl_error_new')]
                frees = [e for e in p.events if e.kind == 'call' and e.name == 'xrl_error_free']
                if news and not frees:
                    okstore = False
        chk.decide(stores >= 1 and okstore and null_ok, 'O3b-first-error-wins', U, fn, 'store-guard', loc,
                   'the slot must be written only when it is empty, an occupied slot only diagnosed (and the new object released), and a '
                   'NULL slot ignored before anything is allocated', why='*err written only under *err == NULL; NULL slot returns first')
    f = prog.func('xrl_propagate_error', unit=U)
    it, paths = run_function(prog, f)
    dest, src = f['params'][0]['name'], f['params'][1]['name']
    ok = True
    detail = []
    for p in paths:
        ivs = it.interval_of(Rat.sym(src), p)
        if ivs.is_zero():
            continue
        stored = [e for e in p.events if e.kind == 'store' and e.lv == '*' + dest and e.value is not None and e.value.canon() == src]
        freed = [e for e in p.events if e.kind == 'call' and e.name == 'xrl_error_free' and e.args[0].canon() == src]
        if len(stored) + len(freed) != 1:
            ok = False
            detail.append('a path with src != NULL %s' % ('neither stores nor frees src' if not stored and not freed else 'both stores and frees src'))
        if stored:
            ivd = it.interval_of(Rat.sym('*' + dest), p)
            if not ivd.is_zero():
                ok = False
                detail.append('src stored over a non-empty slot')
    chk.decide(ok, 'O3b-first-error-wins', U, 'xrl_propagate_error', 'consumes-src', '%s:%d' % (U, f['ln']),
               'xrl_propagate_error must consume src on every path (stored into an empty slot, or freed): %s' % '; '.join(sorted(set(detail))),
               why='src stored into an empty slot or released, never both, on every path')
    f = prog.func('xrl_clear_error', unit=U)
    it, paths = run_function(prog, f)
    err = f['params'][0]['name']
    ok = False
    for p in paths:
        fr = [e for e in p.events if e.kind == 'call' and e.name == 'xrl_error_free']
        st = [e for e in p.events if e.kind == 'store' and e.lv == '*' + err and e.value is not None and e.value.is_zero()]
        if fr and st and p.events.index(fr[0]) < p.events.index(st[0]):
            ok = True
        if fr and not st:
            ok = False
            break
    chk.decide(ok, 'O3b-first-error-wins', U, 'xrl_clear_error', 'nulls-slot', '%s:%d' % (U, f['ln']),
               'xrl_clear_error must reset the slot it released to NULL', why='*err = NULL after the release')


def exit_block_rule(prog, chk, f):
    """Structural fallback for a function whose path space exceeds the budget (the recursive-descent formula
    parser): its failure exits are self-contained blocks.  Every `return <sentinel>` must be preceded, inside its own
    block, by exactly one store into the caller's slot - a setter call, or the `if (delegate(..., error) == 0)` test
    guarding the block - and every setter call must be followed, in its block, by a sentinel return.  Success returns
    must not be preceded by a setter in their block.  (Path-insensitive, sound for this idiom: a block that sets
    always leaves the function, so no path can set twice.)"""
    U, name = f['unit'], f['name']
    ep = error_param(f)
    blocks = []

    def is_setter(n):
        return n.get('k') == 'CallExpr' and n.get('callee') in SETTERS and any(show(strip_casts(a)) == ep for a in n.get('args', []))

    def delegate_fail_test(cond):
        """cond is `g(..., error) == 0` / `!g(..., error)` / `g(...) == NULL`"""
        for x in walk(cond):
            if x.get('k') == 'CallExpr' and x.get('callee_proj') and any(show(strip_casts(a)) == ep for a in x.get('args', [])):
                return x.get('callee')
        return None

    nret = 0

    def visit(node, guard_delegate):
        nonlocal nret
        if not isinstance(node, dict):
            return
        k = node.get('k')
        if k == 'CompoundStmt':
            stmts = node.get('c', [])
            sets = []
            for i, st in enumerate(stmts):
                if is_setter(st):
                    sets.append((i, st))
                if st.get('k') == 'ReturnStmt':
                    nret += 1
                    v = st['c'][0] if st.get('c') else None
                    sentinel = v is not None and (strip_casts(v).get('v') == 0 or strip_casts(v).get('val') in (0, '0'))
                    before = [s_ for j, s_ in sets if j < i]
                    loc = '%s:%d' % (f['rel'], st['ln'])
                    inst = 'exit@%d' % st['ln']
                    if sentinel:
                        ok = (len(before) == 1 and not guard_delegate) or (len(before) == 0 and guard_delegate)
                        chk.decide(ok, 'O1-sentinel-has-error', U, name, inst, loc,
                                   'this failure exit is preceded in its block by %d stores into the error slot%s; exactly one is required' % (
                                       len(before), ' and is guarded by a failed call to %s which already stored one' % guard_delegate if guard_delegate else ''),
                                   why='exit block stores exactly one error' if not guard_delegate else 'failure of %s already stored the error' % guard_delegate)
                    else:
                        chk.decide(len(before) == 0, 'O2-error-means-sentinel', U, name, inst, loc,
                                   'a value is returned after an error was stored in the same block', why='no error stored before a value return')
                    sets = [x for x in sets if x[0] > i]
                else:
                    visit(st, None)
            for i, st in sets:
                # setter not followed by a return in this block
                later_ret = any(s_.get('k') == 'ReturnStmt' for s_ in stmts[i + 1:])
                chk.decide(later_ret, 'O2-error-means-sentinel', U, name, 'set@%d' % st['ln'], '%s:%d' % (f['rel'], st['ln']),
                           'an error is stored but the block does not leave the function: a later exit may store a second error or return a value',
                           why='setter followed by a return in its block')
            return
        if k == 'IfStmt':
            g = delegate_fail_test(node['cond'])
            t = node['then']
            if t.get('k') != 'CompoundStmt':
                t = {'k': 'CompoundStmt', 'c': [t], 'ln': t.get('ln')}
            visit(t, g)
            if node.get('else'):
                e = node['else']
                if e.get('k') not in ('CompoundStmt', 'IfStmt'):
                    e = {'k': 'CompoundStmt', 'c': [e], 'ln': e.get('ln')}
                visit(e, None)
            return
        for key in ('body', 'then', 'else', 'sub'):
            if isinstance(node.get(key), dict):
                b = node[key]
                if b.get('k') not in ('CompoundStmt', 'IfStmt', 'ForStmt', 'WhileStmt', 'DoStmt', 'SwitchStmt'):
                    b = {'k': 'CompoundStmt', 'c': [b], 'ln': b.get('ln')}
                visit(b, None)
        for x in node.get('c', []) or []:
            if isinstance(x, dict) and x.get('k') in ('CompoundStmt', 'IfStmt', 'ForStmt', 'WhileStmt', 'DoStmt', 'SwitchStmt', 'CaseStmt', 'DefaultStmt'):
                visit(x, None)
    visit(f['body'], None)
    chk.floor('exit blocks of %s' % name, nret, 15)
