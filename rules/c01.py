"""C01 - scalar lookups return exactly the shipped table value, or an error.

(a) name <-> macro <-> slot agreement of the five name tables with the header macros
(b1) data-file parser wiring in src/xrayfiles.c and table defaults in ArrayInit
(b2) table printer wiring in src/pr_data.c and its conversion precision
(b3) thorough: every generated cell of the scalar tables equals the data record (translation validation)
(c) accessor shape: value path = exactly one load T[Z][g(macro)], guards equal to the extents, positivity."""
import re
from fractions import Fraction

from xvlib.core import Check
from xvlib.frontend import AnalysisBroken
from xvlib.absint import run_function, Inconclusive
from xvlib.facts import show, walk, calls_in, strip_casts
from xvlib.names import Names
from xvlib.normform import Rat
from xvlib import datafiles, inittab
from rules.common import sets_error, value_paths, zero_paths

NEEDS_GENERATED = True

# frozen instance table (each row confirmed by reading src/xrayfiles.c): file -> (table, name table, extent macro, keV conversion)
WIRING = [
    ('atomicweight.dat', 'AtomicWeight_arr', None, None, False),
    ('densities.dat', 'ElementDensity_arr', None, None, False),
    ('edges.dat', 'EdgeEnergy_arr', 'ShellName', 'SHELLNUM', True),
    ('fluor_lines.dat', 'LineEnergy_arr', 'LineName', 'LINENUM', True),
    ('atomiclevelswidth.dat', 'AtomicLevelWidth_arr', 'ShellName', 'SHELLNUM', True),
    ('fluor_yield.dat', 'FluorYield_arr', 'ShellName', 'SHELLNUM', False),
    ('jump.dat', 'JumpFactor_arr', 'ShellName', 'SHELLNUM', False),
    ('coskron.dat', 'CosKron_arr', 'TransName', 'TRANSNUM', False),
    ('radrate.dat', 'RadRate_arr', 'LineName', 'LINENUM', False),
    ('auger_rates.dat', 'Auger_Transition_Total', 'AugerNameTotal', 'SHELLNUM_A', False),
    ('auger_rates.dat', 'Auger_Transition_Individual', 'AugerName', 'AUGERNUM', False),
]

# frozen: accessor -> (unit, table, index transform 'id'|'line', extent macro of the index, kind of macro range)
ACCESSORS = [
    ('AtomicWeight', 'src/atomicweight.c', 'AtomicWeight_arr', None, None),
    ('ElementDensity', 'src/densities.c', 'ElementDensity_arr', None, None),
    ('EdgeEnergy', 'src/edges.c', 'EdgeEnergy_arr', 'id', 'SHELLNUM'),
    ('FluorYield', 'src/fluor_yield.c', 'FluorYield_arr', 'id', 'SHELLNUM'),
    ('JumpFactor', 'src/jump.c', 'JumpFactor_arr', 'id', 'SHELLNUM'),
    ('AtomicLevelWidth', 'src/atomiclevelwidth.c', 'AtomicLevelWidth_arr', 'id', 'SHELLNUM'),
    ('CosKronTransProb', 'src/coskron.c', 'CosKron_arr', 'id', 'TRANSNUM'),
    ('LineEnergy', 'src/fluor_lines.c', 'LineEnergy_arr', 'line', 'LINENUM'),
    ('RadRate', 'src/radrate.c', 'RadRate_arr', 'line', 'LINENUM'),
    ('ElectronConfig', 'src/kissel_pe.c', 'Electron_Config_Kissel', 'id', 'SHELLNUM_K'),
]


def run(prog, tier):
    chk = Check('C01', tier, 'proof' if tier == 'quick' else 'translation_validation',
                'Decomposition (a) name<->macro<->slot agreement, (b) parser/printer wiring and table defaults, (c) accessor '
                'shape implies the property for these straight-line accessors: the record named N of element Z is stored in '
                'slot(N) of the table, printed with 11 significant digits under the table\'s own name, and the accessor '
                'returns exactly that cell for macro N, an error when the cell is not positive or the macro is outside the '
                'range. Thorough tier validates every generated cell against the independently parsed data files.',
                ['clang front end via xrl-facts', 'E1 path enumeration + interval facts', 'E3 name oracle',
                 'independent data readers; Python float formatting (correctly rounded, like glibc printf)'],
                ['the C compiler parses the generated 11-digit literals exactly (trusted)'])
    chk.exhaustive = True
    names = Names(prog)
    name_tables(prog, chk, names)
    parser_wiring(prog, chk)
    printer_wiring(prog, chk)
    accessors(prog, chk, names)
    if tier == 'thorough' and getattr(prog, 'generated_path', None):
        generated_cells(prog, chk, names)
    return chk


# ------------------------------------------------------------------------------------------------ (a)

def name_tables(prog, chk, names):
    U = 'src/xrayvars.c'

    def table(n):
        g = prog.global_def(n, unit=U)
        return inittab.evaluate(g['init']), g
    mv = prog.macro_value
    shell, gs = table('ShellName')
    line, gl = table('LineName')
    trans, gt = table('TransName')
    aug, ga = table('AugerName')
    augt, gat = table('AugerNameTotal')
    for tname, arr, macro in (('ShellName', shell, 'SHELLNUM'), ('LineName', line, 'LINENUM'), ('TransName', trans, 'TRANSNUM'),
                              ('AugerName', aug, 'AUGERNUM'), ('AugerNameTotal', augt, 'SHELLNUM_A')):
        chk.decide(len(arr) == mv(macro), 'name-table-extent', U, tname, macro, U,
                   '%s has %d entries, %s = %s: records for the last slots are %s' % (
                       tname, len(arr), macro, mv(macro), 'never matched' if len(arr) < (mv(macro) or 0) else 'matched beyond the table extent'),
                   why='%d entries = %s' % (len(arr), macro))
    # shells
    n = 0
    for S, v in sorted(names.shell_value.items(), key=lambda kv: kv[1]):
        if v < len(shell):
            n += 1
            chk.decide(shell[v] == S, 'name-slot', U, 'ShellName', S + '_SHELL', '%s:%d' % (U, gs['ln']),
                       'ShellName[%d] = "%s" but %s_SHELL = %d: records named %s land in the slot of %s' % (v, shell[v], S, v, shell[v], S),
                       why='ShellName[%s_SHELL] = "%s"' % (S, S))
    chk.floor('shell names checked', n, 28)
    vals = sorted(names.shell_value.values())
    chk.decide(vals == list(range(len(vals))), 'macro-dense', 'include/xraylib-shells.h', 'shells', 'values', 'include/xraylib-shells.h',
               'shell macro values are not 0..%d without gaps or duplicates' % (len(vals) - 1), why='dense 0..%d' % (len(vals) - 1))
    # lines
    n = 0
    for L, v in sorted(names.line_value.items(), key=lambda kv: -kv[1]):
        slot = -v - 1
        n += 1
        ok = 0 <= slot < len(line) and line[slot] == L
        chk.decide(ok, 'name-slot', U, 'LineName', L + '_LINE', '%s:%d' % (U, gl['ln']),
                   'LineName[%d] = "%s" but %s_LINE = %d (slot %d): records named %s are served under macro %s' % (
                       slot, line[slot] if 0 <= slot < len(line) else None, L, v, slot, line[slot] if 0 <= slot < len(line) else None,
                       L), why='LineName[-%s_LINE-1] = "%s"' % (L, L))
    chk.floor('line names checked', n, 383)
    lv = sorted(-v for v in names.line_value.values())
    chk.decide(lv == list(range(1, len(lv) + 1)), 'macro-dense', 'include/xraylib-lines.h', 'lines', 'values', 'include/xraylib-lines.h',
               'line macro values are not -1..-%d without gaps or duplicates' % len(lv), why='dense -1..-%d' % len(lv))
    # CK
    n = 0
    for T, v in sorted(names.ck_value.items(), key=lambda kv: kv[1]):
        n += 1
        want = names.ck_table_name(T)
        ok = 0 <= v < len(trans) and trans[v] == want
        chk.decide(ok, 'name-slot', U, 'TransName', T + '_TRANS', '%s:%d' % (U, gt['ln']),
                   'TransName[%d] = "%s" but %s_TRANS = %d names record "%s"' % (v, trans[v] if 0 <= v < len(trans) else None, T, v, want),
                   why='TransName[%s_TRANS] = "%s"' % (T, want))
    chk.floor('CK names checked', n, 14)
    # Auger
    n = 0
    for A, v in sorted(names.auger_value.items(), key=lambda kv: kv[1]):
        n += 1
        want = names.auger_table_name(A)
        ok = 0 <= v < len(aug) and aug[v] == want
        chk.decide(ok, 'name-slot', U, 'AugerName', A + '_AUGER', '%s:%d' % (U, ga['ln']),
                   'AugerName[%d] = "%s" but %s_AUGER = %d names record "%s"' % (v, aug[v] if 0 <= v < len(aug) else None, A, v, want),
                   why='AugerName[%s_AUGER] = "%s"' % (A, want))
    chk.floor('Auger names checked', n, 996)
    av = sorted(names.auger_value.values())
    chk.decide(av == list(range(len(av))), 'macro-dense', 'include/xraylib-auger.h', 'auger', 'values', 'include/xraylib-auger.h',
               'Auger macro values are not dense 0..%d' % (len(av) - 1), why='dense 0..%d' % (len(av) - 1))
    for i, S in enumerate(['K', 'L1', 'L2', 'L3', 'M1', 'M2', 'M3', 'M4', 'M5']):
        ok = i < len(augt) and augt[i] == S + '-TOTAL' and names.shell_value[S] == i
        chk.decide(ok, 'name-slot', U, 'AugerNameTotal', S + '_SHELL', '%s:%d' % (U, gat['ln']),
                   'AugerNameTotal[%d] = "%s", expected "%s-TOTAL"' % (i, augt[i] if i < len(augt) else None, S), why='"%s-TOTAL"' % S)
    for tname, arr in (('ShellName', shell), ('LineName', line), ('TransName', trans), ('AugerName', aug), ('AugerNameTotal', augt)):
        dup = sorted({x for x in arr if arr.count(x) > 1 and x})
        chk.decide(not dup, 'name-unique', U, tname, 'unique', U, 'duplicate names %s: only the first slot ever receives data' % dup,
                   why='%d distinct names' % len(arr))


# ------------------------------------------------------------------------------------------------ (b1)

def parser_wiring(prog, chk):
    U = 'src/xrayfiles.c'
    f = prog.func('XRayInitFromPath', unit=U)
    body = f['body']['c']
    cur = None
    found = []      # (file, table, nametable, bound, kev, line)
    for st in body:
        for c in calls_in(st, 'strcat'):
            a = strip_casts(c['args'][1])
            if a.get('k') == 'StringLiteral' and a.get('val', '').endswith('.dat'):
                cur = a['val']
        if st.get('k') != 'WhileStmt' or cur is None:
            continue
        # statements directly in the while body
        wb = st['body'].get('c', [])
        kev_vars = set()
        for s2 in wb:
            if s2.get('k') == 'CompoundAssignOperator' and s2['op'] == '/=' and s2['c'][0].get('k') == 'DeclRefExpr':
                try:
                    if Fraction(str(s2['c'][1].get('val'))) == 1000:
                        kev_vars.add(s2['c'][0]['name'])
                except Exception:
                    pass
        direct = []
        for s2 in wb:
            if s2.get('k') == 'BinaryOperator' and s2['op'] == '=' and s2['c'][0].get('k') == 'ArraySubscriptExpr':
                direct.append(s2)
        for a in direct:
            lhs = a['c'][0]
            if lhs['c'][0].get('k') == 'DeclRefExpr':
                found.append((cur, lhs['c'][0]['name'], None, None, show(a['c'][1]) in kev_vars, a['ln'], show(lhs['c'][1]), show(a['c'][1])))
        for lp in [n for n in walk(st['body']) if n.get('k') == 'ForStmt']:
            cond = lp.get('cond') or {}
            bound = None
            if cond.get('k') == 'BinaryOperator' and cond['op'] == '<':
                bound = cond['c'][1].get('m', [None])[-1] if cond['c'][1].get('m') else None
                ivar = cond['c'][0].get('name')
            # only loops that compare names and store
            cmp_ = calls_in(lp['body'], 'strcmp')
            stores = [n for n in walk(lp['body']) if n.get('k') == 'BinaryOperator' and n['op'] == '=' and
                      n['c'][0].get('k') == 'ArraySubscriptExpr' and n['c'][0]['c'][0].get('k') == 'ArraySubscriptExpr']
            if not cmp_ or not stores:
                continue
            nt = None
            for c in cmp_:
                for a in c['args']:
                    a = strip_casts(a)
                    if a.get('k') == 'ArraySubscriptExpr' and a['c'][0].get('k') == 'DeclRefExpr' and show(a['c'][1]) == ivar:
                        nt = a['c'][0]['name']
            init0 = any(x.get('k') == 'BinaryOperator' and x['op'] == '=' and x['c'][0].get('name') == ivar and x['c'][1].get('v') == 0
                        for x in walk(lp.get('init') or {}))
            for s_ in stores:
                lhs = s_['c'][0]
                tbl = lhs['c'][0]['c'][0].get('name')
                idx_ok = show(lhs['c'][1]) == ivar and show(lhs['c'][0]['c'][1]) == 'Z' and init0
                found.append((cur, tbl, nt, bound, show(s_['c'][1]) in kev_vars, s_['ln'], 'ok' if idx_ok else 'BAD-INDEX', show(s_['c'][1])))
    chk.floor('parser stores found', len(found), 11)
    for (fn, tbl, nt, bound, kev) in WIRING:
        rows = [r for r in found if r[1] == tbl]
        loc = '%s:%d' % (U, rows[0][5] if rows else f['ln'])
        if not rows:
            chk.bad('parser-wiring', U, 'XRayInitFromPath', tbl, loc, 'no parser loop stores into %s' % tbl)
            continue
        r = rows[0]
        ok = len(rows) == 1 and r[0] == fn and r[2] == nt and r[3] == bound and r[4] == kev and (r[6] in ('ok', 'Z'))
        chk.decide(ok, 'parser-wiring', U, 'XRayInitFromPath', tbl, loc,
                   '%s must be filled from %s, matching record names against %s[0..%s), %s; found file=%s names=%s bound=%s '
                   'keV-conversion=%s index=%s (%d stores)' % (tbl, fn, nt, bound, 'value/1000 (eV -> keV)' if kev else 'value as is',
                                                              r[0], r[2], r[3], r[4], r[6], len(rows)),
                   why='%s <- %s via %s, %s' % (tbl, fn, nt or 'Z only', '/1000' if kev else 'no conversion'))
    # no other store into these tables elsewhere in the parser
    known = {w[1] for w in WIRING}
    for r in found:
        if r[1] not in known:
            pass
    # defaults
    ai = prog.func('ArrayInit', unit=U)
    defaults = {}
    for n in walk(ai['body']):
        if n.get('k') == 'BinaryOperator' and n['op'] == '=':
            base = n['c'][0]
            while base.get('k') == 'ArraySubscriptExpr':
                base = base['c'][0]
            if base.get('k') == 'DeclRefExpr':
                v = n['c'][1]
                val = v.get('v')
                if val is None:
                    try:
                        val = float(Fraction(str(v.get('val')))) if v.get('k') in ('FloatingLiteral', 'IntegerLiteral') else None
                    except Exception:
                        val = None
                    if val is None and v.get('k') == 'UnaryOperator' and v.get('op') == '-':
                        try:
                            val = -float(v['c'][0].get('val'))
                        except Exception:
                            val = None
                defaults[base['name']] = (val, n['ln'])
    for (fn, tbl, nt, bound, kev) in WIRING:
        d = defaults.get(tbl)
        chk.decide(d is not None and d[0] is not None and d[0] <= 0, 'table-default', U, 'ArrayInit', tbl,
                   '%s:%d' % (U, d[1] if d else ai['ln']),
                   'cells of %s without a record must hold a non-positive default so that the accessor reports an error; '
                   'found %s' % (tbl, d[0] if d else 'no initialisation'), why='default %s <= 0' % (d[0] if d else None))


# ------------------------------------------------------------------------------------------------ (b2)

def printer_wiring(prog, chk):
    U = 'src/pr_data.c'
    f = prog.func('main', unit=U)
    body = f['body']['c']
    pv = prog.func('print_doublevec', unit=U)
    fmts = [strip_casts(c['args'][1]).get('val') for c in calls_in(pv['body'], 'fprintf') if len(c['args']) > 2]
    prec = []
    for s in fmts:
        m = re.search(r'%\.(\d+)[Ee]', s or '')
        if m:
            prec.append(int(m.group(1)))
    chk.decide(bool(prec) and min(prec) >= 10, 'printer-precision', U, 'print_doublevec', 'format', '%s:%d' % (U, pv['ln']),
               'table values are printed with formats %s: fewer than 11 significant digits are preserved' % fmts,
               why='%%.%dE (>= 11 significant digits)' % (min(prec) if prec else 0))
    decl = None
    ntab = 0
    tables = {w[1] for w in WIRING} - {'Auger_Transition_Total', 'Auger_Transition_Individual'}
    tables |= {'Electron_Config_Kissel', 'EdgeEnergy_Kissel', 'Auger_Yields', 'Auger_Rates'}
    seen = {}
    for i, st in enumerate(body):
        if st.get('k') == 'CallExpr' and st.get('callee') == 'fprintf' and len(st['args']) == 2:
            s = strip_casts(st['args'][1]).get('val', '')
            m = re.match(r'^double (\w+)((?:\[[^\]]+\])+) =', s)
            if m:
                decl = (m.group(1), re.findall(r'\[([^\]]+)\]', m.group(2)), st['ln'])
                continue
        if decl and st.get('k') == 'CallExpr' and st.get('callee') == 'print_doublevec':
            # one-dimensional table
            arr = show(st['args'][1])
            seen[decl[0]] = (arr, [show(st['args'][0])], decl[1], decl[2])
            decl = None
            continue
        if decl and st.get('k') == 'ForStmt':
            pcs = calls_in(st['body'], 'print_doublevec')
            if pcs:
                arr = pcs[0]['args'][1]
                base = arr
                while base.get('k') == 'ArraySubscriptExpr':
                    base = base['c'][0]
                rows = (st.get('cond') or {}).get('c', [{}, {}])[1]
                seen[decl[0]] = (base.get('name'), [str(rows.get('v')), str(pcs[0]['args'][0].get('v'))], decl[1], decl[2])
            decl = None
    for t in sorted(tables):
        if t not in seen:
            chk.bad('printer-wiring', U, 'main', t, '%s:%d' % (U, f['ln']), 'table %s is never printed into the generated unit' % t)
            continue
        arr, dims_loop, dims_txt, ln = seen[t]
        ntab += 1
        dims_decl = []
        for d in dims_txt:
            v = eval_dim(prog, d)
            dims_decl.append(str(v))
        g = prog.globals_named(t)
        ext = [str(x) for x in (g[0].get('dims') or [])] if g else []
        ok = arr == t and (dims_loop == dims_decl or len(dims_decl) == 1) and dims_decl == ext
        chk.decide(ok, 'printer-wiring', U, 'main', t, '%s:%d' % (U, ln),
                   'the generated definition of %s (extents %s, declared %s) is filled from %s with loop extents %s' % (
                       t, dims_decl, ext, arr, dims_loop), why='printed under its own name with its declared extents %s' % ext)
    chk.floor('printed scalar tables', ntab, 12)


def eval_dim(prog, txt):
    toks = re.findall(r'\w+|[+\-*/()]', txt)
    out = []
    for t in toks:
        if re.match(r'^[A-Za-z_]', t):
            v = prog.macro_value(t)
            out.append(str(v))
        else:
            out.append(t)
    try:
        return int(eval(''.join(out), {'__builtins__': {}}))
    except Exception:
        return None


# ------------------------------------------------------------------------------------------------ (c)

def accessors(prog, chk, names):
    zmax = prog.macro_value('ZMAX')
    for fn, U, tbl, xf, extm in ACCESSORS:
        f = prog.func(fn, unit=U)
        loc = '%s:%d' % (U, f['ln'])
        it, paths = run_function(prog, f, max_paths=4000)
        z = f['params'][0]['name']
        m = f['params'][1]['name'] if xf else None
        if xf is None:
            want = Rat.sym('%s[%s]' % (tbl, z))
        elif xf == 'id':
            want = Rat.sym('%s[%s][%s]' % (tbl, z, m))
        else:
            want = Rat.sym('%s[%s][-1*%s + -1]' % (tbl, z, m))
        cell = [p for p in value_paths(it, paths) if p.ret.equals(want)]
        # group macros (LineEnergy/RadRate) have their own paths: handled by C10; here the single-line path only
        chk.decide(len(cell) == 1, 'accessor-load', U, fn, 'cell', loc,
                   '%s must return exactly the cell %s on its single-value path; value paths return %s' % (
                       fn, want.canon(), sorted({p.ret.canon()[:80] for p in value_paths(it, paths)})[:4]),
                   why='returns %s' % want.canon())
        if len(cell) != 1:
            continue
        p = cell[0]
        ivz = it.interval_of(Rat.sym(z), p)
        chk.decide(ivz.lo == 1 and ivz.hi == zmax, 'accessor-Z-range', U, fn, 'Z', loc,
                   'accepted Z range on the value path is [%s, %s]; must be [1, %d]' % (ivz.lo, ivz.hi, zmax), why='Z in [1, ZMAX]')
        if xf:
            ext = prog.macro_value(extm)
            iv = it.interval_of(Rat.sym(m), p)
            if xf == 'id':
                lo_ok = iv.lo in (0, 1) if fn == 'CosKronTransProb' else iv.lo == 0
                okr = lo_ok and iv.hi == ext - 1
                msg = 'accepted macro range is [%s, %s]; the table extent is %s = %d, so it must be [0, %d]' % (iv.lo, iv.hi, extm, ext, ext - 1)
            else:
                okr = iv.lo == -ext and iv.hi == -1
                msg = 'accepted line macro range is [%s, %s]; with %s = %d it must be [-%d, -1]' % (iv.lo, iv.hi, extm, ext, ext)
            chk.decide(okr, 'accessor-macro-range', U, fn, m, loc, msg +
                       (' - a wider range reads a neighbouring row/table, a narrower one rejects valid macros'),
                       why='guard equals the extent %s' % extm)
            # no single macro is carved out of the range and served from somewhere else (another slot, a constant): the only macros with
            # a branch of their own are the composed lines of LineEnergy (the doublets and KO / KP, property C10)
            carved = sorted(int(x) for x in (iv.ne or ()))
            allowed = set()
            if fn == 'LineEnergy':
                allowed = {names.line_value[n_] for n_ in names.line_value if names.is_doublet(n_)} | \
                    {names.line_value[n_] for n_ in ('KO', 'KP') if n_ in names.line_value}
            foreign = [v for v in carved if v not in allowed]
            # the same, seen from the branch: a value path on which the macro is pinned to one single-line value must return that macro's own cell
            for q in value_paths(it, paths):
                if q is p:
                    continue
                qi = it.interval_of(Rat.sym(m), q)
                if qi.lo is None or qi.lo != qi.hi:
                    continue
                c_ = int(qi.lo)
                in_range = (0 <= c_ <= ext - 1) if xf == 'id' else (-ext <= c_ <= -1)
                if not in_range or c_ in allowed:
                    continue
                own = Rat.sym('%s[%s][%d]' % (tbl, z, c_ if xf == 'id' else -c_ - 1))
                if not q.ret.equals(own) and c_ not in foreign:
                    foreign.append(c_)
            chk.decide(not foreign, 'accessor-macro-range', U, fn, m + ' carve-outs', loc,
                       'the macros %s are taken out of the table path and answered by a branch of their own: their records in the data file are no longer '
                       'what the accessor returns' % [names.line_by_value.get(v, v) if xf != 'id' else v for v in foreign],
                       why='every macro of the range is served from its own cell%s' % (' (composed lines excepted)' if allowed else ''))
        iv = it.interval_of(want, p)
        chk.decide(iv.lo == 0 and iv.los, 'accessor-positivity', U, fn, 'cell>0', loc,
                   'the value path does not require the cell to be strictly positive (found %s): a default/"no data" cell would be '
                   'returned as a number' % iv, why='cell > 0')
        for q in zero_paths(it, paths):
            if not sets_error(q):
                chk.bad('accessor-error', U, fn, 'zero-without-error@%d' % q.ret_node['ln'], '%s:%d' % (U, q.ret_node['ln']),
                        'returns 0 without reporting an error')
            else:
                chk.ok('accessor-error', '%s@%d' % (fn, q.ret_node['ln']), 'error reported', nontrivial=False)
    # ElectronConfig_Biggs: data-dependent upper bound
    U = 'src/comptonprofiles.c'
    f = prog.func('ElectronConfig_Biggs', unit=U)
    it, paths = run_function(prog, f)
    z, m = f['params'][0]['name'], f['params'][1]['name']
    want = Rat.sym('UOCCUP_ComptonProfiles[%s][%s]' % (z, m))
    cell = [p for p in value_paths(it, paths) if p.ret.equals(want)]
    loc = '%s:%d' % (U, f['ln'])
    chk.decide(len(cell) == 1, 'accessor-load', U, 'ElectronConfig_Biggs', 'cell', loc, 'must return UOCCUP_ComptonProfiles[Z][shell]',
               why='returns the occupancy cell')
    if cell:
        p = cell[0]
        iv = it.interval_of(Rat.sym(m), p)
        chk.decide(iv.lo == 0, 'accessor-macro-range', U, 'ElectronConfig_Biggs', m, loc,
                   'negative shell values are accepted (lower bound %s): UOCCUP_ComptonProfiles[Z][shell] is read before the table' % iv.lo,
                   why='shell >= 0')
        up = it.interval_of(Rat.sym(m) - Rat.sym('NShells_ComptonProfiles[%s]' % z), p)
        chk.decide(up.hi is not None and up.hi <= -1, 'accessor-macro-range', U, 'ElectronConfig_Biggs', m + ' upper', loc,
                   'shell is not bounded by NShells_ComptonProfiles[Z]', why='shell < NShells[Z]')
        # no constant cap below the deepest tabulated shell: the occupancy table has as many columns as the longest record of the data file
        from xvlib.coverage import DataFacts
        mx = max(DataFacts(prog).table('NShells_ComptonProfiles').values())
        chk.decide(iv.hi is None or iv.hi >= mx - 1, 'accessor-macro-range', U, 'ElectronConfig_Biggs', m + ' cap', loc,
                   'shells above %s are refused although data/comptonprofiles.dat records occupancies for %d shells (up to shell value %d): '
                   'recorded values are answered with an error' % (iv.hi, mx, mx - 1), why='every tabulated shell (0..%d) can be served' % (mx - 1))
        ivz = it.interval_of(Rat.sym(z), p)
        chk.decide(ivz.lo == 1 and ivz.hi == zmax, 'accessor-Z-range', U, 'ElectronConfig_Biggs', 'Z', loc, 'Z range [%s,%s]' % (ivz.lo, ivz.hi),
                   why='Z in [1, ZMAX]')


# ------------------------------------------------------------------------------------------------ (b3)

def fmt(x):
    return '%.10E' % x


def generated_cells(prog, chk, names):
    gen = inittab.read_generated(prog.generated_path)
    zmax = prog.macro_value('ZMAX')
    mv = prog.macro_value
    xv = 'src/xrayvars.c'
    nt = {n: inittab.evaluate(prog.global_def(n, unit=xv)['init']) for n in ('ShellName', 'LineName', 'TransName')}
    outd = -9999.0
    chk.programs = 0
    total = 0
    bad = 0
    specs = [
        ('atomicweight.dat', 'AtomicWeight_arr', None, False, outd),
        ('densities.dat', 'ElementDensity_arr', None, False, outd),
        ('edges.dat', 'EdgeEnergy_arr', 'ShellName', True, outd),
        ('fluor_lines.dat', 'LineEnergy_arr', 'LineName', True, 0.0),
        ('atomiclevelswidth.dat', 'AtomicLevelWidth_arr', 'ShellName', True, outd),
        ('fluor_yield.dat', 'FluorYield_arr', 'ShellName', False, outd),
        ('jump.dat', 'JumpFactor_arr', 'ShellName', False, outd),
        ('coskron.dat', 'CosKron_arr', 'TransName', False, 0.0),
        ('radrate.dat', 'RadRate_arr', 'LineName', False, 0.0),
    ]
    for fn, tbl, ntn, kev, dflt in specs:
        g = gen.get(tbl)
        if not g:
            chk.bad('generated-cell', 'src/xrayglob_inline.c', tbl, 'present', 'xrayglob_inline.c', 'table %s missing from the generated unit' % tbl)
            continue
        chk.programs += 1
        exp = {}
        problems = []
        if ntn is None:
            for z, val in datafiles.pairs(prog.repo, fn):
                if not (0 <= z <= zmax):
                    problems.append('record for Z=%d outside [0, ZMAX]' % z)
                    continue
                exp[z] = float(val)
            for z in range(zmax + 1):
                total += 1
                want = fmt(exp.get(z, dflt))
                got = g['value'][z]
                if fmt(float(got)) != want:
                    bad += 1
                    if bad <= 15:
                        chk.bad('generated-cell', 'src/xrayglob_inline.c', tbl, 'Z=%d' % z, 'xrayglob_inline.c',
                                '%s[%d] = %s in the generated unit; data/%s gives %s' % (tbl, z, got, fn, want))
        else:
            slot = {n: i for i, n in reversed(list(enumerate(nt[ntn])))}
            for z, nm, val in datafiles.triples(prog.repo, fn):
                if not (0 <= z <= zmax):
                    problems.append('record for Z=%d outside [0, ZMAX]' % z)
                    continue
                if nm not in slot:
                    problems.append('record name %s (Z=%d) is in no slot of %s: dropped' % (nm, z, ntn))
                    continue
                v = float(val)
                if kev:
                    v = v / 1000.0
                exp[(z, slot[nm])] = v
            ncol = len(g['value'][0])
            for z in range(zmax + 1):
                row = g['value'][z]
                for s in range(ncol):
                    total += 1
                    want = fmt(exp.get((z, s), dflt))
                    if fmt(float(row[s])) != want:
                        bad += 1
                        if bad <= 15:
                            chk.bad('generated-cell', 'src/xrayglob_inline.c', tbl, 'Z=%d slot=%d(%s)' % (z, s, nt[ntn][s] if s < len(nt[ntn]) else '?'),
                                    'xrayglob_inline.c', '%s[%d][%d] = %s in the generated unit; data/%s record %s gives %s' % (
                                        tbl, z, s, row[s], fn, nt[ntn][s] if s < len(nt[ntn]) else '?', want))
        for pr in problems[:10]:
            chk.bad('data-record-dropped', 'data/' + fn, tbl, pr, 'data/' + fn, pr)
        if not problems:
            chk.ok('data-record-dropped', fn, 'every record has a slot and Z in range (a later record for the same (Z, name) overrides an earlier one, as in the parser)', 'data/' + fn)
    chk.disagreements_checked = bad
    chk.coverage_extra['generated_cells_compared'] = total
    if bad == 0:
        chk.ok('generated-cell', 'all %d cells of %d tables' % (total, chk.programs), 'string-equal to %.10E of the data record or the default', 'xrayglob_inline.c')
