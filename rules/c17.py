"""C17 - concurrent queries from many threads are race-free and agree with serial results.

Sufficient condition decided statically: the thread-safe API (everything except the documented crystal mutators) shares
no mutable state and calls, transitively, no function that glibc documents as MT-Unsafe."""
from xvlib.core import Check
from xvlib.frontend import AnalysisBroken
from xvlib.effects import lib_functions, global_names, call_graph, reachable, path_to, lvalue_root, writes
from xvlib.facts import walk, show, strip_casts
from rules.c16 import MUTATORS, transparent_owners

# frozen from the glibc manual (safety annotations); one line of reason each
MT_UNSAFE = {
    'setlocale': 'MT-Unsafe const:locale env - changes the process-wide locale that strtod/printf of every thread read',
    'strtok': 'MT-Unsafe race:strtok', 'rand': 'MT-Safe but shares one hidden generator state: results depend on other threads',
    'srand': 'shares the hidden generator state', 'localtime': 'MT-Unsafe race:tmbuf', 'gmtime': 'MT-Unsafe race:tmbuf',
    'asctime': 'MT-Unsafe race:asctime', 'ctime': 'MT-Unsafe race:tmbuf race:asctime', 'getpwnam': 'MT-Unsafe race:pwnam',
    'readdir': 'MT-Unsafe race:dirstream', 'tmpnam': 'MT-Unsafe race:tmpnam/!s', 'ttyname': 'MT-Unsafe race:ttyname',
    'strsignal': 'MT-Unsafe race:strsignal', 'putenv': 'MT-Unsafe const:env', 'setenv': 'MT-Unsafe const:env',
    'getopt': 'MT-Unsafe race:getopt', 'drand48': 'MT-Unsafe race:drand48', 'lrand48': 'MT-Unsafe race:drand48',
    'ecvt': 'MT-Unsafe race:ecvt', 'fcvt': 'MT-Unsafe race:fcvt', 'exit': 'MT-Unsafe race:exit',
}
MT_ALLOWED = {'strerror': 'MT-Safe since glibc 2.32 (thread-local buffer); used only to format allocation-failure messages'}


def run(prog, tier):
    chk = Check('C17', tier, 'other',
                'Race freedom by absence of sharing: for every function reachable from the thread-safe API, no write to a file-scope '
                'or static object (the only writers are the documented crystal mutators, excluded from the thread-safe API), no '
                'static local, and no transitive call to a function the glibc manual marks MT-Unsafe (frozen list). Error objects '
                'are per-call heap objects stored only through the caller\'s own slot.',
                ['clang front end', 'call graph incl. constant function tables', 'glibc manual safety annotations (frozen table)'],
                ['scheduling-dependent behaviour of code that shares nothing is not a question; agreement with serial results follows '
                 'from purity (C16)'])
    funcs = lib_functions(prog)
    globs = set(global_names(prog))
    cg = call_graph(prog, funcs)
    exported = sorted(n for n, f in funcs.items() if not f['static'])
    safe_api = [n for n in exported if n not in MUTATORS]
    chk.floor('thread-safe entry points', len(safe_api), 180)
    # (a) shared state reachable from the thread-safe API
    reach_all = set()
    reach_of = {}
    for n in safe_api:
        r = reachable(cg, n)
        reach_of[n] = r
        reach_all |= r
    for name in sorted(reach_all & set(funcs)):
        f = funcs[name]
        statics = [n for n in walk(f['body']) if n.get('k') == 'var' and n.get('cls') == 'slocal']
        chk.decide(not statics, 'no-shared-state', f['unit'], name, 'static locals', '%s:%d' % (f['rel'], statics[0]['ln'] if statics else f['ln']),
                   'static local(s) %s are shared by all threads that call this function (reachable from the thread-safe API): data race' % [s['name'] for s in statics],
                   why='no static local')
        if name in MUTATORS:
            # a mutator reached from the thread-safe API would make that API unsafe
            callers = [a for a in safe_api if name in reach_of[a]]
            chk.bad('no-shared-state', f['unit'], name, 'mutator reachable', '%s:%d' % (f['rel'], f['ln']),
                    'the crystal mutator %s is reachable from thread-safe entry points %s' % (name, callers[:4]))
            continue
        gw = []
        for node, lhs, kind in writes(f):
            root, deref = lvalue_root(lhs)
            if root is not None and root.get('cls') in ('global', 'slocal') and root['name'] in globs | {root['name']}:
                gw.append((node, root['name']))
        chk.decide(not gw, 'no-shared-state', f['unit'], name, 'writes to shared objects', '%s:%d' % (f['rel'], gw[0][0]['ln'] if gw else f['ln']),
                   'writes the shared object(s) %s without synchronisation' % sorted({g for _, g in gw}), why='writes only locals, fresh heap and out-parameters')
    # (a2) the same through aliases: a store that reaches a file-scope object through a local pointer or through the result of
    # bsearch/lfind over a shared array (alias resolution on the abstract paths, shared with rules/c16.py)
    from rules.c16 import alias_stores
    na = 0
    for name, f, leadname, e in alias_stores(prog, globs):
        if name not in reach_all or name in MUTATORS:
            continue
        na += 1
        chk.bad('no-shared-state', f['unit'], name, 'store@%s' % (e.lv[:60]), '%s:%d' % (f['rel'], e.node.get('ln', 0)),
                'a store reaches the shared object %s through %s: %s is reachable from the thread-safe API, so concurrent calls race on it' % (leadname, e.lv[:80], name))
    if not na:
        chk.ok('no-shared-state', 'alias-resolved stores', 'no store of a thread-safe function reaches a file-scope object through an alias', 'src')
    # (b) MT-unsafe services: reported at the direct call site, with the entry points that reach it
    seen_mt = set()
    for name in sorted(reach_all & set(funcs)):
        f = funcs[name]
        for callee in sorted(cg.get(name, ())):
            if callee in MT_UNSAFE:
                ln = next((n['ln'] for n in walk(f['body']) if n.get('k') == 'CallExpr' and n.get('callee') == callee), f['ln'])
                # a call made in a transparent static helper is the call of the function(s) the helper works for
                for owner in sorted(transparent_owners(funcs, cg, name)):
                    entries = [a for a in safe_api if owner in reach_of[a]]
                    if not entries or (owner, callee) in seen_mt:
                        continue
                    seen_mt.add((owner, callee))
                    chk.bad('mt-unsafe-call', funcs[owner]['unit'], owner, callee, '%s:%d' % (f['rel'], ln),
                            '%s calls %s%s (%s); %d thread-safe entry points reach it (%s ...): concurrent calls race on process-wide state' % (
                                owner, callee, '' if owner == name else ' through its helper %s' % name, MT_UNSAFE[callee], len(entries), ', '.join(entries[:6])))
            elif callee in MT_ALLOWED:
                chk.ok('mt-unsafe-call', '%s:%s' % (name, callee), 'allowed: ' + MT_ALLOWED[callee], '%s:%d' % (f['rel'], f['ln']), nontrivial=False)
    for n in safe_api:
        bad = sorted(x for x in reach_of[n] if x in MT_UNSAFE)
        if not bad:
            chk.ok('mt-unsafe-call', n, 'no MT-Unsafe function among %d reachable' % len(reach_of[n]), nontrivial=False)
    # (b2) the documented mutators: "only explicit modification of a SHARED crystal collection requires external locking" - called on
    # private collections they must not share anything else: no hidden libc state (strtok, ...), no static locals, and the only
    # file-scope object they may write is the built-in collection itself
    for m in sorted(MUTATORS):
        if m not in funcs:
            continue
        for name in sorted(reachable(cg, m) & set(funcs)):
            f = funcs[name]
            statics = [n for n in walk(f['body']) if n.get('k') == 'var' and n.get('cls') == 'slocal']
            chk.decide(not statics, 'mutator-private-state', f['unit'], name, 'static locals (via %s)' % m, '%s:%d' % (f['rel'], statics[0]['ln'] if statics else f['ln']),
                       'static local(s) %s are shared by threads that work on their own private collections' % [s_['name'] for s_ in statics], why='no static local')
            gw = sorted({root['name'] for node, lhs, kind in writes(f) for root, deref in [lvalue_root(lhs)]
                         if root is not None and root.get('cls') in ('global', 'slocal') and root['name'] != MUTATORS.get(m, MUTATORS[m])})
            chk.decide(not gw, 'mutator-private-state', f['unit'], name, 'shared objects (via %s)' % m, '%s:%d' % (f['rel'], f['ln']),
                       'writes the file-scope object(s) %s, which threads working on private collections share' % gw,
                       why='writes only its arguments, locals, fresh heap and the collection it was given')
            for callee in sorted(cg.get(name, ())):
                if callee in MT_UNSAFE and callee != 'exit':
                    ln = next((n['ln'] for n in walk(f['body']) if n.get('k') == 'CallExpr' and n.get('callee') == callee), f['ln'])
                    chk.bad('mutator-private-state', f['unit'], name, '%s (via %s)' % (callee, m), '%s:%d' % (f['rel'], ln),
                            '%s calls %s (%s): threads that fill their own private collections still share that hidden state' % (name, callee, MT_UNSAFE[callee]))
    # (c) error objects: only created by the error constructors and stored through the slot parameter
    for name in ('xrl_set_error', 'xrl_set_error_literal', 'xrl_propagate_error'):
        f = funcs[name]
        ok = True
        for node, lhs, kind in writes(f):
            root, deref = lvalue_root(lhs)
            if root is not None and root.get('cls') not in ('param', 'local'):
                ok = False
        chk.decide(ok, 'error-objects-per-call', f['unit'], name, 'stores', '%s:%d' % (f['rel'], f['ln']),
                   'the error mechanism writes something other than the caller\'s slot', why='stores only through the caller\'s slot')
    return chk
