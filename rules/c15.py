"""C15 - built-in databases are self-consistent and addressable in every documented way.

Everything is read from initialisers (hand-written catalogues through the AST; crystals from
data/Crystals.dat, and in the thorough tier from the generated unit), header macros and the bodies of
the lookup functions.  The space (180 compounds, 10 nuclides, 107 elements, 38 crystals, the header
index macros, 11 lookup functions) is finite and enumerated completely.
"""
import re
from fractions import Fraction

from xvlib.core import Check
from xvlib.frontend import AnalysisBroken
from xvlib import inittab, datafiles
from xvlib.facts import walk, show, is_call, calls_in, strip_casts
from xvlib.inittab import Ref, Lit
from xvlib.names import Names
from xvlib.normform import Normalizer, NotInClass

NEEDS_GENERATED = True


def nist_macro_name(name):
    s = re.sub(r'[,/()]', '', name)
    s = re.sub(r'[^A-Za-z0-9]', '_', s)
    return 'NIST_COMPOUND_' + s.upper()


def glob_array(prog, ref, unit):
    if not isinstance(ref, Ref):
        return None
    g = prog.global_def(ref.name, unit=unit, required=False)
    if g is None or 'init' not in g:
        return None
    return g


def run(prog, tier):
    chk = Check('C15', tier, 'proof',
                'Exhaustive static evaluation of the catalogue initialisers (NIST compounds, radionuclides, Mendel '
                'table, crystals), of the index macros in the public headers and of the bodies of the lookup/list/'
                'copy functions: every entry is well formed, every macro equals the index of the entry it names, '
                'the three access paths of each catalogue read the same array with the same count, and every '
                'lookup builds a deep copy whose arrays are sized by the length field that describes them.',
                ['clang 14 front end (initialiser trees, constant evaluation) via xrl-facts',
                 'independent readers of data/atomicweight.dat, fluor_lines.dat, Crystals.dat (xvlib/datafiles.py)',
                 'Python Fraction arithmetic (mass-fraction sums are exact decimals)'],
                ['tolerance on mass-fraction sums is the rounding of the 6-decimal table: |sum-1| <= n*5e-7 + 1e-6'])
    chk.exhaustive = True
    names = Names(prog)
    repo = prog.repo
    zmax = prog.macro_value('ZMAX')
    aw = {z: Fraction(v) for z, v in datafiles.pairs(repo, 'atomicweight.dat')}
    chk.floor('atomic weights read', len(aw), 90)

    nist(prog, chk, aw, zmax)
    nuclides(prog, chk, names, zmax)
    elements(prog, chk)
    sorted_twin(prog, chk)
    crystals(prog, chk, zmax, tier)
    access_paths(prog, chk)
    crystal_collection(prog, chk, tier)
    java_deep_copies(prog, chk)
    return chk


def crystal_collection(prog, chk, tier):
    """The crystal catalogue is a name-sorted vector searched with bsearch: "lookup by name and the name list describe the same entries
    in the same order" holds only while every operation that adds entries leaves the WHOLE vector sorted with the comparator that agrees
    with the search, and rejects duplicates.  That is decided by rules/c14.py; its verdicts on these clauses are read here."""
    from rules import c14
    shim = Check('C15', tier, 'other', '', [], [])
    c14.add_crystal(prog, shim)
    c14.comparators(prog, shim)
    c14.read_file(prog, shim)
    take = ('sorted-after-append', 'order-agrees-with-search', 'duplicates-rejected')
    n = 0
    for rule, inst, why, loc in shim.held:
        if rule in take:
            n += 1
            chk.ok('crystal-catalogue-sorted', '%s: %s' % (rule, inst), why, loc)
    for v in shim.violations:
        if v['rule'] in take:
            n += 1
            chk.bad('crystal-catalogue-sorted', v['unit'], v['function'], '%s: %s' % (v['rule'], v['instance']), v['loc'],
                    'after this operation lookup by name (bsearch) and the name list no longer describe the same entries: ' + v['message'])
    chk.floor('obligations on the order of the crystal catalogue', n, 6)


def java_deep_copies(prog, chk):
    """"every lookup returns an independent deep copy" in the Java binding: the lookups hand out `new T(catalogue entry)`, so the copy
    constructor of every catalogue class must give each array member an array of its own (new + arraycopy / element-wise copy,
    clone(), Arrays.copyOf) - assigning the source's array shares it, and a caller who writes into its copy rewrites the catalogue."""
    ju = [u for u in prog.units if u.get('lang') == 'java']
    if not ju:
        chk.note('Java sources not parsed: deep copies of the Java binding not decided')
        return
    n = 0
    for c in ju[0]['classes']:
        arrays = [fl['name'] for fl in c.get('fields', []) if '[]' in (fl.get('T') or '') and not fl.get('static')]
        for m in c['functions']:
            if m['name'] != c['name'] or len(m.get('params', [])) != 1 or m['params'][0].get('T') != c['name'] or 'body' not in m:
                continue
            src = m['params'][0]['name']
            for fld in arrays:
                n += 1
                shared = fresh = False
                for x in walk(m['body']):
                    if x.get('k') == 'BinaryOperator' and x.get('op') == '=' and show(x['c'][0]).replace('this.', '') == fld:
                        rhs = strip_casts(x['c'][1])
                        if rhs.get('k') == 'MemberExpr' and (rhs.get('text') or show(rhs)).replace(' ', '') == '%s.%s' % (src, fld):
                            shared = True
                        elif rhs.get('k') in ('NewExpr', 'NewArray') or (rhs.get('k') == 'CallExpr' and rhs.get('callee') in ('clone', 'copyOf', 'copyOfRange')):
                            fresh = True
                chk.decide(fresh and not shared, 'java-deep-copy', c['rel'], '%s(%s)' % (c['name'], c['name']), fld, '%s:%d' % (c['rel'], m['ln']),
                           'the copy constructor %s the array member %s: the object handed out by the lookups shares it with the catalogue entry' % (
                               'assigns the source\'s array to' if shared else 'does not allocate', fld), why='own array for %s' % fld)
    chk.floor('array members of Java catalogue classes with a copy constructor', n, 7)


# --------------------------------------------------------------------------------------------------

def nist(prog, chk, aw, zmax):
    U = 'src/xraylib-nist-compounds.c'
    H = 'src/xraylib-nist-compounds-internal.h'
    lst = prog.global_def('compoundDataNISTList', unit=U)
    cnt = prog.global_def('nCompoundDataNISTList', unit=U)
    entries = inittab.evaluate(lst['init'])
    n_decl = inittab.evaluate(cnt['init'])
    chk.floor('NIST entries', len(entries), 150)
    chk.decide(n_decl == len(entries), 'catalogue-count', U, 'compoundDataNISTList', 'nCompoundDataNISTList',
               '%s:%d' % (H, cnt['ln']),
               'nCompoundDataNISTList = %s but the array holds %d entries: by-index and list access %s' % (
                   n_decl, len(entries), 'read past the end' if n_decl > len(entries) else 'hide the last entries'),
               why='declared count = number of initialisers = %d' % len(entries))
    rec = prog.record('compoundDataNIST')
    fld = [f['name'] for f in rec['fields']]
    want = ['name', 'nElements', 'Elements', 'massFractions', 'density']
    if fld != want:
        raise AnalysisBroken('struct compoundDataNIST changed shape: %s' % fld)
    seen = {}
    used_arrays = {}
    for i, e in enumerate(entries):
        name, nel, el, mf, dens = e
        loc = '%s:%d' % (H, lst['ln'] + 1 + i)
        inst = 'entry[%d] %s' % (i, name)
        ga, gm = glob_array(prog, el, U), glob_array(prog, mf, U)
        if ga is None or gm is None:
            chk.bad('nist-entry', U, 'compoundDataNISTList', inst, loc, 'Elements/massFractions do not reference initialised arrays')
            continue
        els = inittab.evaluate(ga['init'])
        mfs = inittab.evaluate(gm['init'])
        for r_ in (el.name, mf.name):
            if r_ in used_arrays:
                chk.bad('nist-entry', U, 'compoundDataNISTList', inst, loc,
                        'array %s is shared with entry %d' % (r_, used_arrays[r_]))
            used_arrays[r_] = i
        chk.decide(nel == len(els) == len(mfs), 'nist-lengths', U, 'compoundDataNISTList', inst, loc,
                   'nElements = %s but Elements has %d and massFractions %d initialisers: the copy made by the lookup '
                   'functions %s' % (nel, len(els), len(mfs),
                                     'reads beyond the arrays' if nel > min(len(els), len(mfs)) else 'truncates the compound'),
                   why='nElements = len(Elements) = len(massFractions) = %d' % nel)
        asc = all(a < b for a, b in zip(els, els[1:]))
        chk.decide(asc, 'nist-ascending', U, 'compoundDataNISTList', inst, loc,
                   'elements are not strictly ascending: %s' % els, why='strictly ascending Z')
        okz = all(isinstance(z, int) and 1 <= z <= zmax and aw.get(z, 0) > 0 for z in els)
        chk.decide(okz, 'nist-valid-Z', U, 'compoundDataNISTList', inst, loc,
                   'element list %s contains a Z outside 1..%d or without atomic weight' % (els, zmax),
                   why='every Z in 1..ZMAX with an atomic weight')
        pos = all(Fraction(x) > 0 for x in mfs)
        chk.decide(pos, 'nist-fractions-positive', U, 'compoundDataNISTList', inst, loc,
                   'non-positive mass fraction in %s' % [float(x) for x in mfs], why='all > 0')
        s = sum(Fraction(x) for x in mfs)
        tol = Fraction(len(mfs) * 5, 10 ** 7) + Fraction(1, 10 ** 6)
        chk.decide(abs(s - 1) <= tol, 'nist-fractions-sum', U, 'compoundDataNISTList', inst, loc,
                   'mass fractions sum to %.7f (|sum-1| = %.2e > %.2e)' % (float(s), float(abs(s - 1)), float(tol)),
                   why='sum = %.7f' % float(s))
        chk.decide(Fraction(dens) > 0, 'nist-density', U, 'compoundDataNISTList', inst, loc,
                   'density %s is not positive' % dens, why='density > 0')
        chk.decide(name not in seen, 'nist-unique-name', U, 'compoundDataNISTList', inst, loc,
                   'name duplicates entry %s: lookup by name can never return this entry' % seen.get(name), why='unique')
        seen.setdefault(name, i)
        # header macro
        mname = nist_macro_name(name)
        mv = prog.macro_value(mname)
        m = prog.macro(mname)
        if m is None or not prog.rel(m['file']).startswith('include/'):
            chk.bad('nist-index-macro', 'include/xraylib-nist-compounds.h', 'macros', inst, 'include/xraylib-nist-compounds.h',
                    'no header macro %s for catalogue entry %d "%s"' % (mname, i, name))
        else:
            chk.decide(mv == i, 'nist-index-macro', 'include/xraylib-nist-compounds.h', 'macros', inst,
                       'include/xraylib-nist-compounds.h:%d' % m['ln'],
                       '%s = %s but "%s" is entry %d of the catalogue: GetCompoundDataNISTByIndex(%s) returns "%s"' % (
                           mname, mv, name, i, mname, entries[mv][0] if isinstance(mv, int) and 0 <= mv < len(entries) else '?'),
                       why='%s = %d' % (mname, i))
    # every NIST_COMPOUND_ macro names an entry; values dense
    macros = [m for m in prog.macros_in('include/xraylib-nist-compounds.h') if m['name'].startswith('NIST_COMPOUND_')]
    expected = {nist_macro_name(e[0]) for e in entries}
    vals = []
    for m in macros:
        vals.append(prog.macro_value(m['name']))
        chk.decide(m['name'] in expected, 'nist-index-macro', 'include/xraylib-nist-compounds.h', 'macros', m['name'],
                   'include/xraylib-nist-compounds.h:%d' % m['ln'],
                   'header macro %s corresponds to no catalogue entry' % m['name'], why='names an entry')
    chk.decide(sorted(v for v in vals if isinstance(v, int)) == list(range(len(entries))), 'nist-index-macro',
               'include/xraylib-nist-compounds.h', 'macros', 'dense', 'include/xraylib-nist-compounds.h',
               'macro values are not exactly 0..%d' % (len(entries) - 1), why='values are exactly 0..n-1')


def nuclides(prog, chk, names, zmax):
    U = 'src/xraylib-radionuclides.c'
    H = 'src/xraylib-radionuclides-internal.h'
    lst = prog.global_def('nuclideDataList', unit=U)
    cnt = prog.global_def('nNuclideDataList', unit=U)
    entries = inittab.evaluate(lst['init'])
    n_decl = inittab.evaluate(cnt['init'])
    chk.floor('radionuclide entries', len(entries), 8)
    chk.decide(n_decl == len(entries), 'catalogue-count', U, 'nuclideDataList', 'nNuclideDataList', '%s:%d' % (H, cnt['ln']),
               'nNuclideDataList = %s but the array holds %d entries' % (n_decl, len(entries)),
               why='declared count = number of initialisers = %d' % len(entries))
    rec = prog.record('radioNuclideData')
    fld = [f['name'] for f in rec['fields']]
    want = ['name', 'Z', 'A', 'N', 'Z_xray', 'nXrays', 'XrayLines', 'XrayIntensities', 'nGammas', 'GammaEnergies',
            'GammaIntensities']
    if fld != want:
        raise AnalysisBroken('struct radioNuclideData changed shape: %s' % fld)
    mendel = inittab.evaluate(prog.global_def('MendelArray')['init'])
    sym = {z: s for z, s in mendel}
    # shipped line energies
    le = {}
    for z, nm, val in datafiles.triples(prog.repo, 'fluor_lines.dat'):
        if float(val) > 0:
            le[(z, nm)] = val
    chk.floor('line energy records', len(le), 10000)
    seen = {}
    for i, e in enumerate(entries):
        name, Z, A, N, Zx, nx, xl, xi, ng, ge, gi = e
        loc = '%s:%d' % (H, lst['ln'] + 1 + i)
        inst = 'entry[%d] %s' % (i, name)
        chk.decide(A == Z + N, 'nuclide-A=Z+N', U, 'nuclideDataList', inst, loc, 'A = %s but Z + N = %s + %s' % (A, Z, N),
                   why='A = Z + N')
        chk.decide(name == '%d%s' % (A, sym.get(Z, '?')), 'nuclide-name', U, 'nuclideDataList', inst, loc,
                   'name "%s" is not A followed by the symbol of Z ("%d%s")' % (name, A, sym.get(Z, '?')),
                   why='name = A + symbol(Z)')
        chk.decide(name not in seen, 'nuclide-unique-name', U, 'nuclideDataList', inst, loc, 'duplicate name', why='unique')
        seen[name] = i
        arrs = {}
        bad = False
        for fname, ref in (('XrayLines', xl), ('XrayIntensities', xi), ('GammaEnergies', ge), ('GammaIntensities', gi)):
            g = glob_array(prog, ref, U)
            if g is None:
                chk.bad('nuclide-lengths', U, 'nuclideDataList', inst, loc, '%s does not reference an initialised array' % fname)
                bad = True
                continue
            arrs[fname] = inittab.evaluate(g['init'], keep_lit=True)
        if bad:
            continue
        chk.decide(nx == len(arrs['XrayLines']) == len(arrs['XrayIntensities']), 'nuclide-lengths', U, 'nuclideDataList',
                   inst + ' nXrays', loc, 'nXrays = %s but XrayLines has %d and XrayIntensities %d entries' % (
                       nx, len(arrs['XrayLines']), len(arrs['XrayIntensities'])), why='nXrays = both array lengths = %s' % nx)
        chk.decide(ng == len(arrs['GammaEnergies']) == len(arrs['GammaIntensities']), 'nuclide-lengths', U,
                   'nuclideDataList', inst + ' nGammas', loc, 'nGammas = %s but GammaEnergies has %d and GammaIntensities %d entries' % (
                       ng, len(arrs['GammaEnergies']), len(arrs['GammaIntensities'])), why='nGammas = both array lengths = %s' % ng)
        for fname in ('XrayIntensities', 'GammaEnergies', 'GammaIntensities'):
            okp = all(Fraction(x.value) > 0 for x in arrs[fname])
            chk.decide(okp, 'nuclide-positive', U, 'nuclideDataList', inst + ' ' + fname, loc,
                       '%s contains a non-positive value' % fname, why='all > 0')
        chk.decide(isinstance(Zx, int) and 1 <= Zx <= zmax, 'nuclide-Zxray', U, 'nuclideDataList', inst, loc,
                   'Z_xray = %s outside 1..ZMAX' % Zx, why='valid Z_xray')
        # every X-ray line has an energy for the daughter element
        for j, lit in enumerate(arrs['XrayLines']):
            v = lit.value
            mac = lit.macro
            iupac = names.line_by_value.get(v)
            li = '%s line[%d] %s' % (inst, j, mac or v)
            if iupac is None:
                chk.bad('nuclide-line-energy', U, 'nuclideDataList', li, loc,
                        'value %s is not an individual line macro (group macros have no single energy here)' % v)
                continue
            if mac:
                res = names.resolve_line_macro(mac)
                if names.line_value.get(res) != v:
                    chk.bad('nuclide-line-energy', U, 'nuclideDataList', li, loc, 'macro %s does not evaluate to its own value' % mac)
                    continue
            members = names.doublet_members(iupac) if names.is_doublet(iupac) else [iupac]
            have = [m for m in members if (Zx, m) in le] + ([iupac] if (Zx, iupac) in le and iupac not in members else [])
            chk.decide(bool(have), 'nuclide-line-energy', U, 'nuclideDataList', li, loc,
                       'line %s (%s) has no energy for the daughter element Z_xray=%s in data/fluor_lines.dat: '
                       'LineEnergy(%s, %s) fails' % (mac or v, iupac, Zx, Zx, mac or v),
                       why='energy of %s for Z=%s is %s eV' % (have[0] if have else '', Zx, le.get((Zx, have[0])) if have else ''))
        # header macro
        mname = 'RADIO_NUCLIDE_' + name.upper()
        m = prog.macro(mname)
        if m is None:
            chk.bad('nuclide-index-macro', 'include/xraylib-radionuclides.h', 'macros', inst, 'include/xraylib-radionuclides.h',
                    'no header macro %s' % mname)
        else:
            mv = prog.macro_value(mname)
            chk.decide(mv == i, 'nuclide-index-macro', 'include/xraylib-radionuclides.h', 'macros', inst,
                       'include/xraylib-radionuclides.h:%d' % m['ln'],
                       '%s = %s but %s is entry %d: GetRadioNuclideDataByIndex(%s) returns %s' % (
                           mname, mv, name, i, mname, entries[mv][0] if isinstance(mv, int) and 0 <= mv < len(entries) else '?'),
                       why='%s = %d' % (mname, i))
    macros = [m for m in prog.macros_in('include/xraylib-radionuclides.h') if m['name'].startswith('RADIO_NUCLIDE_')]
    exp = {'RADIO_NUCLIDE_' + e[0].upper() for e in entries}
    for m in macros:
        chk.decide(m['name'] in exp, 'nuclide-index-macro', 'include/xraylib-radionuclides.h', 'macros', m['name'],
                   'include/xraylib-radionuclides.h:%d' % m['ln'], 'header macro %s corresponds to no entry' % m['name'],
                   why='names an entry')


def elements(prog, chk):
    U = 'src/xrayglob.c'
    g = prog.global_def('MendelArray')
    arr = inittab.evaluate(g['init'])
    mmax = prog.macro_value('MENDEL_MAX')
    chk.floor('Mendel entries', len(arr), 100)
    chk.decide(len(arr) == mmax == (g.get('dims') or [None])[0], 'mendel-count', U, 'MendelArray', 'MENDEL_MAX',
               'src/xrayglob.c:%d' % g['ln'], 'MENDEL_MAX = %s, %d initialisers, extent %s' % (mmax, len(arr), g.get('dims')),
               why='MENDEL_MAX = extent = number of initialisers = %d' % len(arr))
    seen = {}
    for i, (z, s) in enumerate(arr):
        chk.decide(z == i + 1, 'mendel-Z=index+1', U, 'MendelArray', 'entry[%d] %s' % (i, s), 'src/xrayglob.c:%d' % g['ln'],
                   'entry %d has Zatom = %s: AtomicNumberToSymbol(%d) returns "%s" but SymbolToAtomicNumber("%s") returns %s' % (
                       i, z, i + 1, s, s, z), why='Zatom = index + 1')
        chk.decide(isinstance(s, str) and s and s not in seen, 'mendel-unique-symbol', U, 'MendelArray', 'entry[%d] %s' % (i, s),
                   'src/xrayglob.c:%d' % g['ln'], 'symbol "%s" already used by Z=%s: the conversion is not a bijection' % (s, seen.get(s)),
                   why='unique, non-empty')
        seen.setdefault(s, z)
    # the two conversion functions
    f = prog.func('AtomicNumberToSymbol')
    subs = [n for n in walk(f['body']) if n['k'] == 'ArraySubscriptExpr' and n['c'][0].get('name') == 'MendelArray']
    okshape = False
    N = Normalizer(prog)
    zpar = f['params'][0]['name']
    for s in subs:
        try:
            if N.to_rat(s['c'][1]).equals(N.to_rat({'k': 'DeclRefExpr', 'name': zpar, 'id': f['params'][0]['id'], 'cls': 'param'}) -
                                           N.to_rat({'k': 'IntegerLiteral', 'val': 1})):
                okshape = True
        except NotInClass:
            pass
    chk.decide(okshape and len(subs) == 1, 'mendel-accessors', 'src/xraylib-parser.c', 'AtomicNumberToSymbol', 'index',
               '%s:%d' % (f['rel'], f['ln']), 'does not return MendelArray[Z-1].name', why='reads MendelArray[Z-1]')
    guards = [n for n in walk(f['body']) if n['k'] == 'BinaryOperator' and n['op'] in ('>', '>=') and n['c'][0].get('name') == zpar]
    gok = any((g_['op'] == '>' and g_['c'][1].get('v') == mmax) or (g_['op'] == '>=' and g_['c'][1].get('v') == mmax + 1) for g_ in guards)
    chk.decide(gok, 'mendel-accessors', 'src/xraylib-parser.c', 'AtomicNumberToSymbol', 'upper-guard', '%s:%d' % (f['rel'], f['ln']),
               'upper guard on Z is not MENDEL_MAX (%s): %s' % (mmax, [show(x) for x in guards]), why='Z > MENDEL_MAX rejected')
    lguards = [n for n in walk(f['body']) if n['k'] == 'BinaryOperator' and n['op'] in ('<', '<=') and n['c'][0].get('name') == zpar]
    lgok = any((g_['op'] == '<' and g_['c'][1].get('v') == 1) or (g_['op'] == '<=' and g_['c'][1].get('v') == 0) for g_ in lguards)
    chk.decide(lgok, 'mendel-accessors', 'src/xraylib-parser.c', 'AtomicNumberToSymbol', 'lower-guard', '%s:%d' % (f['rel'], f['ln']),
               'lower guard on Z is not "Z < 1": %s - Z = 0 would read MendelArray[-1]' % [show(x) for x in lguards], why='Z < 1 rejected')
    f = prog.func('SymbolToAtomicNumber')
    loops = [n for n in walk(f['body']) if n['k'] == 'ForStmt']
    lok = False
    for lp in loops:
        c = lp.get('cond') or {}
        if c.get('k') == 'BinaryOperator' and c['op'] == '<' and c['c'][1].get('v') == mmax:
            iv = c['c'][0].get('name')
            init_ok = any(a['k'] == 'BinaryOperator' and a['op'] == '=' and a['c'][0].get('name') == iv and a['c'][1].get('v') == 0
                          for a in walk(lp.get('init') or {}))
            rets = [r for r in walk(lp['body']) if r['k'] == 'ReturnStmt']
            cmp_ = [x for x in calls_in(lp['body'], 'strcmp')]
            same = bool(rets) and bool(cmp_) and all(
                show(r['c'][0]) == 'MendelArray[%s].Zatom' % iv for r in rets) and any(
                'MendelArray[%s].name' % iv in [show(a) for a in x['args']] for x in cmp_)
            lok = init_ok and same
    chk.decide(lok, 'mendel-accessors', 'src/xraylib-parser.c', 'SymbolToAtomicNumber', 'scan', '%s:%d' % (f['rel'], f['ln']),
               'does not scan MendelArray[0..MENDEL_MAX) comparing .name and returning .Zatom of the same entry',
               why='scans all MENDEL_MAX entries, returns Zatom of the entry whose name matched')


def crystals(prog, chk, zmax, tier):
    cr = datafiles.crystals(prog.repo)
    chk.floor('crystals in data/Crystals.dat', len(cr), 30)
    cmax = prog.macro_value('CRYSTALARRAY_MAX')
    chk.decide(len(cr) <= cmax, 'crystal-capacity', 'data/Crystals.dat', 'Crystals.dat', 'count', 'data/Crystals.dat',
               '%d crystals exceed CRYSTALARRAY_MAX = %s' % (len(cr), cmax), why='%d <= CRYSTALARRAY_MAX' % len(cr))
    seen = {}
    for c in cr:
        inst = c['name']
        loc = 'data/Crystals.dat:%d' % c['line']
        chk.decide(c['name'] not in seen and 0 < len(c['name']) <= 20, 'crystal-unique-name', 'data/Crystals.dat', 'Crystals.dat', inst, loc,
                   'name duplicates the crystal defined at line %s (bsearch finds only one) or is longer than the 20 characters the reader keeps' % seen.get(c['name']),
                   why='unique, <= 20 chars')
        seen[c['name']] = c['line']
        cell_ok = c['cell'] is not None and c['ncell'] == 1 and len(c['cell']) == 6
        if cell_ok:
            try:
                a, b, cc, al, be, ga = [float(x) for x in c['cell']]
                import math
                ca, cb, cg = (math.cos(math.radians(x)) for x in (al, be, ga))
                rad = 1 - ca * ca - cb * cb - cg * cg + 2 * ca * cb * cg
                cell_ok = a > 0 and b > 0 and cc > 0 and rad > 0
            except ValueError:
                cell_ok = False
        chk.decide(cell_ok, 'crystal-cell', 'data/Crystals.dat', 'Crystals.dat', inst, loc,
                   'unit cell missing, repeated or degenerate (volume would not be positive): %s' % (c['cell'],),
                   why='one #UCELL line, positive edges, positive volume radicand')
        chk.decide(len(c['atoms']) > 0, 'crystal-atoms', 'data/Crystals.dat', 'Crystals.dat', inst + ' n_atom', loc,
                   'no atom positions', why='%d atoms' % len(c['atoms']))
        for j, at in enumerate(c['atoms']):
            ok = len(at) == 5
            if ok:
                try:
                    z = int(at[0])
                    occ = float(at[1])
                    [float(x) for x in at[2:]]
                    ok = 1 <= z <= zmax and 0 < occ <= 1
                except ValueError:
                    ok = False
            chk.decide(ok, 'crystal-atoms', 'data/Crystals.dat', 'Crystals.dat', '%s atom[%d]' % (inst, j), loc,
                       'atom record %s is malformed, has Z outside 1..%s or occupancy outside (0,1]' % (at, zmax),
                       why='valid Z and occupancy')
    if tier == 'thorough' and getattr(prog, 'generated_path', None):
        gen = inittab.read_generated(prog.generated_path)
        generated_crystals(prog, chk, gen, cr)
        generated_mendel(prog, chk, gen)


def generated_crystals(prog, chk, gen, cr):
    if '__Crystal_arr' not in gen and 'Crystal_arr' not in gen:
        chk.inconclusive('crystal-generated', 'xrayglob_inline.c', 'Crystal_arr not found in the generated unit')
        return
    arr = None
    for k in gen:
        if gen[k]['type'].endswith('Crystal_Struct'):
            arr = gen[k]['value']
            arrname = k
    if arr is None:
        chk.inconclusive('crystal-generated', 'xrayglob_inline.c', 'no Crystal_Struct array in the generated unit')
        return
    gnames = [e[0].strip('"') for e in arr]
    chk.decide(gnames == sorted(gnames), 'crystal-generated-sorted', 'src/xrayglob_inline.c', arrname, 'order', 'xrayglob_inline.c',
               'built-in crystals are not in strcmp order, bsearch in Crystal_GetCrystal would miss entries: %s' % gnames,
               why='%d names in ascending strcmp order' % len(gnames))
    chk.decide(sorted(gnames) == sorted(c['name'] for c in cr), 'crystal-generated-set', 'src/xrayglob_inline.c', arrname, 'set',
               'xrayglob_inline.c', 'generated crystal set differs from data/Crystals.dat', why='same %d names as Crystals.dat' % len(cr))
    byname = {c['name']: c for c in cr}
    for e in arr:
        nm = e[0].strip('"')
        c = byname.get(nm)
        if not c:
            continue
        # fields: name a b c alpha beta gamma volume n_atom atom
        n_atom = int(e[8])
        vol = float(e[7].rstrip('f'))
        atoms = gen.get(e[9].lstrip('&'), {}).get('value')
        chk.decide(n_atom == len(c['atoms']) and atoms is not None and len(atoms) == n_atom, 'crystal-generated-natom',
                   'src/xrayglob_inline.c', arrname, nm, 'xrayglob_inline.c',
                   'n_atom = %d, atom array has %s entries, Crystals.dat lists %d' % (n_atom, len(atoms) if atoms else None, len(c['atoms'])),
                   why='n_atom = array length = %d' % n_atom)
        chk.decide(vol > 0, 'crystal-generated-volume', 'src/xrayglob_inline.c', arrname, nm, 'xrayglob_inline.c',
                   'stored volume %s is not positive' % vol, why='volume %g > 0' % vol)


def sorted_twin(prog, chk):
    """MendelArraySorted is built by the generator (XRayInitFromPath, src/xrayfiles.c): copy every entry of MendelArray, then qsort the
    WHOLE array by name; the parser finds symbols with bsearch over the WHOLE array.  Decided on the calls: the copy loop runs over
    [0, extent), qsort and every bsearch get the array's full extent and its element size.  (The generated table itself is compared
    with MendelArray in the thorough tier.)"""
    from rules.common import full_range
    from xvlib.facts import strip_casts
    g = prog.global_def('MendelArraySorted')
    src = prog.global_def('MendelArray')
    m = re.search(r'\[(\d+)\]', g.get('T', ''))
    m2 = re.search(r'\[(\d+)\]', src.get('T', ''))
    if not m or not m2:
        raise AnalysisBroken('extent of MendelArraySorted / MendelArray not found (%s, %s)' % (g.get('T'), src.get('T')))
    ext = int(m.group(1))
    chk.decide(ext == int(m2.group(1)), 'mendel-twin-construction', 'src/xrayglob.c', 'MendelArraySorted', 'extent', 'src/xrayglob.c:%d' % g['ln'],
               'MendelArraySorted has %d entries, MendelArray %s' % (ext, m2.group(1)), why='both tables have %d entries' % ext)
    elem = re.sub(r'\s*\[\d+\]$', '', g['T']).strip()
    nq = nb = 0
    for f in prog.src_funcs():
        if not f['unit'].startswith('src/'):
            continue
        for c in calls_in(f['body']):
            if c.get('callee') not in ('qsort', 'bsearch'):
                continue
            a = c['args']
            arr, n, size = (a[0], a[1], a[2]) if c['callee'] == 'qsort' else (a[1], a[2], a[3])
            if show(strip_casts(arr)).lstrip('&(').rstrip(')') .split('[')[0] != 'MendelArraySorted':
                continue
            nq += c['callee'] == 'qsort'
            nb += c['callee'] == 'bsearch'
            sz = strip_casts(size)
            ok = n.get('v') == ext and sz.get('k') == 'UnaryExprOrTypeTraitExpr' and (sz.get('argT') or '').replace('const ', '').strip() == elem
            chk.decide(ok, 'mendel-twin-construction', f['unit'], f['name'], '%s@%d' % (c['callee'], c['ln']), '%s:%d' % (f['rel'], c['ln']),
                       '%s over MendelArraySorted must cover all %d entries of %s bytes each; found count %s (= %s) and element size %s: entries outside '
                       'the range stay unsorted / are never found' % (c['callee'], ext, 'sizeof(%s)' % elem, show(n), n.get('v'), show(size)),
                       why='%d entries of sizeof(%s)' % (ext, elem))
        if f['name'] == 'XRayInitFromPath':
            loops = [lp for lp in walk(f['body']) if lp.get('k') == 'ForStmt' and
                     any(st_.get('k') == 'BinaryOperator' and st_.get('op') == '=' and show(st_['c'][0]).startswith('MendelArraySorted[')
                         for st_ in walk(lp.get('body') or {}))]
            okl = False
            detail = 'no loop fills MendelArraySorted'
            if loops:
                lp = loops[0]
                cond = lp.get('cond') or {}
                iv = show((lp.get('cond') or {}).get('c', [{}])[0]) if cond.get('c') else None
                bound = cond.get('k') == 'BinaryOperator' and cond.get('op') == '<' and cond['c'][1].get('v') == ext
                init0 = full_range(lp, '') or any(b_.get('k') == 'BinaryOperator' and b_.get('op') == '=' and b_['c'][1].get('v') == 0
                                                 for b_ in walk(lp.get('init') or {}))
                inc = show(lp.get('inc') or {}).replace(' ', '') in ('%s++' % iv, '++%s' % iv)
                fields = {}
                for st_ in walk(lp['body']):
                    if st_.get('k') == 'BinaryOperator' and st_.get('op') == '=' and show(st_['c'][0]).startswith('MendelArraySorted[%s].' % iv):
                        fields[show(st_['c'][0]).split('.')[-1]] = show(st_['c'][1])
                want = {'name': 'MendelArray[%s].name' % iv, 'Zatom': 'MendelArray[%s].Zatom' % iv}
                okf = set(fields) == set(want) and all(want[k_] in fields[k_] for k_ in want)
                okl = bound and init0 and inc and okf
                detail = 'bound<%d:%s init0:%s step1:%s fields:%s' % (ext, bound, init0, inc, fields)
            chk.decide(okl, 'mendel-twin-construction', f['unit'], f['name'], 'copy-loop', '%s:%d' % (f['rel'], f['ln']),
                       'the loop that fills MendelArraySorted must copy name and Zatom of MendelArray[i] for every i in [0, %d): %s' % (ext, detail),
                       why='copies (name, Zatom) of every entry')
    chk.floor('qsort of the sorted Mendel table', nq, 1)
    chk.floor('bsearch over the sorted Mendel table', nb, 2)


def generated_mendel(prog, chk, gen):
    g = gen.get('MendelArraySorted')
    if not g:
        chk.inconclusive('mendel-sorted', 'xrayglob_inline.c', 'MendelArraySorted not found in the generated unit')
        return
    arr = [(int(z), s.strip('"')) for z, s in g['value']]
    src = inittab.evaluate(prog.global_def('MendelArray')['init'])
    chk.decide([s for _, s in arr] == sorted(s for _, s in arr) and sorted(arr) == sorted((z, s) for z, s in src),
               'mendel-sorted', 'src/xrayglob_inline.c', 'MendelArraySorted', 'permutation', 'xrayglob_inline.c',
               'MendelArraySorted is not the name-sorted permutation of MendelArray', why='sorted permutation of the %d entries' % len(arr))


# --------------------------------------------------------------------------------------------------
# access paths and deep copies

def length_field_of(prog, entries, fields, ptr_field, unit):
    """Data-derived: the int field whose value equals the referenced array's length in every entry."""
    idx = fields.index(ptr_field)
    cands = None
    for e in entries:
        g = glob_array(prog, e[idx], unit)
        if g is None:
            return None
        n = len(inittab.evaluate(g['init']))
        c = {f for f, v in zip(fields, e) if isinstance(v, int) and not isinstance(v, bool) and v == n}
        cands = c if cands is None else cands & c
    return sorted(cands) if cands else []


def access_paths(prog, chk):
    specs = [
        dict(unit='src/xraylib-nist-compounds.c', rec='compoundDataNIST', arr='compoundDataNISTList', cnt='nCompoundDataNISTList',
             byname='GetCompoundDataNISTByName', byindex='GetCompoundDataNISTByIndex', lister='GetCompoundDataNISTList',
             free='FreeCompoundDataNIST'),
        dict(unit='src/xraylib-radionuclides.c', rec='radioNuclideData', arr='nuclideDataList', cnt='nNuclideDataList',
             byname='GetRadioNuclideDataByName', byindex='GetRadioNuclideDataByIndex', lister='GetRadioNuclideDataList',
             free='FreeRadioNuclideData'),
    ]
    for sp in specs:
        U = sp['unit']
        rec = prog.record(sp['rec'])
        fields = [f['name'] for f in rec['fields']]
        entries = inittab.evaluate(prog.global_def(sp['arr'], unit=U)['init'])
        lenf = {}
        for f in rec['fields']:
            if f['ptr'] and 'char' not in f['T']:
                lf = length_field_of(prog, entries, fields, f['name'], U)
                if not lf or len(lf) != 1:
                    chk.inconclusive('deep-copy', U, 'cannot derive the length field of %s.%s from the catalogue (%s)' % (
                        sp['rec'], f['name'], lf))
                    continue
                lenf[f['name']] = lf[0]
        cat_globals = {sp['arr'], sp['cnt']}
        for role in ('byname', 'byindex', 'lister'):
            f = prog.func(sp[role], unit=U)
            loc = '%s:%d' % (f['rel'], f['ln'])
            refs = {n['name'] for n in walk(f['body']) if n['k'] == 'DeclRefExpr' and n.get('cls') == 'global'}
            refs = {r for r in refs if not r.startswith('__')}
            chk.decide(sp['arr'] in refs and sp['cnt'] in refs and refs <= cat_globals | {'stderr'}, 'same-array-same-count', U,
                       sp[role], 'globals', loc,
                       'reads globals %s; expected exactly the catalogue %s with its count %s' % (sorted(refs), sp['arr'], sp['cnt']),
                       why='reads only %s and %s' % (sp['arr'], sp['cnt']))
        # by index: guard idx < 0 || idx >= count dominates; subscript by the parameter
        f = prog.func(sp['byindex'], unit=U)
        ip = f['params'][0]['name']
        conds = [show(n.get('cond')) for n in walk(f['body']) if n['k'] == 'IfStmt']
        want = {'((%s < 0) || (%s >= %s))' % (ip, ip, sp['cnt']), '((%s >= %s) || (%s < 0))' % (ip, sp['cnt'], ip)}
        first_if = next((n for n in f['body']['c'] if n['k'] == 'IfStmt'), None)
        gd = first_if is not None and show(first_if['cond']) in want and any(r['k'] == 'ReturnStmt' for r in walk(first_if['then']))
        first_sub = None
        for i_, st in enumerate(f['body']['c']):
            if any(n['k'] == 'ArraySubscriptExpr' for n in walk(st)):
                first_sub = i_
                break
        pos_if = f['body']['c'].index(first_if) if first_if in f['body']['c'] else 10 ** 6
        chk.decide(gd and first_sub is not None and pos_if < first_sub, 'index-guard', U, sp['byindex'], 'range',
                   '%s:%d' % (f['rel'], f['ln']),
                   'the first statement touching the catalogue is not preceded by the guard "%s < 0 || %s >= %s" with an early return (found %s)' % (
                       ip, ip, sp['cnt'], conds), why='guard %s precedes every catalogue access' % sorted(want)[0])
        subs = [n for n in walk(f['body']) if n['k'] == 'ArraySubscriptExpr' and n['c'][0].get('name') == sp['arr']]
        chk.decide(bool(subs) and all(n['c'][1].get('name') == ip for n in subs), 'index-guard', U, sp['byindex'], 'subscript',
                   '%s:%d' % (f['rel'], f['ln']), 'catalogue subscripted by something other than the index parameter',
                   why='%d subscripts, all by %s' % (len(subs), ip))
        # lister
        f = prog.func(sp['lister'], unit=U)
        lister_shape(prog, chk, f, sp, U)
        # deep copies
        for role in ('byname', 'byindex'):
            f = prog.func(sp[role], unit=U)
            deep_copy(prog, chk, f, rec, lenf, U)
        destructor(prog, chk, prog.func(sp['free'], unit=U), rec, U)


def lister_shape(prog, chk, f, sp, U):
    loc = '%s:%d' % (f['rel'], f['ln'])
    N = Normalizer(prog)
    cnt = sp['cnt']
    # *n = count
    outp = f['params'][0]['name']
    asg = [n for n in walk(f['body']) if n['k'] == 'BinaryOperator' and n['op'] == '=' and show(n['c'][0]) == '*%s' % outp]
    chk.decide(bool(asg) and all(show(a['c'][1]) == cnt for a in asg), 'list-shape', U, f['name'], 'count-out', loc,
               'the count handed to the caller is %s, not %s' % ([show(a['c'][1]) for a in asg], cnt), why='*%s = %s' % (outp, cnt))
    # allocation (count+1) pointers
    mall = calls_in(f['body'], 'malloc') + calls_in(f['body'], 'calloc')
    okm = False
    for m in mall:
        try:
            r = N.to_rat(m['args'][0]) if m.get('callee') == 'malloc' else N.to_rat(m['args'][0]) * N.to_rat(m['args'][1])
            want = N.to_rat({'k': 'UnaryExprOrTypeTraitExpr', 'argT': 'char *'}) * (Rat_sym(cnt) + Rat_const(1))
            okm = okm or r.equals(want)
        except NotInClass:
            pass
    chk.decide(okm, 'list-shape', U, f['name'], 'allocation', loc,
               'result vector is not allocated as sizeof(char*)*(%s+1): %s' % (cnt, [show(m) for m in mall]),
               why='sizeof(char *) * (%s + 1)' % cnt)
    loops = [n for n in walk(f['body']) if n['k'] == 'ForStmt']
    okl = False
    for lp in loops:
        c = lp.get('cond') or {}
        if c.get('k') == 'BinaryOperator' and c['op'] == '<' and show(c['c'][1]) == cnt:
            iv = show(c['c'][0])
            init0 = any(a['k'] == 'BinaryOperator' and a['op'] == '=' and show(a['c'][0]) == iv and a['c'][1].get('v') == 0
                        for a in walk(lp.get('init') or {}))
            st = [a for a in walk(lp['body']) if a['k'] == 'BinaryOperator' and a['op'] == '=']
            body_ok = any(show(a['c'][0]) == 'rv[%s]' % iv and show(a['c'][1]) == 'xrl_strdup(%s[%s].name)' % (sp['arr'], iv) for a in st)
            okl = okl or (init0 and body_ok)
    chk.decide(okl, 'list-shape', U, f['name'], 'loop', loc,
               'the list is not filled with a copy of %s[i].name for i = 0..%s-1' % (sp['arr'], cnt),
               why='rv[i] = xrl_strdup(%s[i].name) for i in [0, %s)' % (sp['arr'], cnt))
    term = [a for a in walk(f['body']) if a['k'] == 'BinaryOperator' and a['op'] == '=' and show(a['c'][0]) == 'rv[%s]' % cnt]
    from xvlib.facts import strip_casts
    is_null = bool(term) and (strip_casts(term[0]['c'][1]).get('val') == 0 or strip_casts(term[0]['c'][1]).get('v') == 0)
    chk.decide(is_null, 'list-shape', U, f['name'], 'terminator', loc, 'rv[%s] is not set to NULL' % cnt, why='rv[%s] = NULL' % cnt)


def Rat_sym(s):
    from xvlib.normform import Rat
    return Rat.sym(s)


def Rat_const(c):
    from xvlib.normform import Rat
    return Rat.const(c)


def deep_copy(prog, chk, f, rec, lenf, U):
    """Every field of the returned record is initialised from the *same field* of the source entry; pointer
    fields from a fresh allocation sized by the field's length field; memcpy size = allocation size."""
    loc0 = '%s:%d' % (f['rel'], f['ln'])
    # destination: the local returned
    rets = [r for r in walk(f['body']) if r['k'] == 'ReturnStmt' and r.get('c') and r['c'][0].get('k') == 'DeclRefExpr']
    if not rets:
        chk.inconclusive('deep-copy', loc0, '%s returns no local record pointer' % f['name'])
        return
    dst = rets[-1]['c'][0]['name']
    N = Normalizer(prog)
    assigns = {}
    for n in walk(f['body']):
        if n['k'] == 'BinaryOperator' and n['op'] == '=' and n['c'][0].get('k') == 'MemberExpr' and \
                show(n['c'][0]['c'][0]) == dst:
            assigns.setdefault(n['c'][0]['field'], []).append(n)
    memcpys = calls_in(f['body'], 'memcpy')
    for fld in rec['fields']:
        fn = fld['name']
        a = assigns.get(fn, [])
        inst = 'field %s' % fn
        # the by-name variant first stores the search key in ->name; the copy is the *last* assignment
        if not a:
            chk.bad('deep-copy', U, f['name'], inst, loc0, 'field %s of the returned record is never initialised' % fn)
            continue
        last = a[-1]
        loc = '%s:%d' % (f['rel'], last['ln'])
        rhs = last['c'][1]
        if not fld['ptr']:
            ok = rhs.get('k') == 'MemberExpr' and rhs['field'] == fn
            chk.decide(ok, 'deep-copy', U, f['name'], inst, loc,
                       '%s->%s is initialised from %s, not from field %s of the catalogue entry' % (dst, fn, show(rhs), fn),
                       why='copied from the same field of the source entry')
            continue
        if 'char' in fld['T']:
            ok = is_call(rhs) and rhs.get('callee') in ('xrl_strdup', 'strdup') and rhs['args'][0].get('k') == 'MemberExpr' and \
                rhs['args'][0]['field'] == fn
            chk.decide(ok, 'deep-copy', U, f['name'], inst, loc,
                       '%s->%s = %s is not a fresh duplicate of the entry\'s %s (an alias into the static catalogue would be '
                       'freed by the documented free function)' % (dst, fn, show(rhs), fn), why='xrl_strdup of the same field')
            continue
        # array field
        lf = lenf.get(fn)
        if lf is None:
            continue
        elemT = fld['T'].replace('*', '').strip()
        okalloc = is_call(rhs, 'malloc')
        src_base = None
        if okalloc:
            try:
                sz = N.to_rat(rhs['args'][0])
            except NotInClass:
                sz = None
            # expected: sizeof(elemT) * <src>.<lf>
            mems = [m for m in walk(rhs['args'][0]) if m['k'] == 'MemberExpr']
            okalloc = False
            if sz is not None and len(mems) == 1 and mems[0]['field'] == lf:
                src_base = N._lv(mems[0]['c'][0])
                want = Rat_sym('sizeof(%s)' % elemT) * Rat_sym('%s.%s' % (src_base, lf))
                okalloc = sz.equals(want)
            elif sz is not None and len(mems) == 1:
                src_base = N._lv(mems[0]['c'][0])
        chk.decide(okalloc, 'deep-copy', U, f['name'], inst + ' allocation', loc,
                   '%s->%s is allocated as %s; expected sizeof(%s) * <entry>.%s (the catalogue shows that %s is the length of %s '
                   'in every entry)' % (dst, fn, show(rhs), elemT, lf, lf, fn), why='malloc(sizeof(%s) * entry.%s)' % (elemT, lf))
        mc = [m for m in memcpys if show(m['args'][0]) == '%s->%s' % (dst, fn)]
        okcp = False
        msg = 'no memcpy fills %s->%s' % (dst, fn)
        if mc:
            m = mc[-1]
            srcarg = m['args'][1]
            try:
                okcp = srcarg.get('k') == 'MemberExpr' and srcarg['field'] == fn and okalloc and \
                    N.to_rat(m['args'][2]).equals(N.to_rat(rhs['args'][0])) and N._lv(srcarg['c'][0]) == src_base
            except NotInClass:
                okcp = False
            msg = 'memcpy(%s) does not copy sizeof(%s)*%s bytes from the same entry\'s %s' % (
                ', '.join(show(x) for x in m['args']), elemT, lf, fn)
        chk.decide(okcp, 'deep-copy', U, f['name'], inst + ' contents', loc, msg,
                   why='memcpy of exactly the allocated size from the same field of the same entry')


def destructor(prog, chk, f, rec, U):
    p = f['params'][0]['name']
    freed = [show(c['args'][0]) for c in calls_in(f['body'], 'free')]
    for fld in rec['fields']:
        if fld['ptr']:
            chk.decide('%s->%s' % (p, fld['name']) in freed, 'destructor', U, f['name'], 'field %s' % fld['name'],
                       '%s:%d' % (f['rel'], f['ln']), 'pointer field %s is not released: every lookup leaks it' % fld['name'],
                       why='free(%s->%s)' % (p, fld['name']))
    chk.decide(p in freed and freed.index(p) == len(freed) - 1, 'destructor', U, f['name'], 'record', '%s:%d' % (f['rel'], f['ln']),
               'the record itself is not released last (%s)' % freed, why='free(%s) after its members' % p)
    chk.decide(len(freed) == len(set(freed)), 'destructor', U, f['name'], 'once', '%s:%d' % (f['rel'], f['ln']),
               'an object is released twice: %s' % freed, why='each object released once')
