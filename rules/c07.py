"""C07 - the formula parser computes the true composition of every well-formed formula.

Decided (structural induction over the formula, each step decided on abstract paths of a code fragment):
  * every way a symbol or a bracket group is merged into the running composition adds exactly (element, count x group
    multiplier) and keeps the list sorted by Z and duplicate free;
  * the count is the complete, non-zero subscript that follows the symbol / the closing bracket (or 1);
  * CompoundParser turns that list into Elements / nAtoms / nAtomsAll / molarMass / massFractions by the defining
    formulas, rejects elements without atomic weight, and brackets strtod with a save-set-restore of the numeric locale;
  * add_compound_data builds the sorted union and w_A f_A + w_B f_B with each weight paired with its own operand.
Not decided: which strings the character scanner accepts (the accepted language)."""
import re

from xvlib.core import Check
from xvlib.absint import Interp, run_function, unparen
from xvlib.facts import walk, show, strip_casts, calls_in
from xvlib.normform import Rat
from rules.common import sets_error
from rules.c16 import locale_bracket

U = 'src/xraylib-parser.c'


def run(prog, tier):
    chk = Check('C07', tier, 'other',
                'Structural induction over the formula, decided on the abstract paths of code fragments of CompoundParserSimple '
                '(body of the symbol loop, body of the group loop): on every path that completes an iteration the element was found '
                'in the sorted element table, the count is 1 or the strtod value of the complete digit/dot run after the symbol or '
                'closing bracket (fully converted, non-zero), and the merge is one of: first element, new element (looked up with '
                'bsearch over all entries, appended, re-sorted with the same comparator) or existing element (count added) - for a '
                'group every entry j in [0, n) with count x multiplier; CompoundParser: per-iteration snapshots give Elements[i], '
                'nAtoms[i], nAtomsAll = sum n_i, molarMass = sum A_i n_i, massFractions[i] = A_i n_i / molarMass, elements '
                'without weight rejected, locale bracket around the only strtod user; add_compound_data: operand/weight pairing, '
                'sorted union, weighted sum.',
                ['clang front end', 'E1 path enumeration on statement fragments (locals unconstrained on entry) with loop snapshots'],
                ['the scanner\'s verdict is decided per character class pair (finite domain), not per string',
                 'libc strtod/bsearch/qsort/isdigit behave as specified; floating-point rounding is not considered',
                 'strtod of a run of digits with at most one dot is non-negative (used for positivity of the counts)'])
    f = prog.func('CompoundParserSimple', unit=U)
    loops = [n for n in f['body']['c'] if n.get('k') == 'ForStmt']
    sym = [l for l in loops if any(c.get('callee') == 'bsearch' and 'MendelArraySorted' in show(c) for c in calls_in(l['body'])) and
           not any(c.get('callee') == 'CompoundParserSimple' for c in calls_in(l['body']))]
    grp = [l for l in loops if any(c.get('callee') == 'CompoundParserSimple' for c in calls_in(l['body']))]
    chk.floor('symbol loop of CompoundParserSimple', len(sym), 1)
    chk.floor('group loop of CompoundParserSimple', len(grp), 1)
    ids = local_ids(f)
    symbol_loop(prog, chk, f, sym[0], ids)
    group_loop(prog, chk, f, grp[0], ids)
    comparators(prog, chk)
    compound_parser(prog, chk)
    add_compound(prog, chk)
    scanner_alphabet(prog, chk, f, loops)
    return chk


def scanner_alphabet(prog, chk, f, loops):
    """The accepted alphabet and the bracket balance of the scanning pass.  The pass looks at the string only through comparisons with
    character literals and ctype predicates, so its verdict for a character depends only on the class of that character and of its
    predecessor: xvlib/charclass.py evaluates the if-chain for every class pair on the syntax tree and the table is compared with the
    specification (a formula starts with an element symbol or a group; a lowercase letter continues a symbol, i.e. follows a
    letter; digits and dots are subscript characters; blanks and anything else are rejected).  Bracket balance: the counter is
    tested for < 0 after every character and for != 0 / > 0 after the loop, each leading to an error."""
    from xvlib import charclass
    from xvlib.twins import is_error_exit_c
    sname = f['params'][0]['name']
    scan = [l for l in loops if not calls_in(l['body'], 'bsearch') and not calls_in(l['body'], 'CompoundParserSimple') and
            any(x.get('k') == 'DeclRefExpr' and x.get('name') == 'nbrackets' for x in walk(l['body']))]
    loc = '%s:%d' % (U, f['ln'])
    if len(scan) != 1:
        chk.bad('scanner-alphabet', U, f['name'], 'scanning pass', loc, 'expected one scanning loop over the formula, found %d' % len(scan))
        return
    lp = scan[0]
    loc = '%s:%d' % (U, lp['ln'])
    ivar = [x for x in walk(lp.get('inc') or {}) if x.get('k') == 'DeclRefExpr'][0]['name']
    body = f['body']['c']
    first = [s_ for s_ in body[:body.index(lp)] if s_.get('k') == 'IfStmt']
    sc = charclass.Scanner({sname}, ivar)
    try:
        got = charclass.table(first, lp['body'], sc, is_error_exit_c)
    except charclass.Unknown as ex:
        chk.inconclusive('scanner-alphabet', loc, str(ex))
        return
    spec = charclass.specification()
    R = charclass.REPR
    for c0 in charclass.CLASSES:
        if c0 == 'close':
            continue            # decided by the bracket-balance rule below
        chk.decide(got['first'][c0] == spec['first'][c0], 'scanner-alphabet', U, f['name'], 'first character %r' % R[c0], loc,
                   'a formula that starts with %r (%s) must be %sed; the scanner %ss it' % (R[c0], c0, spec['first'][c0], got['first'][c0]),
                   why='%sed' % spec['first'][c0])
    for (pv, cu), want in sorted(spec['pair'].items()):
        chk.decide(got['pair'][(pv, cu)] == want, 'scanner-alphabet', U, f['name'], '%r after %r' % (R[cu], R[pv]), loc,
                   'outside brackets a %s character after a %s character must be %sed; the scanner %ss it (e.g. the formula "%s")' % (
                       cu, pv, want, got['pair'][(pv, cu)], {'close': '(OH)', 'open': 'H(', 'dot': 'H.', 'digit': 'H2', 'space': 'H ', 'other': 'H+'}.get(pv, 'H' if pv == 'upper' else 'He') + R[cu]),
                   why='%sed' % want)
    # bracket balance
    neg = [n for n in walk(lp['body']) if n.get('k') == 'IfStmt' and is_error_exit_c(n.get('then') or {}) and
           show(n['cond']).replace(' ', '').replace('(', '').replace(')', '') in ('nbrackets<0', '0>nbrackets')]
    after = [n for n in body[body.index(lp) + 1:] if n.get('k') == 'IfStmt' and is_error_exit_c(n.get('then') or {}) and
             show(n['cond']).replace(' ', '').replace('(', '').replace(')', '') in ('nbrackets>0', '0<nbrackets', 'nbrackets!=0', '0!=nbrackets')]
    # the per-character test must be the last statement of the loop body (after the counter was updated)
    last = (lp['body'].get('c') or [None])[-1] if lp['body'].get('k') == 'CompoundStmt' else None
    chk.decide(bool(neg) and last is not None and neg[0] is last, 'bracket-balance', U, f['name'], 'close before open', loc,
               'a closing bracket without an open one must be rejected as soon as it is seen (counter < 0 after every character): with only a '
               'count at the end, ")(" pairs pass', why='nbrackets < 0 tested after every character')
    chk.decide(bool(after), 'bracket-balance', U, f['name'], 'unclosed at the end', loc,
               'brackets still open at the end of the string must be rejected', why='nbrackets > 0 tested after the loop')


def local_ids(f):
    ids = {}
    for n in walk(f['body']):
        if n.get('k') == 'DeclStmt':
            for d in n.get('decls', []):
                ids[d['name']] = d['id']
    for p in f['params']:
        ids[p['name']] = p['id']
    return ids


def frag(prog, f, stmt, **kw):
    f2 = dict(f)
    f2['body'] = stmt if stmt.get('k') == 'CompoundStmt' else {'k': 'CompoundStmt', 'c': [stmt]}
    it = Interp(prog, f2, **kw)
    it.assume_patterns = []
    return it, it.run()


def loop_range(node, bound_suffix):
    """for (v = 0; v < <...bound_suffix>; v++)"""
    if node is None or node.get('k') != 'ForStmt':
        return False
    init0 = any(a.get('k') == 'BinaryOperator' and a['op'] == '=' and a['c'][1].get('v') == 0 for a in walk(node.get('init') or {}))
    cond = node.get('cond') or {}
    inc = node.get('inc') or {}
    return init0 and cond.get('op') == '<' and show(cond['c'][1]).replace(' ', '').endswith(bound_suffix) and \
        inc.get('k') == 'UnaryOperator' and inc.get('op') == '++' and show(inc['c'][0]) == show(cond['c'][0])


# ---------------------------------------------------------------------------------------------- subscripts and lookup
def subscript(chk, it, p, base, K, cval, where, loc, fname):
    """The count of a path: 1 (no digit follows) or strtod of the complete digit/dot run after offset K of `base`,
    converted to its end and non-zero."""
    inst = where
    if cval.canon() == '1':
        chk.ok('count-is-subscript', '%s:%s no-subscript' % (fname, inst), 'no digit or dot follows: count 1', loc, nontrivial=False)
        return True
    m = re.match(r'^strtod#(\d+)\((xrl_strndup#\d+\((.*)\)),&endPtr\)$', cval.canon())
    good = m is not None
    why = ''
    if good:
        dup = [e for e in p.events if e.kind == 'call' and e.result is not None and e.result.canon() == m.group(2)]
        good = len(dup) == 1
        if good:
            a0, a1 = dup[0].args
            kc = Rat.const(K)
            good = a0.equals(base + kc) and re.match(r'^j@L\d+ \+ -%d$' % K, a1.canon()) is not None
            why = 'substring (%s, %s)' % (a0.canon(), a1.canon())
    if good:
        # the scan that produced j: a loop from K over digits and dots of the same base
        nz = it.interval_of(cval, p).excludes_zero()
        conv = [k for k, v in p.facts.items() if k.startswith('endPtr@') and 'strlen#' in k and m.group(2) in k and v.is_zero()]
        good = nz and bool(conv)
        why = why or 'strtod result non-zero: %s, fully converted: %s' % (nz, bool(conv))
    chk.decide(good, 'count-is-subscript', U, fname, inst, loc,
               'on a path that merges an element the count must be 1 or strtod of the whole digit/dot run that follows (offset %d), converted up to its '
               'end and non-zero; found count %s (%s)' % (K, cval.canon()[:120], why), why='strtod of the run after offset %d, fully converted, != 0' % K)
    return good


def scan_consistency(chk, f, block, K, base_txt, where, loc):
    """j = K; while (isdigit(base[j]) || base[j] == '.') j++;  if (j == K) ... strndup(base + K, j - K)"""
    assigns = [n for n in walk(block) if n.get('k') == 'BinaryOperator' and n.get('op') == '=' and show(n['c'][0]) == 'j' and n['c'][1].get('v') is not None]
    whiles = [n for n in walk(block) if n.get('k') == 'WhileStmt']
    eqs = [n for n in walk(block) if n.get('k') == 'IfStmt' and (n.get('cond') or {}).get('op') == '==' and show(n['cond']['c'][0]) == 'j']
    ok = bool(assigns) and assigns[0]['c'][1]['v'] == K and len(whiles) >= 1 and bool(eqs) and eqs[0]['cond']['c'][1].get('v') == K
    if ok:
        w = whiles[0]
        txt = show(w['cond']).replace(' ', '')
        ok = ('%s[j]' % base_txt).replace(' ', '') in txt and "'.'" in txt or '46' in txt
        inc = [n for n in walk(w['body']) if n.get('k') == 'UnaryOperator' and n.get('op') == '++' and show(n['c'][0]) == 'j']
        ok = ok and len(inc) == 1
    chk.decide(ok, 'count-is-subscript', U, f['name'], where + ' scan', loc,
               'the subscript scan must start at offset %d (right after the symbol / bracket), advance over digits and dots of the same string, and the '
               '"no subscript" test must compare with the same offset' % K, why='j = %d; while digit or dot: j++; j == %d means no subscript' % (K, K))


# -------------------------------------------------------------------------------------------------------- merge shapes
def merge_events(it, p, events, E, c, fname):
    """Classify the merge of (E, c) into `ca` found in `events`; returns (shape, problem or None)."""
    st = [e for e in events if e.kind == 'store']
    calls = [e for e in events if e.kind == 'call']
    bs = [e for e in calls if e.name == 'bsearch' and len(e.args) == 5 and e.args[4].canon() == 'compareCompoundAtoms']
    nE = lambda s: s.replace('(', '').replace(')', '')
    if not bs:
        # first element
        n0 = it.interval_of(Rat.sym('ca.nElements'), p)
        if not n0.is_zero():
            return 'first', 'an element is stored without looking it up although the list is not known to be empty'
        al = [e for e in calls if e.name == 'malloc']
        vec = [e for e in st if e.lv == 'ca.singleElements']
        cnt = [e for e in st if e.lv == 'ca.nElements']
        el = [e for e in st if e.lv == 'ca.singleElements[0].Element']
        na = [e for e in st if e.lv == 'ca.singleElements[0].nAtoms']
        ok = len(vec) == 1 and len(al) == 1 and vec[0].value.equals(al[0].result) and al[0].args[0].canon() == 'sizeof(struct compoundAtom)' and \
            len(cnt) == 1 and cnt[0].value.equals(Rat.sym('ca.nElements') + Rat.const(1)) and len(el) == 1 and nE(el[0].value.canon()) == nE(E) and \
            len(na) == 1 and na[0].value.equals(c)
        return 'first', None if ok else 'first element: expected ca = [(%s, %s)], nElements + 1; found %s' % (E, c.canon()[:80], [repr(e)[:90] for e in st])
    b = bs[0]
    key = [e for e in st if e.lv == 'key2.Element' and events.index(e) < events.index(b)]
    okb = b.args[0].canon() == '&key2' and key and nE(key[-1].value.canon()) == nE(E) and re.match(r'^ca\.singleElements(@L\d+)?$', b.args[1].canon()) and \
        re.match(r'^ca\.nElements(@L\d+)?$', b.args[2].canon()) and b.args[3].canon() == 'sizeof(struct compoundAtom)'
    if not okb:
        return 'lookup', 'the element must be looked up with bsearch(&key2 {Element = %s}, ca->singleElements, ca->nElements, sizeof(struct compoundAtom), ' \
                         'compareCompoundAtoms); found %s' % (E, repr(b)[:200])
    r = it.interval_of(b.result, p)
    n = b.args[2]
    if r.is_zero():
        cnt = [e for e in st if e.lv == 'ca.nElements']
        vec = [e for e in st if e.lv == 'ca.singleElements']
        ra = [e for e in calls if e.name == 'realloc']
        el = [e for e in st if e.lv == 'ca.singleElements[%s].Element' % n.canon()]
        na = [e for e in st if e.lv == 'ca.singleElements[%s].nAtoms' % n.canon()]
        qs = [e for e in calls if e.name == 'qsort']
        size = (n + Rat.const(1)) * Rat.sym('sizeof(struct compoundAtom)')
        ok = len(cnt) == 1 and cnt[0].value.equals(n + Rat.const(1)) and len(ra) == 1 and ra[0].args[0].equals(b.args[1]) and ra[0].args[1].equals(size) and \
            len(vec) == 1 and vec[0].value.equals(ra[0].result) and len(el) == 1 and nE(el[0].value.canon()) == nE(E) and len(na) == 1 and na[0].value.equals(c)
        if not ok:
            return 'new', 'new element: expected append of (%s, %s) at index nElements of a vector grown to nElements + 1; found %s' % (
                E, c.canon()[:80], [repr(e)[:100] for e in st])
        okq = len(qs) == 1 and qs[0].args[0].equals(ra[0].result) and qs[0].args[1].equals(n + Rat.const(1)) and \
            qs[0].args[2].canon() == 'sizeof(struct compoundAtom)' and qs[0].args[3].canon() == 'compareCompoundAtoms' and \
            events.index(qs[0]) > max(events.index(el[0]), events.index(na[0]))
        return 'new', None if okq else 'after appending a new element the whole list (nElements entries) must be re-sorted with compareCompoundAtoms; found %s' % \
            [repr(e)[:120] for e in qs]
    if r.excludes_zero():
        cell = '(%s).nAtoms' % b.result.canon()
        up = [e for e in st if e.lv == cell]
        ok = len(up) == 1 and up[0].value.equals(Rat.sym(cell) + c) and not [e for e in st if e.lv.startswith('ca.')]
        return 'existing', None if ok else 'existing element: its count must grow by %s; found %s' % (c.canon()[:80], [repr(e)[:160] for e in st])
    return 'lookup', 'the merge does not distinguish whether the element is already present (bsearch result untested)'


def symbol_loop(prog, chk, f, loop, ids):
    it, paths = frag(prog, f, loop['body'], max_paths=50000)
    ends = [p for p in paths if p.status == 'end']
    chk.floor('paths through one iteration of the symbol loop', len(ends), 20)
    mendel = prog.macro_value('MENDEL_MAX')
    base = Rat.sym('upper_locs[i]')
    shapes = {}
    blocks = [n for n in walk(loop['body']) if n.get('k') == 'IfStmt']
    # the two symbol-length branches and their scan code
    for K, blk in symbol_branches(loop):
        scan_consistency(chk, f, blk, K, 'upper_locs[i]', 'symbol of %d letter%s' % (K, 's' if K > 1 else ''), '%s:%d' % (U, blk['ln']))
    for p in ends:
        loc = '%s:%d' % (U, loop['ln'])
        look = [e for e in p.events if e.kind == 'call' and e.name == 'bsearch' and len(e.args) == 5 and e.args[1].canon() == 'MendelArraySorted']
        ok = len(look) == 1
        K = None
        if ok:
            e = look[0]
            m = re.match(r'^xrl_strndup#\d+\(upper_locs\[i\],(\d)\)$', e.args[0].canon())
            K = int(m.group(1)) if m else None
            ok = m is not None and e.args[2].equals(Rat.const(mendel)) and e.args[3].canon() == 'sizeof(struct MendelElement)' and \
                e.args[4].canon() == 'matchMendelElement' and it.interval_of(e.result, p).excludes_zero()
        inst = 'K=%s' % K
        if not ok:
            chk.bad('element-known', U, f['name'], 'symbol path ' + describe_path(p), loc,
                    'an iteration completes without a successful lookup of the 1- or 2-letter symbol in MendelArraySorted (all %s entries, matchMendelElement)' % mendel)
            continue
        chk.ok('element-known', '%s:symbol K=%d %s' % (f['name'], K, describe_path(p)), 'symbol of %d letters found in the element table' % K, loc, nontrivial=False)
        E = '(%s).Zatom' % look[0].result.canon()
        c = p.env.get(ids['tempnAtoms'])
        if c is None:
            chk.bad('count-is-subscript', U, f['name'], 'symbol ' + inst, loc, 'the count has no value on a completing path')
            continue
        subscript(chk, it, p, base, K, c, 'symbol K=%d %s' % (K, 'with subscript' if c.canon() != '1' else 'plain'), loc, f['name'])
        after = p.events[p.events.index(look[0]) + 1:]
        shape, problem = merge_events(it, p, after, E, c, f['name'])
        key = (shape, K, c.canon() != '1')
        shapes[key] = shapes.get(key, 0) + 1
        chk.decide(problem is None, 'merge-adds-count', U, f['name'], 'symbol %s %s %s' % (shape, inst, 'subscript' if c.canon() != '1' else 'plain'), loc,
                   problem or '', why='%s element: (Zatom, count) merged' % shape)
    for shape in ('first', 'new', 'existing'):
        chk.floor('symbol merge shape %s' % shape, sum(v for k, v in shapes.items() if k[0] == shape), 1)


def symbol_branches(loop):
    """(K, block) for the branches of the symbol loop that duplicate K letters of the symbol"""
    out = []
    for n in walk(loop['body']):
        if n.get('k') == 'CompoundStmt':
            ks = [c for c in n.get('c', []) if c.get('k') == 'BinaryOperator' and c.get('op') == '=' and show(c['c'][0]) == 'tempElement']
            for a in ks:
                call = strip_casts(a['c'][1])
                if call.get('k') == 'CallExpr' and call.get('callee') == 'xrl_strndup' and call['args'][1].get('v') is not None:
                    out.append((call['args'][1]['v'], n))
    return out


def describe_path(p):
    return 'line-%s' % (p.events[-1].node.get('ln') if p.events and p.events[-1].node else '?')


def group_loop(prog, chk, f, loop, ids):
    it, paths = frag(prog, f, loop['body'], max_paths=50000)
    ends = [p for p in paths if p.status == 'end']
    chk.floor('paths through one iteration of the group loop', len(ends), 10)
    loc = '%s:%d' % (U, loop['ln'])
    scan_consistency(chk, f, loop['body'], 1, 'brackets_end_locs[i]', 'group multiplier', loc)
    shapes = {}
    base = Rat.sym('brackets_end_locs[i]')
    for p in ends:
        rec = [e for e in p.events if e.kind == 'call' and e.name == 'CompoundParserSimple']
        ok = len(rec) == 1 and it.interval_of(rec[0].result, p).excludes_zero()
        if ok:
            r = rec[0]
            G = r.args[1].canon()
            sub = [e for e in p.events if e.kind == 'call' and e.result is not None and e.result.canon() == r.args[0].canon()]
            want_len = Rat.sym('brackets_end_locs[i]') - Rat.sym('brackets_begin_locs[i]') - Rat.const(1)
            ok = len(sub) == 1 and sub[0].name == 'xrl_strndup' and sub[0].args[0].equals(Rat.sym('brackets_begin_locs[i]') + Rat.const(1)) and \
                sub[0].args[1].equals(want_len) and r.args[2].canon() == 'error'
            zero = {e.lv: e.value for e in p.events[:p.events.index(r)] if e.kind == 'store'}
            ok = ok and re.match(r'^malloc#\d+\(sizeof\(struct compoundAtoms\)\)$', G) is not None and \
                zero.get('(%s).nElements' % G) is not None and zero['(%s).nElements' % G].is_zero() and \
                zero.get('(%s).singleElements' % G) is not None and zero['(%s).singleElements' % G].is_zero()
        chk.decide(ok, 'group-is-recursion', U, f['name'], 'group ' + describe_path(p), loc,
                   'a group must be parsed by a successful recursive call on exactly the text between its brackets into a fresh, empty composition',
                   why='CompoundParserSimple(text between the brackets, fresh empty list, error) != 0')
        if not ok:
            continue
        c = p.env.get(ids['tempnAtoms'])
        subscript(chk, it, p, base, 1, c, 'group %s' % ('with multiplier' if c.canon() != '1' else 'plain'), loc, f['name'])
        after = p.events[p.events.index(rec[0]) + 1:]
        # cells of the group record after the call
        gn = None
        for e in after:
            if e.kind == 'store' and e.lv == 'ca.nElements' and re.match(r'^\(%s\)\.nElements@\d+$' % re.escape(G), e.value.canon()):
                gn = e.value
        loops = [e for e in after if e.kind == 'loop-begin' and (e.node or {}).get('k') == 'ForStmt']      # not the subscript scan (a while loop)
        frees = [e.args[0].canon() for e in after if e.kind == 'call' and e.name == 'free']
        inst = 'multiplier' if c.canon() != '1' else 'plain'
        if gn is not None:
            # empty list: adopt the group's vector, scale every entry
            n0 = it.interval_of(Rat.sym('ca.nElements'), p)
            vec = [e for e in after if e.kind == 'store' and e.lv == 'ca.singleElements']
            ok = n0.is_zero() and len(vec) == 1 and re.match(r'^\(%s\)\.singleElements@\d+$' % re.escape(G), vec[0].value.canon()) is not None
            okl = True
            for lb in loops:
                okl = okl and loop_range(lb.node, 'ca->nElements')
                it_ = [e for e in after if e.kind == 'iter-end' and e.id == lb.id]
                for ie in it_:
                    cells = {k: v for k, v in (ie.value or {}).items()}
                    want_key = 'ca.singleElements[j@L%d].nAtoms' % lb.id
                    okl = okl and list(cells) == [want_key] and cells[want_key].equals(Rat.sym(want_key) * c)
            if not loops:
                # zero iterations are only possible when the group is empty
                okl = it.interval_of(gn, p).hi is not None and it.interval_of(gn, p).hi <= 0
            okf = G in frees and not any(re.match(r'^\(%s\)\.singleElements' % re.escape(G), x) for x in frees)
            shapes['adopt'] = shapes.get('adopt', 0) + 1
            chk.decide(ok and okl and okf, 'merge-adds-count', U, f['name'], 'group adopt ' + inst, loc,
                       'into an empty list the group must be taken over as a whole (count and vector), every entry in [0, n) scaled by the multiplier, and only '
                       'the group record released', why='list = group, every count x multiplier')
            continue
        # non-empty list: every entry of the group merged
        okr = all(loop_range(lb.node, 'tempBracketAtoms->nElements') for lb in loops) and len(loops) <= 1
        problem = None
        shape = 'none'
        for lb in loops:
            seg = after[after.index(lb) + 1:]
            end = [e for e in seg if e.kind == 'iter-end' and e.id == lb.id]
            seg = seg[:seg.index(end[0])] if end else seg
            j = 'j@L%d' % lb.id
            E = '(%s).singleElements[%s].Element' % (G, j)
            cj = Rat.sym('(%s).singleElements[%s].nAtoms' % (G, j)) * c
            shape, problem = merge_events(it, p, seg, E, cj, f['name'])
        if not loops:
            cells = [k for k, v in p.facts.items() if re.match(r'^\(%s\)\.nElements@\d+$' % re.escape(G), k) and v.hi is not None and v.hi <= 0]
            okr = okr and bool(cells)
        okf = G in frees and any(re.match(r'^\(%s\)\.singleElements@\d+$' % re.escape(G), x) for x in frees)
        shapes[shape] = shapes.get(shape, 0) + 1
        chk.decide(okr and problem is None and okf, 'merge-adds-count', U, f['name'], 'group %s %s' % (shape, inst), loc,
                   problem or 'every entry j in [0, n) of the group must be merged and the group (record and vector) released afterwards',
                   why='%s: (Element_j, count_j x multiplier) for every j' % shape)
    for shape in ('adopt', 'new', 'existing'):
        chk.floor('group merge shape %s' % shape, shapes.get(shape, 0), 1)


# ---------------------------------------------------------------------------------------------------------- comparators
def comparators(prog, chk):
    for name, field in (('compareCompoundAtoms', 'Element'), ('compareInt', None)):
        f = prog.func(name, unit=U)
        rets = [n for n in walk(f['body']) if n.get('k') == 'ReturnStmt']
        ok = len(rets) == 1
        if ok:
            e = strip_casts(rets[0]['c'][0])
            while e.get('k') == 'ParenExpr':
                e = strip_casts(e['c'][0])
            ok = e.get('k') == 'BinaryOperator' and e.get('op') == '-'
            if ok:
                a, b = (source_param(f, x) for x in e['c'])
                pa, pb = f['params'][0]['name'], f['params'][1]['name']
                ok = a == (pa, field) and b == (pb, field)
        chk.decide(ok, 'sorted-by-Z', U, name, 'ascending', '%s:%d' % (U, f['ln']),
                   '%s must order ascending by %s: first argument minus second' % (name, field or 'value'), why='first - second')


def source_param(f, n):
    """(parameter the value is read from, field or None)"""
    n = strip_casts(n)
    while n.get('k') in ('ParenExpr',):
        n = strip_casts(n['c'][0])
    field = None
    if n.get('k') == 'MemberExpr':
        field = n['field']
        n = strip_casts(n['c'][0])
    if n.get('k') == 'UnaryOperator' and n.get('op') == '*':
        n = strip_casts(n['c'][0])
        while n.get('k') == 'ParenExpr':
            n = strip_casts(n['c'][0])
    if n.get('k') == 'DeclRefExpr' and n.get('cls') == 'local':
        for d in walk(f['body']):
            if d.get('k') == 'DeclStmt':
                for v in d.get('decls', []):
                    if v['name'] == n['name'] and v.get('init') is not None:
                        n = strip_casts(v['init'])
    if n.get('k') == 'DeclRefExpr':
        return (n['name'], field)
    return (show(n), field)


# ------------------------------------------------------------------------------------------------------- CompoundParser
def compound_parser(prog, chk):
    f = prog.func('CompoundParser', unit=U)
    loc = '%s:%d' % (U, f['ln'])
    ranges = None
    try:
        from xvlib.coverage import data_return_ranges
        ranges = data_return_ranges(prog)
    except Exception:
        ranges = {}
    it, paths = run_function(prog, f, call_ranges=ranges)
    vals = [p for p in paths if p.ret is not None and not it.is_zero(p.ret, p)]
    chk.floor('CompoundParser success paths', len(vals), 2)
    noerr = lambda s: re.sub(r',(error|0)\)', ')', s)
    generic = 0
    for p in vals:
        cd = p.ret.canon()
        st = [e for e in p.events if e.kind == 'store']
        cps = [e for e in p.events if e.kind == 'call' and e.name == 'CompoundParserSimple']
        ok = len(cps) == 1 and it.interval_of(cps[0].result, p).excludes_zero() and cps[0].args[1].canon().startswith('&ca')
        chk.decide(ok, 'composition-formulas', U, f['name'], 'from-parsed-list', loc,
                   'a composition may only be built after CompoundParserSimple succeeded on the local list', why='CompoundParserSimple(copy, &ca, error) != 0')
        ca = None
        for e in st:
            m = re.match(r'^(ca@\d+)\.nElements$', e.value.canon()) if e.value is not None else None
            if e.lv == '(%s).nElements' % cd and m:
                ca = m.group(1)
        if ca is None:
            chk.bad('composition-formulas', U, f['name'], 'nElements', loc, 'nElements of the result is not the length of the parsed list')
            continue
        n = Rat.sym(ca + '.nElements')
        # allocations
        okal = True
        for fld, ty in (('Elements', 'int'), ('massFractions', 'double'), ('nAtoms', 'double')):
            s_ = [e for e in st if e.lv == '(%s).%s' % (cd, fld)]
            al = [e for e in p.events if e.kind == 'call' and e.name in ('malloc', 'calloc') and s_ and e.result is not None and e.result.canon() == s_[0].value.canon()]
            size = (al[0].args[0] if al[0].name == 'malloc' else al[0].args[0] * al[0].args[1]) if al else None
            okal = okal and size is not None and size.equals(n * Rat.sym('sizeof(%s)' % ty))
        chk.decide(okal, 'composition-formulas', U, f['name'], 'vectors-of-nElements', loc, 'Elements/massFractions/nAtoms must each hold nElements entries',
                   why='three vectors of nElements entries')
        its = [e for e in p.events if e.kind == 'iter-end']
        if len(its) != 2:
            continue
        generic += 1
        l1, l2 = its
        i1, i2 = 'i@L%d' % l1.id, 'i@L%d' % l2.id
        Z1, n1 = '%s.singleElements[%s].Element' % (ca, i1), Rat.sym('%s.singleElements[%s].nAtoms' % (ca, i1))
        Z2, n2 = '%s.singleElements[%s].Element' % (ca, i2), Rat.sym('%s.singleElements[%s].nAtoms' % (ca, i2))
        s0, s1 = l1.args['sum']
        d = s1 - s0
        aw1 = [e for e in p.events if e.kind == 'call' and e.name == 'AtomicWeight' and e.args[0].canon() == Z1]
        ok1 = len(aw1) == 1 and d.equals(aw1[0].result * n1) and it.interval_of(aw1[0].result, p).excludes_zero()
        all_cell = '(%s).nAtomsAll' % cd
        okall = (l1.value or {}).get(all_cell) is not None and (l1.value[all_cell] - Rat.sym(all_cell + '@L%d' % l1.id)).equals(n1)
        init_all = [e for e in st if e.lv == all_cell][0].value.is_zero()
        chk.decide(ok1 and okall and init_all and loop_range(l1.node, 'ca.nElements'), 'composition-formulas', U, f['name'], 'sums', loc,
                   'molar mass and total atom count must accumulate A(Z_i) x n_i and n_i over every entry i in [0, nElements), starting from 0, with A(Z_i) '
                   'known to be non-zero; found d(sum) = %s, nAtomsAll -> %s' % (d.canon()[:120], ((l1.value or {}).get(all_cell) or Rat.const(0)).canon()[:120]),
                   why='sum += AtomicWeight(Z_i) * n_i (non-zero weight); nAtomsAll += n_i; i in [0, nElements)')
        # the value of sum when the second loop starts
        mm = [e for e in st if e.lv == '(%s).molarMass' % cd]
        total = mm[-1].value if mm else None
        snap = l2.value or {}
        aw2 = [e for e in p.events if e.kind == 'call' and e.name == 'AtomicWeight' and e.args[0].canon() == Z2]
        okE = snap.get('(%s).Elements[%s]' % (cd, i2)) is not None and snap['(%s).Elements[%s]' % (cd, i2)].canon() == Z2
        okN = snap.get('(%s).nAtoms[%s]' % (cd, i2)) is not None and snap['(%s).nAtoms[%s]' % (cd, i2)].equals(n2)
        mf = snap.get('(%s).massFractions[%s]' % (cd, i2))
        okM = mf is not None and total is not None and len(aw2) == 1 and mf.equals(aw2[0].result * n2 / total) and \
            re.match(r'^sum@L\d+$', total.canon()) is not None
        chk.decide(okE and okN and okM and loop_range(l2.node, 'ca.nElements'), 'composition-formulas', U, f['name'], 'per-element', loc,
                   'for every i in [0, nElements): Elements[i] = Z_i, nAtoms[i] = n_i, massFractions[i] = A(Z_i) n_i / molarMass with molarMass the completed '
                   'sum; found massFractions[i] = %s, molarMass = %s' % (mf.canon()[:160] if mf is not None else None, total.canon() if total is not None else None),
                   why='Elements[i] = Z_i; nAtoms[i] = n_i; massFractions[i] = A(Z_i) n_i / sum; molarMass = sum')
        # divisor positive (so the fractions are positive and sum to one)
        tiv = it.interval_of(total, p) if total is not None else None
        chk.decide(tiv is not None and tiv.lo is not None and (tiv.lo > 0 or (tiv.lo == 0 and tiv.los)), 'composition-formulas', U, f['name'], 'positive-mass', loc,
                   'the molar mass that divides the fractions is not known to be positive', why='sum of positive terms')
    chk.floor('CompoundParser paths through both loops', generic, 1)
    # elements without weight are rejected: every failing path after the parser succeeded reports through AtomicWeight's error
    rej = [p for p in paths if p.ret is not None and it.is_zero(p.ret, p) and
           any(e.kind == 'call' and e.name == 'AtomicWeight' and it.interval_of(e.result, p).is_zero() for e in p.events)]
    okr = bool(rej) and all(any(e.kind == 'call' and e.name == 'AtomicWeight' and e.args[1].canon() == 'error' and it.interval_of(e.result, p).is_zero()
                                for e in p.events) for p in rej)
    chk.decide(okr, 'no-weight-rejected', U, f['name'], 'AtomicWeight == 0', loc,
               'an element without tabulated atomic weight must end in NULL with the error reported by AtomicWeight(Z, error)', why='NULL, error from AtomicWeight')
    # locale
    locale_bracket(chk, f, prog)
    # on every path that runs the scanner, a changing setlocale call precedes it and the restoring one follows it (read off the
    # abstract paths, so it does not matter whether the locale calls sit in this function or in a helper of it)
    inside, nscan = True, 0
    for p in paths:
        ev = [e for e in p.events if e.kind == 'call' and e.name in ('setlocale', 'CompoundParserSimple')]
        at = [i_ for i_, e in enumerate(ev) if e.name == 'CompoundParserSimple']
        if not at:
            continue
        nscan += 1
        before = [e for e in ev[:at[0]] if e.name == 'setlocale' and len(e.args or []) > 1 and not (e.args[1] is not None and e.args[1].canon() == '0')]
        after = [e for e in ev[at[-1] + 1:] if e.name == 'setlocale']
        if not before or not after:
            inside = False
    inside = inside and nscan > 0
    chk.decide(inside, 'locale-bracket', U, f['name'], 'strtod-inside-bracket', loc,
               'the call that converts subscripts (strtod, inside CompoundParserSimple) must lie between the locale change and its restoration',
               why='CompoundParserSimple is called inside the bracket')
    users = [g['name'] for g in prog.src_funcs() if g['unit'].startswith('src/') and g['unit'] not in ('src/pr_data.c', 'src/xrayfiles.c') and
             any(c.get('callee') in ('strtod', 'atof', 'strtof', 'sscanf') for c in calls_in(g.get('body') or {})) and g['unit'] == U]
    chk.decide(users == ['CompoundParserSimple'], 'locale-bracket', U, f['name'], 'only-strtod-user', loc,
               'locale-dependent conversions in the parser outside CompoundParserSimple: %s' % users, why='strtod only in CompoundParserSimple')


# ---------------------------------------------------------------------------------------------------- add_compound_data
def it_none(it, p):
    """the longer operand is known to be empty on this path (nothing to compare with)"""
    iv = it.interval_of(Rat.sym('longest.nElements'), p)
    return iv.hi is not None and iv.hi <= 0


def add_compound(prog, chk):
    f = prog.func('add_compound_data', unit=U)
    loc = '%s:%d' % (U, f['ln'])
    ids = local_ids(f)
    top = f['body']['c']
    ifs = [n for n in top if n.get('k') == 'IfStmt']
    chk.floor('add_compound_data operand selection', len(ifs), 1)
    it, paths = frag(prog, f, ifs[0])
    pa = [p['name'] for p in f['params']]      # A, weightA, B, weightB
    pair = {'&' + pa[0]: '&' + pa[1], '&' + pa[2]: '&' + pa[3]}
    seen = set()
    ok = len(paths) == 2
    for p in paths:
        L, S = p.env.get(ids['longest']), p.env.get(ids['shortest'])
        LW, SW = p.env.get(ids['longestW']), p.env.get(ids['shortestW'])
        if None in (L, S, LW, SW):
            ok = False
            continue
        L, S, LW, SW = L.canon(), S.canon(), LW.canon(), SW.canon()
        ok = ok and {L, S} == set(pair) and pair.get(L) == LW and pair.get(S) == SW
        seen.add(L)
        # the longer one really is the longer one
        d = it.interval_of(Rat.sym('%s.nElements' % L.lstrip('&')) - Rat.sym('%s.nElements' % S.lstrip('&')), p)
        ok = ok and d.lo is not None and d.lo >= 0
    chk.decide(ok and seen == set(pair), 'weights-paired', U, f['name'], 'operand-selection', loc,
               'on both branches the composition called longest/shortest must travel with its own weight (A with weightA, B with weightB) and longest must '
               'have at least as many elements', why='(longest, longestW) and (shortest, shortestW) are (A, weightA)/(B, weightB) in either order')
    loops = [n for n in top if n.get('k') == 'ForStmt']
    chk.floor('add_compound_data loops', len(loops), 2)
    union, accum = loops[0], loops[-1]
    # copy of the longer element list
    okc = False
    itf, pf = frag(prog, f, {'k': 'CompoundStmt', 'c': top[top.index(ifs[0]) + 1: top.index(union)]})
    for p in pf:
        st = {e.lv: e.value for e in p.events if e.kind == 'store'}
        rvv = p.env.get(ids['rv'])
        r = rvv.canon() if rvv is not None else 'rv'
        mc = [e for e in p.events if e.kind == 'call' and e.name == 'memcpy']
        al = [e for e in p.events if e.kind == 'call' and e.name == 'malloc']
        size = Rat.sym('sizeof(int)') * Rat.sym('longest.nElements')
        okc = len(mc) == 1 and mc[0].args[1].canon() == 'longest.Elements' and mc[0].args[2].equals(size) and \
            any(a.args[0].equals(size) and a.result.canon() == mc[0].args[0].canon() for a in al) and \
            st.get('rv.Elements') is not None and st['rv.Elements'].canon() == mc[0].args[0].canon() and \
            st.get('rv.nElements') is not None and st['rv.nElements'].canon() == 'longest.nElements'
    chk.decide(okc, 'union-of-elements', U, f['name'], 'starts-with-longest', loc,
               'the element list of the result must start as a copy of all nElements elements of the longer operand', why='copy of longest->Elements, nElements = longest->nElements')
    # union loop: an element of the shorter list is appended iff it equals no element of the longer list
    oku = loop_range(union, 'shortest->nElements')
    itu, pu = frag(prog, f, union['body'])
    # the search loop: read off the paths (it may sit in a helper that the engine inlined): one loop 0 <= v < longest->nElements
    inner = {}
    for p in pu:
        for e in p.events:
            if e.kind == 'loop-begin' and e.node is not None:
                inner[e.id] = (e.node, e.value.canon() if hasattr(e.value, 'canon') else None)
    oku = oku and len(inner) == 1 and all(loop_range(nd, '') and bv == 'longest.nElements' for nd, bv in inner.values())
    n_app = n_skip = 0
    for p in pu:
        if p.status != 'end':
            oku = False
            continue
        eq = [k for k, v in p.facts.items() if 'longest.Elements[' in unparen(k) and 'shortest.Elements[i]' in unparen(k) and v.is_zero()]
        ne = [k for k, v in p.facts.items() if 'longest.Elements[' in unparen(k) and 'shortest.Elements[i]' in unparen(k) and v.excludes_zero()]
        none = it_none(itu, p)
        app = [e for e in p.events if e.kind == 'store' and re.search(r'\.nElements$', e.lv)]
        if app:
            n_app += 1
            stv = [e for e in p.events if e.kind == 'store']
            cnt = app[0]
            old = cnt.value - Rat.const(1)
            ra = [e for e in p.events if e.kind == 'call' and e.name == 'realloc']
            cell = [e for e in stv if re.search(r'\.Elements\[', e.lv)]
            oku = oku and not eq and (bool(ne) or none) and len(ra) == 1 and ra[0].args[1].equals(cnt.value * Rat.sym('sizeof(int)')) and len(cell) == 1 and \
                cell[0].lv.endswith('.Elements[%s]' % old.canon()) and cell[0].value.canon() == 'shortest.Elements[i]'
        else:
            n_skip += 1
            oku = oku and bool(eq)
    chk.decide(oku and n_app >= 1 and n_skip >= 1, 'union-of-elements', U, f['name'], 'adds-missing-elements', loc,
               'an element of the shorter operand must be appended (vector grown by one) exactly when it equals none of the nElements elements of the longer '
               'operand', why='appended iff not found among longest->Elements[0..n)')
    # sorted afterwards
    qs = [c for s_ in top[top.index(union) + 1: top.index(accum)] for c in calls_in(s_) if c.get('callee') == 'qsort']
    okq = len(qs) == 1 and show(qs[0]['args'][0]).replace(' ', '') == 'rv->Elements' and show(qs[0]['args'][1]).replace(' ', '') == 'rv->nElements' and \
        show(strip_casts(qs[0]['args'][3])) == 'compareInt' and 'int' in show(qs[0]['args'][2])
    chk.decide(okq, 'sorted-by-Z', U, f['name'], 'union-sorted', loc, 'the union must be sorted ascending over all nElements entries with compareInt before it is used',
               why='qsort(rv->Elements, rv->nElements, sizeof(int), compareInt)')
    # zero-initialised fractions
    z = [c for s_ in top[top.index(union) + 1: top.index(accum)] for c in calls_in(s_) if c.get('callee') == 'calloc']
    okz = any(show(c['args'][0]).replace(' ', '') == 'rv->nElements' and 'double' in show(c['args'][1]) for c in z) and \
        any(n.get('k') == 'BinaryOperator' and n.get('op') == '=' and show(n['c'][0]).replace(' ', '') == 'rv->massFractions' and
            strip_casts(n['c'][1]).get('callee') == 'calloc' for s_ in top for n in walk(s_))
    chk.decide(okz, 'weighted-sum', U, f['name'], 'starts-from-zero', loc, 'massFractions must be nElements zeros before accumulation', why='calloc(rv->nElements, sizeof(double))')
    # accumulation: for each i: += L.f[j] * *LW when E_i == L.E_j, += S.f[j] * *SW when E_i == S.E_j
    oka = loop_range(accum, 'rv->nElements')
    inn = [n for n in accum['body'].get('c', []) if n.get('k') == 'ForStmt']
    oka = oka and len(inn) == 2
    found = {}
    for lp in inn:
        for who in ('longest', 'shortest'):
            if loop_range(lp, who + '->nElements'):
                ita, pa_ = frag(prog, f, lp['body'])
                good = False
                for p in pa_:
                    stv = [e for e in p.events if e.kind == 'store']
                    if not stv:
                        continue
                    e = stv[0]
                    cell = e.lv
                    eq = [k for k, v in p.facts.items() if v.is_zero() and '%s.Elements[j]' % who in k and 'rv.Elements[i]' in k]
                    want = Rat.sym(cell) + Rat.sym('%s.massFractions[j]' % who) * Rat.sym('*%sW' % who)
                    good = len(stv) == 1 and re.match(r'^\(?rv\)?\.massFractions\[i\]$', cell) is not None and e.value.equals(want) and bool(eq)
                    if not good:
                        found[who] = 'store %s = %s' % (cell, e.value.canon()[:140])
                quiet = [p for p in pa_ if not [e for e in p.events if e.kind == 'store']]
                if good and quiet:
                    found[who] = True
                elif who not in found:
                    found[who] = 'no accumulating path'
    chk.decide(oka and found.get('longest') is True and found.get('shortest') is True, 'weighted-sum', U, f['name'], 'w_A f_A + w_B f_B', loc,
               'for every element i of the union, massFractions[i] must grow by fraction_j x (the weight of that operand) exactly for the entries j of each operand '
               'with the same element; found %s' % found, why='+= longest->massFractions[j] * *longestW and += shortest->massFractions[j] * *shortestW under Elements equality')
