"""Helpers shared by the rule modules."""
import re

from xvlib.normform import Rat, Poly

ERR_ARG = re.compile(r',(error|0|&\w+)\)')


def rename_poly(p, fn):
    out = {}
    for mon, co in p.t.items():
        d = {}
        for s, pw in mon:
            s2 = fn(s)
            d[s2] = d.get(s2, 0) + pw
        k = tuple(sorted(d.items()))
        out[k] = out.get(k, 0) + co
    return Poly(out)


def rename(rat, fn):
    return Rat(rename_poly(rat.n, fn), rename_poly(rat.d, fn))


ERR_FUNCS = set()


def register_error_functions(prog):
    """Names of all project functions whose last parameter is the error slot."""
    if ERR_FUNCS:
        return
    for u in prog.units:
        for f in list(u['functions']) + list(u['protos']):
            if f['params'] and f['params'][-1]['T'] == 'struct _xrl_error **':
                ERR_FUNCS.add(f['name'])


def strip_err_text(s):
    """Remove the trailing xrl_error** argument of every call to a function that has one: f(Z,0,error) -> f(Z,0)."""
    out = []
    i = 0
    n = len(s)
    # stack of (name, start index in out of '(' , index of last top-level comma in out)
    stack = []
    ident = re.compile(r'[A-Za-z_]\w*(?:#\d+)?')
    while i < n:
        m = ident.match(s, i)
        if m and m.end() < n and s[m.end()] == '(':
            out.append(m.group(0))
            out.append('(')
            stack.append([m.group(0).split('#')[0], len(out) - 1, None])
            i = m.end() + 1
            continue
        ch = s[i]
        if ch == '(':
            stack.append([None, len(out), None])
        elif ch == ',' and stack:
            stack[-1][2] = len(out)
        elif ch == ')' and stack:
            name, start, comma = stack.pop()
            if name in ERR_FUNCS:
                if comma is not None:
                    del out[comma:]
                else:
                    del out[start + 1:]
        out.append(ch)
        i += 1
    return ''.join(out)


def noerr(rat):
    return rename(rat, strip_err_text)


def sets_error(st):
    return [e for e in st.events if e.kind == 'call' and e.name in ('xrl_set_error_literal', 'xrl_set_error', 'xrl_propagate_error')]


def value_paths(it, paths):
    return [p for p in paths if p.ret is not None and not it.is_zero(p.ret, p)]


def zero_paths(it, paths):
    return [p for p in paths if p.ret is not None and it.is_zero(p.ret, p)]


def known_nonzero(it, st, sym):
    iv = it.interval_of(Rat.sym(sym), st)
    return iv.excludes_zero()


def full_range(node, bound_suffix):
    """`for (v = 0; v < <... bound_suffix>; v++)`: the loop visits every index of [0, bound)"""
    from xvlib.facts import walk as _walk, show as _show
    if not node or node.get('k') != 'ForStmt':
        return False
    init0 = any(a.get('k') == 'BinaryOperator' and a['op'] == '=' and a['c'][1].get('v') == 0 for a in _walk(node.get('init') or {})) or \
        any(d.get('init', {}).get('v') == 0 for a in _walk(node.get('init') or {}) if a.get('k') == 'DeclStmt' for d in a.get('decls', []))
    cond = node.get('cond') or {}
    inc = node.get('inc') or {}
    if not (init0 and cond.get('k') == 'BinaryOperator' and cond.get('op') == '<'):
        return False
    var = _show(cond['c'][0])
    step = (inc.get('k') == 'UnaryOperator' and inc.get('op') == '++' and _show(inc['c'][0]) == var) or \
        (inc.get('k') == 'CompoundAssignOperator' and inc.get('op') == '+=' and _show(inc['c'][0]) == var and inc['c'][1].get('v') == 1)
    return bool(step) and _show(cond['c'][1]).replace(' ', '').endswith(bound_suffix)


def generator_float_formats(prog, unit='src/pr_data.c'):
    """Every floating-point conversion in the fprintf formats of the table generator: [(function, line, conversion text, significant
    digits kept or None when the conversion keeps a fixed number of DECIMALS, float-suffix)].  %.NE keeps N+1 significant digits,
    %.Ng keeps N; %f / %.Nf keep decimals, not significant digits; a literal suffix f makes the generated constant a float."""
    import re as _re
    from xvlib.facts import calls_in as _calls, strip_casts as _strip
    out = []
    for u in prog.units:
        if u.get('rel') != unit:
            continue
        for f in u['functions']:
            for c in _calls(f.get('body') or {}, 'fprintf'):
                if len(c['args']) < 3:
                    continue
                fmt = _strip(c['args'][1]).get('val')
                if not isinstance(fmt, str):
                    continue
                for m in _re.finditer(r'%[-+ 0#]*\d*(?:\.(\d+))?(?:l|L)?([feEgG])(f?)', fmt):
                    prec, conv, suf = m.group(1), m.group(2), m.group(3)
                    if conv in 'eE':
                        digits = (int(prec) if prec is not None else 6) + 1
                    elif conv in 'gG':
                        digits = int(prec) if prec is not None else 6
                    else:
                        digits = None
                    out.append((f['name'], c['ln'], m.group(0), digits, bool(suf), fmt))
    return out
