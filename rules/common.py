"""Helpers shared by the rule modules."""
import re

from xvlib.normform import Rat, Poly

ERR_ARG = re.compile(r',(error|0|&\w+)\)')


def rename_poly(p, fn):
    out = {}
    for mon, co in p.t.items():
        d = {}
        for s, pw in mon:
            s2 = fn(s)
            d[s2] = d.get(s2, 0) + pw
        k = tuple(sorted(d.items()))
        out[k] = out.get(k, 0) + co
    return Poly(out)


def rename(rat, fn):
    return Rat(rename_poly(rat.n, fn), rename_poly(rat.d, fn))


def strip_err_text(s):
    """Remove the trailing xrl_error** argument of every call in a symbol: f(Z,E,error) -> f(Z,E)."""
    prev = None
    while prev != s:
        prev = s
        s = ERR_ARG.sub(')', s)
    return s


def noerr(rat):
    return rename(rat, strip_err_text)


def sets_error(st):
    return [e for e in st.events if e.kind == 'call' and e.name in ('xrl_set_error_literal', 'xrl_set_error', 'xrl_propagate_error')]


def value_paths(it, paths):
    return [p for p in paths if p.ret is not None and not it.is_zero(p.ret, p)]


def zero_paths(it, paths):
    return [p for p in paths if p.ret is not None and it.is_zero(p.ret, p)]


def known_nonzero(it, st, sym):
    iv = it.interval_of(Rat.sym(sym), st)
    return iv.excludes_zero()
