"""C09 - jump-ratio XRF cross sections = photo cross section x jump share x yield x rate."""
import re

from xvlib.core import Check
from xvlib.frontend import AnalysisBroken
from xvlib.absint import run_function, Inconclusive
from xvlib.facts import walk, show, strip_casts
from xvlib.names import Names
from xvlib.normform import Rat
from xvlib import inittab
from rules.common import noerr, sets_error, value_paths, zero_paths, strip_err_text, rename

L = ['L1', 'L2', 'L3']


def run(prog, tier):
    from rules.common import register_error_functions
    register_error_functions(prog)
    chk = Check('C09', tier, 'other',
                'The four Jump_from_* functions are enumerated path by path; each value path is classified by the set of K/L edges '
                'its facts place below the excitation energy and its returned normal form is compared exactly with the jump-ratio '
                'model (tau_k = (J_k-1)/(J_k * prod of J_j over open edges above k), 1/J_K above the K edge, Coster-Kronig feeding '
                'tau3 + tau2 f23 + tau1 (f13 + f\'13 + f12 f23), times the yield); every required jump ratio, yield and CK value '
                'is established non-zero on the path or leads to an error exit; below the sub-shell edge the call fails. The '
                'dispatcher table, CS_FluorShell, and CS_FluorLine (line->shell ranges from the macro names; every L-beta '
                'member multiplied by the jump function of its own shell) are decided the same way.',
                ['clang front end', 'E1 path enumeration with interval facts', 'E2 normal forms', 'E3 name oracle'],
                ['edge energies are ordered L1 > L2 > L3 (the else-chain of the source encodes this; physical fact of the data)'])
    names = Names(prog)
    U = 'src/cs_line.c'
    for S in ['K'] + L:
        jump(prog, chk, names, U, S)
    dispatcher(prog, chk, names, U)
    fluor_line(prog, chk, names, U)
    share_nonzero(prog, chk, U)
    error_only_on_failure(prog, chk, tier, U)
    return chk


def J(z, s, names):
    return Rat.sym('JumpFactor(%s,%d)' % (z, names.shell_value[s]))


def CK(z, t, names):
    return Rat.sym('CosKronTransProb(%s,%d)' % (z, names.ck_value[t]))


def Y(z, s, names):
    return Rat.sym('FluorYield(%s,%d)' % (z, names.shell_value[s]))


def model(z, S, open_set, names):
    """(expected factor, {required symbol canon: reason}) for target S with the given set of open edges."""
    f = Rat.const(1)
    req = {}
    if 'K' in open_set:
        f = f / J(z, 'K', names)
        req[J(z, 'K', names).canon()] = 'jump ratio of the K edge (below E)'
    if S == 'K':
        jk = J(z, 'K', names)
        return (jk - Rat.const(1)) / jk * Y(z, 'K', names), {jk.canon(): 'jump ratio K', Y(z, 'K', names).canon(): 'yield K'}
    tau = {}
    for k in L:
        if k in open_set:
            den = J(z, k, names)
            for j in L[:L.index(k)]:
                if j in open_set:
                    den = den * J(z, j, names)
            tau[k] = (J(z, k, names) - Rat.const(1)) / den
            req[J(z, k, names).canon()] = 'jump ratio of the %s edge (below E)' % k
        else:
            tau[k] = Rat.const(0)
    if S == 'L1':
        share = tau['L1']
    elif S == 'L2':
        share = tau['L2'] + tau['L1'] * CK(z, 'FL12', names)
    else:
        share = tau['L3'] + tau['L2'] * CK(z, 'FL23', names) + tau['L1'] * (
            CK(z, 'FL13', names) + CK(z, 'FLP13', names) + CK(z, 'FL12', names) * CK(z, 'FL23', names))
    req[Y(z, S, names).canon()] = 'fluorescence yield of %s' % S
    return f * share * Y(z, S, names), req


def jump(prog, chk, names, U, S):
    fn = 'Jump_from_' + S
    f = prog.func(fn, unit=U)
    it, paths = run_function(prog, f)
    z, e = f['params'][0]['name'], f['params'][1]['name']
    loc = '%s:%d' % (U, f['ln'])

    def edge(s):
        for arg in ('0', 'error'):
            yield Rat.sym('EdgeEnergy(%s,%d,%s)' % (z, names.shell_value[s], arg))

    def is_open(p, s):
        for ed in edge(s):
            d = it.interval_of(Rat.sym(e) - ed, p)
            pos = it.interval_of(ed, p)
            if d.lo is not None and (d.lo > 0 or (d.lo == 0 and d.los)) and pos.lo is not None and (pos.lo > 0 or (pos.lo == 0 and pos.los)):
                return True
        return False
    vals = value_paths(it, paths)
    seen_sets = set()
    for p in vals:
        k_open = is_open(p, 'K')
        if S == 'K':
            oset = {'K'} if k_open else set()
        else:
            top = None
            for s in L:
                if is_open(p, s):
                    top = s
                    break
            oset = set(L[L.index(top):]) if top else set()
            # the target's own edge and all lower ones are open whenever a higher L edge is (edge ordering)
            if k_open:
                oset.add('K')
        inst = 'open=%s' % ','.join(sorted(oset)) or '-'
        ploc = '%s:%d' % (U, p.ret_node['ln'])
        if S not in oset:
            chk.bad('jump-share', U, fn, inst + ' below-edge', ploc, 'a value is returned although the %s edge is not established to lie below E' % S)
            continue
        want, req = model(z, S, oset, names)
        got = noerr(p.ret)
        ok = got.equals(want)
        seen_sets.add(frozenset(oset))
        chk.decide(ok, 'jump-share', U, fn, inst, ploc,
                   'with edges {%s} below E the %s fluorescence factor must be %s; found %s' % (
                       ','.join(sorted(oset)), S, pretty(want.canon(), names, z), pretty(got.canon(), names, z)),
                   why='jump-ratio model for open edges {%s}' % ','.join(sorted(oset)))
        if not ok:
            continue
        # every jump ratio / yield that appears in the expected expression is established non-zero on this path
        req = {}
        for s_ in want.n.symbols() | want.d.symbols():
            if s_.startswith('JumpFactor('):
                req[s_] = 'a jump ratio'
            elif s_.startswith('FluorYield('):
                req[s_] = 'the fluorescence yield'
        for sym, why in sorted(req.items()):
            iv = it.interval_of(rename_err(Rat.sym(sym), p, it), p)
            chk.decide(iv.excludes_zero(), 'required-available', U, fn, '%s %s' % (inst, pretty(sym, names, z)), ploc,
                       '%s is used on this path without establishing that it is available (non-zero): an unavailable value would '
                       'silently give 0 or a wrong share instead of an error' % why, why='%s tested' % pretty(sym, names, z))
        if S in ('L2', 'L3'):
            cks = ['FL12'] if S == 'L2' else ['FL23', 'FL12']
            tau_of = {'FL12': 'L1', 'FL23': 'L2'}
            for t in cks:
                needed_by = ['L1'] if t == 'FL12' else ['L2', 'L1']
                needed_by = [k for k in needed_by if k in oset]
                if not needed_by:
                    continue
                civ = it.interval_of(find_sym(p, it, 'CosKronTransProb(%s,%d' % (z, names.ck_value[t])), p)
                # tau_k > 0 <=> J_k > 1 ; the source tests the local tau variable, whose value is the tau expression
                guarded = civ.excludes_zero()
                if not guarded:
                    # acceptable only if every tau that multiplies it is known not to be positive
                    guarded = True
                    for k in needed_by:
                        den = J(z, k, names)
                        for j in L[:L.index(k)]:
                            if j in oset:
                                den = den * J(z, j, names)
                        tau = (J(z, k, names) - Rat.const(1)) / den
                        tiv = it.interval_of(rename_err(tau, p, it), p)
                        if not (tiv.hi is not None and tiv.hi <= 0):
                            guarded = False
                chk.decide(guarded, 'required-available', U, fn, '%s %s' % (inst, t), ploc,
                           'the Coster-Kronig probability %s feeds the %s share from %s on this path but is neither established '
                           'non-zero nor is the feeding share known to vanish: an unavailable value must be an error' % (t, S, needed_by),
                           why='%s available whenever it feeds the share' % t)
            if S == 'L3' and 'L1' in oset:
                s13 = find_sym(p, it, 'CosKronTransProb(%s,%d' % (z, names.ck_value['FL13'])) + \
                    find_sym(p, it, 'CosKronTransProb(%s,%d' % (z, names.ck_value['FLP13']))
                iv = it.interval_of(s13, p)
                den = J(z, 'L1', names)
                tiv = it.interval_of(rename_err((J(z, 'L1', names) - Rat.const(1)) / den, p, it), p)
                chk.decide(iv.excludes_zero() or (tiv.hi is not None and tiv.hi <= 0), 'required-available', U, fn, inst + ' FL13+FLP13', ploc,
                           'the direct L1->L3 Coster-Kronig feeding (f13 + f\'13) is used without establishing it is available',
                           why='f13 + f\'13 available whenever L1 feeds L3')
    need = {'K': [{'K'}], 'L1': [{'L1', 'L2', 'L3'}], 'L2': [{'L1', 'L2', 'L3'}, {'L2', 'L3'}], 'L3': [{'L1', 'L2', 'L3'}, {'L2', 'L3'}, {'L3'}]}[S]
    for base in need:
        for withk in ((False, True) if S != 'K' else (False,)):
            o = frozenset(base | ({'K'} if withk else set()))
            chk.decide(o in seen_sets or any(v['function'] == fn for v in chk.violations), 'jump-share', U, fn, 'covers open=%s' % ','.join(sorted(o)), loc,
                       'no value path serves the case where exactly the edges {%s} lie below E' % ','.join(sorted(o)),
                       why='case served')
    zp = zero_paths(it, paths)
    ok_err = all(sets_error(p) or delegated_failure(p, it) for p in zp)
    chk.decide(bool(zp) and ok_err, 'below-edge-fails', U, fn, 'error', loc,
               'every 0 return (below the edge, unavailable jump ratio / yield / CK) must report an error', why='%d failure paths report an error' % len(zp))


def delegated_failure(p, it):
    for e in p.events:
        if e.kind == 'call' and e.args and e.args[-1] is not None and e.args[-1].canon() == 'error' and e.result is not None and \
                it.interval_of(e.result, p).is_zero():
            return True
    return False


def rename_err(rat, p, it):
    """model symbols carry no error argument; map them onto the symbols of this path (error / 0 variants)."""
    from rules.common import rename
    table = {}
    for e in p.events:
        if e.kind == 'call' and e.result is not None:
            c = e.result.canon()
            table[strip_err_text(c)] = c
    return rename(rat, lambda s: table.get(s, s))


def find_sym(p, it, prefix):
    for e in p.events:
        if e.kind == 'call' and e.result is not None and e.result.canon().startswith(prefix):
            return e.result
    return Rat.sym(prefix + ')')


def pretty(s, names, z):
    for sh, v in names.shell_value.items():
        s = s.replace('JumpFactor(%s,%d)' % (z, v), 'J_' + sh).replace('FluorYield(%s,%d)' % (z, v), 'w_' + sh)
    for t, v in names.ck_value.items():
        s = s.replace('CosKronTransProb(%s,%d)' % (z, v), t)
    return s[:260]


def dispatcher(prog, chk, names, U):
    g = prog.global_def('jumpers', unit=U)
    tbl = inittab.evaluate(g['init'])
    want = ['Jump_from_K', 'Jump_from_L1', 'Jump_from_L2', 'Jump_from_L3']
    got = [t.name if hasattr(t, 'name') else str(t) for t in tbl]
    ok = got == want and [names.shell_value[s] for s in ('K', 'L1', 'L2', 'L3')] == [0, 1, 2, 3]
    chk.decide(ok, 'dispatch-table', U, 'jumpers', 'order', '%s:%d' % (U, g['ln']),
               'jumpers[] must hold the K, L1, L2, L3 functions at the indices K_SHELL..L3_SHELL; found %s' % got, why='index = shell macro value')
    f = prog.func('CS_FluorShell', unit=U)
    it, paths = run_function(prog, f)
    z, sh, e = (p['name'] for p in f['params'][:3])
    vals = value_paths(it, paths)
    seen = {}
    for p in vals:
        iv = it.interval_of(Rat.sym(sh), p)
        r = noerr(p.ret)
        m = None
        for s_ in r.n.symbols():
            mm = re.match(r'^(Jump_from_\w+)\(%s,%s\)$' % (z, e), s_)
            if mm:
                m = mm.group(1)
        okv = m is not None and r.equals(Rat.sym('CS_Photo(%s,%s)' % (z, e)) * Rat.sym('%s(%s,%s)' % (m, z, e)))
        if iv.lo == iv.hi and iv.lo is not None:
            seen[int(iv.lo)] = (m, okv, p)
        else:
            seen[('range', str(iv))] = (m, okv, p)
    for i, s in enumerate(('K', 'L1', 'L2', 'L3')):
        ent = seen.get(names.shell_value[s])
        # indirect call with symbolic index: one path for the whole range is also fine when the callee is jumpers[shell]
        if ent is None:
            rng = [v for k, v in seen.items() if isinstance(k, tuple)]
            if rng:
                p = rng[0][2]
                calls = [ev for ev in p.events if ev.kind == 'call' and (ev.name == '<indirect>' or 'jumpers' in (ev.name or ''))]
                ivs = it.interval_of(Rat.sym(sh), p)
                okr = ivs.lo == 0 and ivs.hi == 3
                chk.decide(okr and bool(calls), 'dispatch', U, 'CS_FluorShell', s + '_SHELL', '%s:%d' % (U, f['ln']),
                           'the indirect call through jumpers[shell] must be reached with shell in [K_SHELL, L3_SHELL] only; found %s' % ivs,
                           why='jumpers[shell] with shell in [0, 3]')
                continue
            chk.bad('dispatch', U, 'CS_FluorShell', s + '_SHELL', '%s:%d' % (U, f['ln']), 'no value path for shell %s' % s)
            continue
        m, okv, p = ent
        chk.decide(okv and m == want[i], 'dispatch', U, 'CS_FluorShell', s + '_SHELL', '%s:%d' % (U, p.ret_node['ln']),
                   'shell %s must return CS_Photo(Z,E) * %s(Z,E); found %s' % (s, want[i], strip_err_text(p.ret.canon())[:200]),
                   why='CS_Photo * %s' % want[i])
    for p in vals:
        cs = [ev for ev in p.events if ev.kind == 'call' and ev.name == 'CS_Photo']
        jf = [ev for ev in p.events if ev.kind == 'call' and ((ev.name or '').startswith('Jump_from') or ev.name == '<indirect>' or (ev.name or '').startswith('jumpers['))]
        tested = all(it.interval_of(ev.result, p).excludes_zero() for ev in cs + jf if ev.result is not None)
        chk.decide(bool(cs) and bool(jf) and tested, 'dispatch', U, 'CS_FluorShell', 'tested@%d' % p.ret_node['ln'], '%s:%d' % (U, p.ret_node['ln']),
                   'both the photo cross section and the jump factor must be tested for failure before the product is returned',
                   why='both factors tested')


def noerr_key(key):
    return strip_err_text(key)


def error_only_on_failure(prog, chk, tier, U):
    """"the call fails with an error ... when a REQUIRED jump ratio, yield or Coster-Kronig probability is unavailable": a quantity that is
    not required on the path taken must not leave an error behind a valid result (a lookup that is handed the caller's error slot and
    whose failure is then ignored).  The per-path error typestate of rules/c03.py (error => sentinel, set once, untested delegates),
    restricted to the functions of this property."""
    from rules import c03
    shim = c03.run(prog, tier)
    mine = ('Jump_from_K', 'Jump_from_L1', 'Jump_from_L2', 'Jump_from_L3', 'CS_FluorShell', 'CS_FluorLine', 'CSb_FluorShell', 'CSb_FluorLine')
    take = ('O2-error-means-sentinel', 'O3-set-once', 'O4-untested-delegate', 'O1-sentinel-has-error')
    n = sum(1 for rule, inst, why, loc in shim.held if rule in take and inst.split(':')[0].split(' ')[0] in mine)
    bad = [v for v in shim.violations if v['rule'] in take and v['function'] in mine]
    for v in bad:
        chk.bad('error-iff-failure', v['unit'], v['function'], '%s: %s' % (v['rule'], v['instance']), v['loc'],
                'the error slot and the result disagree on this path of the jump-ratio cross sections: ' + v['message'])
    if not bad:
        chk.ok('error-iff-failure', 'jump-ratio functions', 'error stored exactly on the failing paths (%d path families of %d functions)' % (n, len(mine)), U)
    chk.floor('error-typestate obligations of the jump-ratio functions', n + len(bad), 20)


def share_nonzero(prog, chk, U):
    """A jump share that comes out as exactly 0 (a tabulated jump ratio of 1) must be reported as an error: the callers treat 0 as
    "failed" and hand it on as their own 0, so without an error of its own the cross section would come back as 0 with an empty
    error slot.  Decided on every value exit of the four share functions: the returned factor is established non-zero."""
    n = 0
    for fn in ('Jump_from_K', 'Jump_from_L1', 'Jump_from_L2', 'Jump_from_L3'):
        f = prog.func(fn, unit=U, required=False)
        if f is None:
            continue
        it, paths = run_function(prog, f)
        for p in value_paths(it, paths):
            n += 1
            chk.decide(it.interval_of(p.ret, p).excludes_zero(), 'share-nonzero', U, fn, 'value exit@%d' % p.ret_node['ln'], '%s:%d' % (U, p.ret_node['ln']),
                       'the share %s can be exactly 0 here (jump ratio 1.0 in the table, e.g. Li K, Mg L1/L2): it is returned without an error, and '
                       'CS_FluorShell / CS_FluorLine then return 0 with an empty error slot' % strip_err_text(p.ret.canon())[:80],
                       why='factor tested non-zero before it is returned')
    chk.floor('value exits of the jump share functions', n, 4)


def fluor_line(prog, chk, names, U):
    f = prog.func('CS_FluorLine', unit=U)
    it, paths = run_function(prog, f)
    z, ln, e = (p['name'] for p in f['params'][:3])
    vals = value_paths(it, paths)
    # which shell serves which line range
    served = {}
    lb_path = None
    for p in vals:
        r = noerr(p.ret)
        m = None
        for s_ in r.n.symbols():
            mm = re.match(r'^CS_FluorShell\(%s,(\d+),%s\)$' % (z, e), s_)
            if mm:
                m = int(mm.group(1))
        iv = it.interval_of(Rat.sym(ln), p)
        if m is not None:
            ok = r.equals(Rat.sym('CS_FluorShell(%s,%d,%s)' % (z, m, e)) * Rat.sym('RadRate(%s,%s)' % (z, ln)))
            served.setdefault(m, []).append((iv, ok, p))
        elif iv.lo == iv.hi == names.group_value['LB']:
            lb_path = p
    for S in ('K', 'L1', 'L2', 'L3'):
        sv = names.shell_value[S]
        lines = [names.line_value[x] for x in names.lines_of_shell(S)]
        lo, hi = min(lines), max(lines)
        ents = served.get(sv, [])
        covered = set()
        okform = True
        for iv, ok, p in ents:
            okform = okform and ok
            if iv.lo is not None and iv.hi is not None:
                covered |= set(range(int(iv.lo), int(iv.hi) + 1))
        extra_ok = {names.group_value['KA'], names.group_value['KB']} if S == 'K' else ({names.group_value['LA']} if S == 'L3' else set())
        foreign = sorted(v for v in covered if v not in set(lines) | extra_ok)
        missing = sorted(v for v in lines if v not in covered)
        chk.decide(okform and not foreign and not missing, 'line-shell-ranges', U, 'CS_FluorLine', S + ' lines', '%s:%d' % (U, f['ln']),
                   'lines of shell %s (macro range [%d, %d]) must return CS_FluorShell(Z, %s_SHELL, E) * RadRate(Z, line): missing %s, '
                   'foreign %s%s' % (S, lo, hi, S, [names.line_by_value.get(v, v) for v in missing][:6],
                                     [names.line_by_value.get(v, v) for v in foreign][:6], '' if okform else ', wrong product'),
                   why='exactly the %d %s lines%s' % (len(lines), S, ' + group macros' if extra_ok else ''))
    # L-beta
    if lb_path is None:
        chk.bad('LB-composition', U, 'CS_FluorLine', 'LB_LINE', '%s:%d' % (U, f['ln']), 'no value path for LB_LINE')
        return
    r = noerr(lb_path.ret)
    cs = Rat.sym('CS_Photo(%s,%s)' % (z, e))
    # expected: CS_Photo * sum_i Jump_from_<shell(line_i)>(Z,E) * RadRate(Z, line_i)
    mem = set()
    for s_ in r.n.symbols():
        mm = re.match(r'^RadRate\(%s,(-?\d+)\)$' % z, s_)
        if mm:
            mem.add(int(mm.group(1)))
    want = Rat.const(0)
    for v in sorted(mem):
        nm = names.line_by_value.get(v)
        src = names.parse_line(nm)[0] if nm and names.parse_line(nm) else None
        if src not in L:
            chk.bad('LB-composition', U, 'CS_FluorLine', 'member %s' % nm, '%s:%d' % (U, lb_path.ret_node['ln']), 'L-beta member %s is not an L line' % nm)
            continue
        want = want + Rat.sym('Jump_from_%s(%s,%s)' % (src, z, e)) * Rat.sym('RadRate(%s,%d)' % (z, v))
    ok = r.equals(cs * want)
    detail = ''
    if not ok:
        # find members paired with a foreign shell
        for v in sorted(mem):
            nm = names.line_by_value.get(v)
            for s2 in L:
                coeff = Rat.sym('Jump_from_%s(%s,%s)' % (s2, z, e)) * Rat.sym('RadRate(%s,%d)' % (z, v)) * cs
                # monomial present?
                mon = tuple(sorted(((x, 1) for x in ('Jump_from_%s(%s,%s)' % (s2, z, e), 'RadRate(%s,%d)' % (z, v), 'CS_Photo(%s,%s)' % (z, e)))))
                if mon in r.n.t and names.parse_line(nm)[0] != s2:
                    detail += '%s is multiplied by the jump function of %s; ' % (nm, s2)
    # the group may fail only when nothing can be summed (the whole sum is zero on the path) or when the photo cross section fails:
    # an exit that gives up because ONE member's factor is zero drops the members that still contribute
    total = cs * want
    nfail = 0
    for p in zero_paths(it, paths):
        iv = it.interval_of(Rat.sym(ln), p)
        if not (iv.lo == iv.hi == names.group_value['LB']):
            continue
        nfail += 1
        # the value the success path returns, evaluated under this path's facts (call results carry the same symbols on every path)
        siv = it.interval_of(rename(want, lambda s_: s_), p)
        sum_zero = siv.lo is not None and siv.hi is not None and siv.lo == siv.hi == 0
        if not sum_zero:
            # the sum as written in the code (with the NULL error argument spelled out)
            for key, fiv in p.facts.items():
                if fiv.hi is not None and fiv.hi <= 0 and noerr_key(key) == want.canon():   # sum == 0, or sum <= 0: nothing positive to return
                    sum_zero = True
        photo = [ev for ev in p.events if ev.kind == 'call' and ev.name == 'CS_Photo' and ev.result is not None and it.is_zero(ev.result, p)]
        chk.decide(sum_zero or bool(photo), 'LB-failure', U, 'CS_FluorLine', 'failure exit@%d' % p.ret_node['ln'], '%s:%d' % (U, p.ret_node['ln']),
                   'LB_LINE fails on a path where neither the sum over all members is zero nor CS_Photo failed: members that still contribute are dropped',
                   why='sum over the members is zero' if sum_zero else 'CS_Photo failed')
    chk.floor('LB failure exits', nfail, 2)
    chk.decide(ok, 'LB-composition', U, 'CS_FluorLine', 'LB_LINE', '%s:%d' % (U, lb_path.ret_node['ln']),
               'L-beta must be CS_Photo * sum over members of (jump function of the member\'s own shell) * RadRate(member): %s' % detail,
               why='%d members, each with its own shell' % len(mem))
