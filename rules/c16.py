"""C16 - queries are pure: results do not depend on call history and leave no trace.

Whole-program effect analysis: where every write of libxrl goes, which functions hold static state, which process-global
services are reachable from the exported API, and that freshly built objects are completely initialised."""
import re

from xvlib.core import Check
from xvlib.frontend import AnalysisBroken
from xvlib.effects import lib_functions, global_names, call_graph, reachable, path_to, lvalue_root, writes
from xvlib.errstate import Summaries
from xvlib.facts import walk, show, strip_casts, calls_in

# frozen, confirmed against include/xraylib-crystal-diffraction.h: the only documented mutators of library state
MUTATORS = {'Crystal_AddCrystal': 'Crystal_arr', 'Crystal_ReadFile': 'Crystal_arr', 'Crystal_ExtendArray': 'Crystal_arr'}
# process-global services that a query must never use (glibc manual: change or depend on process-wide state)
FORBIDDEN = {'exit': 'terminates the process', '_exit': 'terminates the process', 'abort': 'terminates the process',
             'chdir': 'changes the working directory', 'putenv': 'changes the environment', 'setenv': 'changes the environment',
             'unsetenv': 'changes the environment', 'srand': 'reseeds the global generator', 'rand': 'global generator state',
             'srandom': 'global generator state', 'random': 'global generator state', 'strtok': 'static scanner state',
             'freopen': 'rebinds a standard stream', 'tmpnam': 'static buffer', 'signal': 'process signal disposition',
             'printf': 'writes to stdout', 'puts': 'writes to stdout', 'putchar': 'writes to stdout', 'vprintf': 'writes to stdout',
             'system': 'spawns a shell', 'atexit': 'registers process-wide handler', 'umask': 'process file mode mask'}
# frozen: who may print diagnostics on stderr (deprecation stubs and the overwrite / NULL-argument diagnostics of the error mechanism)
STDERR_OK = {'SetHardExit', 'SetExitStatus', 'GetExitStatus', 'SetErrorMessages', 'GetErrorMessages', 'xrl_error_new_valist',
             'xrl_error_new', 'xrl_error_new_literal', 'xrl_set_error', 'xrl_set_error_literal', 'xrl_propagate_error'}
ALLOC_ZEROED = {'calloc', 'xrl_calloc'}
ALLOC_RAW = {'malloc', 'xrl_malloc', 'realloc'}


def run(prog, tier):
    chk = Check('C16', tier, 'other',
                'Effect analysis of the whole library: (1) every write (assignment, ++, compound assignment, libc writer) is rooted '
                'in a local, in memory allocated during the call, in an out-parameter, or - only in the documented crystal mutators - '
                'in the built-in crystal array; pointers derived from the data tables are never written through, also not by the '
                'callees they are handed to; (2) no function keeps static locals, no file-scope object is written after '
                'initialisation, XRayInit is empty; (3) no process-global service (exit, chdir, environment, rand, strtok, stdout, '
                'freopen, ...) is reachable from any exported function, stderr only from the frozen diagnostic set, setlocale only in '
                'the save-copy-set-restore bracket; (4) objects handed out are completely initialised (no recycled heap content).',
                ['clang front end (resolved declarations, storage classes)', 'E1 store events for alias resolution', 'call graph incl. '
                 'constant function tables'],
                ['bit-identical results across processes follow from purity and determinism of libm; not separately decided'])
    funcs = lib_functions(prog)
    globs = global_names(prog)
    cg = call_graph(prog, funcs)
    exported = {n for n, f in funcs.items() if not f['static']}
    chk.floor('library functions', len(funcs), 190)

    # ---- (1) write targets ---------------------------------------------------------------------------
    written_params = {}
    nwrites = 0
    for name, f in sorted(funcs.items()):
        pnames = {p['name']: i for i, p in enumerate(f['params'])}
        wp = set()
        for node, lhs, kind in writes(f):
            root, deref = lvalue_root(lhs)
            nwrites += 1
            loc = '%s:%d' % (f['rel'], node['ln'])
            inst = '%s@%s' % (kind, show(lhs)[:50])
            if root is None:
                chk.ok('write-target', '%s:%s' % (name, inst), 'not an lvalue rooted in a declaration (temporary)', loc, nontrivial=False)
                continue
            cls = root.get('cls')
            if cls == 'param':
                if deref:
                    wp.add(pnames.get(root['name']))
                chk.ok('write-target', '%s:%s' % (name, inst), 'parameter%s' % (' pointee (out-parameter)' if deref else ' copy'), loc,
                       nontrivial=deref)
            elif cls == 'local':
                chk.ok('write-target', '%s:%s' % (name, inst), 'local', loc, nontrivial=False)
            elif cls == 'slocal':
                chk.bad('write-target', f['unit'], name, inst, loc, 'write to the static local %s: state survives the call' % root['name'])
            elif cls == 'global':
                allowed = MUTATORS.get(name) == root['name']
                chk.decide(allowed, 'write-target', f['unit'], name, inst, loc,
                           'write to the file-scope object %s: later calls (and other threads) observe it; only the documented crystal '
                           'mutators may modify library state' % root['name'], why='documented mutator of %s' % root['name'])
            else:
                chk.ok('write-target', '%s:%s' % (name, inst), cls or '?', loc, nontrivial=False)
        written_params[name] = wp
    chk.floor('syntactic writes classified', nwrites, 600)

    # alias-resolved stores (E1): a local pointer that holds the address of a library object
    nst = 0
    for name, f, leadname, e in alias_stores(prog, globs):
        nst += 1
        allowed = MUTATORS.get(name) == leadname
        chk.decide(allowed, 'write-target', f['unit'], name, 'store@%s' % (e.lv[:60]), '%s:%d' % (f['rel'], e.node.get('ln', 0)),
                   'a store reaches the library object %s through %s' % (leadname, e.lv[:80]), why='documented mutator of %s' % leadname)
    gset = set(globs)
    # table-derived pointers handed to callees
    for name, f in sorted(funcs.items()):
        for c in [n for n in walk(f['body']) if n.get('k') == 'CallExpr' and n.get('callee') in funcs]:
            callee = c['callee']
            for i, a in enumerate(c.get('args', [])):
                ids = {x['name'] for x in walk(a) if x.get('k') == 'DeclRefExpr' and x.get('cls') == 'global'}
                tabs = sorted(x for x in ids if x in gset)
                T = (a.get('T') or '')
                if tabs and '*' in T and 'char' not in T:
                    chk.decide(i not in written_params.get(callee, set()), 'table-pointer-readonly', f['unit'], name,
                               '%s arg%d of %s' % (tabs[0], i + 1, callee), '%s:%d' % (f['rel'], c['ln']),
                               'a pointer into the data table %s is handed to %s, which writes through that parameter' % (tabs[0], callee),
                               why='%s never writes through parameter %d' % (callee, i + 1))

    # ---- (2) static state ------------------------------------------------------------------------------
    for name, f in sorted(funcs.items()):
        statics = [n for n in walk(f['body']) if n.get('k') == 'var' and n.get('cls') == 'slocal']
        chk.decide(not statics, 'no-static-locals', f['unit'], name, 'static locals', '%s:%d' % (f['rel'], statics[0]['ln'] if statics else f['ln']),
                   'static local variable(s) %s keep state between calls (and are shared between threads)' % [s['name'] for s in statics],
                   why='no static local')
    xi = prog.func('XRayInit', unit='src/xrayfiles_inline.c')
    body = [s for s in (xi['body'].get('c') or []) if s.get('k') != 'NullStmt']
    chk.decide(not body, 'xrayinit-empty', xi['unit'], 'XRayInit', 'body', '%s:%d' % (xi['rel'], xi['ln']),
               'XRayInit must not do anything (results may not depend on whether it was called)', why='empty body')

    # ---- (3) process-global services ---------------------------------------------------------------------
    reach_cache = {}
    for name in sorted(exported):
        r = reachable(cg, name)
        reach_cache[name] = r
        badc = sorted(x for x in r if x in FORBIDDEN)
        f = funcs[name]
        if badc:
            chain = path_to(cg, name, badc[0])
            chk.bad('no-process-global-service', f['unit'], name, 'reaches %s' % badc[0], '%s:%d' % (f['rel'], f['ln']),
                    '%s (%s) is reachable: %s' % (badc[0], FORBIDDEN[badc[0]], ' -> '.join(chain or [])))
        else:
            chk.ok('no-process-global-service', name, '%d reachable functions, none forbidden' % len(r), '%s:%d' % (f['rel'], f['ln']), nontrivial=False)
    # stdout / stderr
    for name, f in sorted(funcs.items()):
        for c in calls_in(f['body']):
            if c.get('callee') in ('fprintf', 'fputs', 'fputc', 'fwrite', 'vfprintf'):
                stream = None
                for a in c['args']:
                    a0 = strip_casts(a)
                    if a0.get('k') == 'DeclRefExpr' and a0.get('name') in ('stdout', 'stderr'):
                        stream = a0['name']
                if stream == 'stdout':
                    chk.bad('standard-streams', f['unit'], name, 'stdout@%d' % c['ln'], '%s:%d' % (f['rel'], c['ln']), 'writes to stdout')
                elif stream == 'stderr':
                    chk.decide(name in STDERR_OK, 'standard-streams', f['unit'], name, 'stderr', '%s:%d' % (f['rel'], c['ln']),
                               'writes a diagnostic to stderr; only the deprecation stubs and the error-overwrite diagnostics may',
                               why='member of the frozen diagnostic set')
    # setlocale bracket
    users = sorted({o for n in funcs if 'setlocale' in cg.get(n, ()) for o in transparent_owners(funcs, cg, n)})
    for name in users:
        f = funcs[name]
        locale_bracket(chk, f, prog)
    chk.coverage_extra['functions_calling_setlocale'] = users

    # ---- (4) complete initialisation of handed-out objects -------------------------------------------------
    for name, f in sorted(funcs.items()):
        for n in walk(f['body']):
            if not (n.get('k') == 'BinaryOperator' and n.get('op') == '=' and n['c'][0].get('k') == 'MemberExpr'):
                continue
            rhs = strip_casts(n['c'][1])
            if rhs.get('k') != 'CallExpr' or rhs.get('callee') not in ALLOC_RAW | ALLOC_ZEROED:
                continue
            if rhs['callee'] in ALLOC_ZEROED:
                continue
            field = show(n['c'][0])
            # element type: only arrays of numbers are at stake (strings are duplicated, records are filled field by field)
            T = n['c'][0].get('T') or ''
            if T not in ('double *', 'int *', 'float *'):
                continue
            filled = False
            for w, lhs, kind in writes(f):
                if w is n:
                    continue
                txt = show(lhs)
                if kind.startswith('libc:') and txt == field:
                    filled = True
                if kind in ('assign', 'incdec') and txt.startswith(field + '[') and lhs.get('k') == 'ArraySubscriptExpr':
                    filled = True
            chk.decide(filled, 'complete-initialisation', f['unit'], name, field, '%s:%d' % (f['rel'], n['ln']),
                       '%s is allocated with %s and never filled in this function: the caller receives recycled heap content, so results '
                       'depend on the call history' % (field, rhs['callee']), why='filled (loop / memcpy) or zero-allocated')
    failed_mutators(prog, chk, tier)
    mutators_only_add(prog, chk)
    no_overwrite_diagnostic(prog, chk, tier)
    return chk


def mutators_only_add(prog, chk):
    """(5b) an insertion adds entries; it does not rewrite the entries that were in the collection before (they belong to the library's
    tables when the collection is the built-in one).  Decided on the loops of the two inserting mutators: a loop that stores into
    <array>->crystal[i].<field> must start at the local that holds the entry count on entry, never at 0.  (Recomputing the volume of
    every entry is not idempotent on the built-in table: its cells are float constants, F29.)"""
    from rules.c14 import holds_entry_count
    n = 0
    for name in ('Crystal_AddCrystal', 'Crystal_ReadFile'):
        f = prog.func(name, required=False)
        if f is None:
            continue
        for lp in [x for x in walk(f['body']) if x.get('k') == 'ForStmt']:
            iv = [x for x in walk(lp.get('inc') or {}) if x.get('k') == 'DeclRefExpr']
            if not iv:
                continue
            i = iv[0]['name']
            stores = [x for x in walk(lp.get('body') or {}) if x.get('k') in ('BinaryOperator', 'CompoundAssignOperator') and x.get('op', '').endswith('=') and
                      x.get('op') not in ('==', '!=', '<=', '>=') and re.search(r'(->|\.)crystal\[%s\]' % re.escape(i), show(x['c'][0]))]
            if not stores:
                continue
            n += 1
            start = None
            for a_ in walk(lp.get('init') or {}):
                if a_.get('k') == 'BinaryOperator' and a_.get('op') == '=':
                    start = strip_casts(a_['c'][1])
            ok = start is not None and start.get('k') == 'DeclRefExpr' and start.get('cls') == 'local' and holds_entry_count(f, start['name'])
            chk.decide(ok, 'mutator-only-adds', f['unit'], name, 'loop storing %s' % show(stores[0]['c'][0])[:50], '%s:%d' % (f['rel'], lp['ln']),
                       'the loop rewrites %s of every entry from %s on, i.e. also of the crystals that were in the collection before the call: an insertion '
                       'into the built-in collection then changes what later queries on the other built-in crystals return' % (
                           show(stores[0]['c'][0])[:60], show(start) if start is not None else '?'),
                       why='starts at the entry count: only entries added by this call are written')
    chk.note('mutator loops that store into collection entries: %d' % n)


def no_overwrite_diagnostic(prog, chk, tier):
    """(6) standard streams: the error mechanism prints "xrl_error set over the top of a previous xrl_error" on stderr when an error is
    stored into a slot that already holds one.  That diagnostic is reachable from a query exactly when some path sets the caller's
    slot twice - the per-path typestate that rules/c03.py decides (O3-set-once), read here as the stderr clause."""
    from rules import c03
    shim = c03.run(prog, tier)
    n = 0
    for rule, inst, why, loc in shim.held:
        if rule == 'O3-set-once':
            n += 1
    bad = [v for v in shim.violations if v['rule'] == 'O3-set-once']
    for v in bad:
        chk.bad('no-stderr-diagnostic', v['unit'], v['function'], v['instance'], v['loc'],
                'this path stores a second error into the caller\'s slot: the overwrite diagnostic is printed on stderr by a plain query: ' + v['message'])
    if not bad:
        chk.ok('no-stderr-diagnostic', 'all functions', 'no path stores an error into a slot that may already hold one (%d path families)' % n, 'src')
    chk.floor('error-setting path families examined', n + len(bad), 300)


def alias_stores(prog, globs):
    """Stores that reach a file-scope object through a local alias, from the store events of every abstract path: a local pointer that
    holds the address of a library object, or the result of bsearch/lfind (a pointer INTO the array that was searched).
    Yields (function name, function, name of the object written, store event), one per (line, object)."""
    summ = Summaries(prog, skip=('CompoundParserSimple', 'add_compound_data'))
    gset = set(globs)
    for name in sorted(summ.paths):
        f = summ.funcs[name]
        seen = set()
        for p in summ.paths[name]:
            for e in p.events:
                if e.kind != 'store':
                    continue
                # a read of a table inside an index expression is not a write to it: the written object is the leading one
                lead = re.match(r'^[\*\(&]*([A-Za-z_]\w*)', e.lv or '')
                leadname = lead.group(1) if lead else None
                if leadname in ('bsearch', 'lfind'):
                    for e2 in p.events:
                        if e2.kind == 'call' and e2.name == leadname and e2.result is not None and e2.result.canon() in (e.lv or '') and len(e2.args) > 1 and e2.args[1] is not None:
                            l2 = re.match(r'^[\*\(&]*([A-Za-z_]\w*)', e2.args[1].canon())
                            if l2:
                                leadname = l2.group(1)
                if leadname in gset and not leadname.startswith('__'):
                    key = (e.node.get('ln'), leadname)
                    if key in seen:
                        continue
                    seen.add(key)
                    yield name, f, leadname, e


def failed_mutators(prog, chk, tier):
    """(5) The only permitted modification of the library's tables is an explicit insertion into the built-in crystal collection.  A
    mutator call that FAILS is not an insertion: if it returned with part of its work left in the collection, later queries would
    depend on a failed history.  The per-exit analysis is the one of rules/c14.py (failure-atomic), read here for the built-in array."""
    from rules import c14
    shim = Check('C16', tier, 'other', '', [], [])
    c14.extend(prog, shim)
    c14.add_crystal(prog, shim)
    c14.read_file(prog, shim)
    n = 0
    for rule, inst, why, loc in shim.held:
        if rule == 'failure-atomic':
            n += 1
            chk.ok('failed-mutator-leaves-no-trace', inst, why, loc)
    for v in shim.violations:
        if v['rule'] == 'failure-atomic':
            n += 1
            chk.bad('failed-mutator-leaves-no-trace', v['unit'], v['function'], v['instance'], v['loc'],
                    'a failing call of a crystal mutator leaves the collection modified (also the built-in one, which every later query reads): ' + v['message'])
    chk.floor('failure exits of the crystal mutators', n, 10)


def transparent_owners(funcs, cg, name):
    """the functions a call inside `name` is attributed to: `name` itself, unless it is a transparent static helper (a static function
    no rule mentions: the engine inlines those) - then the functions that call it, found through any number of such helpers.  A few
    lines moved into a helper, or a helper inlined, leave the attribution unchanged."""
    from xvlib.absint import rule_named_functions
    named = rule_named_functions()

    def transparent(n):
        f = funcs.get(n)
        return f is not None and f.get('static') and n not in named and n not in cg.get(n, ())
    out, seen, work = set(), set(), [name]
    while work:
        n = work.pop()
        if n in seen:
            continue
        seen.add(n)
        callers = [c for c in funcs if n in cg.get(c, ())]
        if transparent(n) and callers:
            work.extend(callers)
        else:
            out.add(n)
    return out


def locale_bracket(chk, f, prog):
    """query (setlocale(cat, NULL)) -> copy -> set -> ... -> restore from the copy, on every exit.  Decided on the abstract paths of
    the function (transparent static helpers inlined by the engine): on every path that touches the locale the setlocale calls must
    read  query, change, restore  with one category, the restore's argument being the duplicated result of the query, and no exit
    of the function may lie between the change and the restore."""
    from xvlib.absint import Interp, Inconclusive
    name = f['name']
    loc = '%s:%d' % (f['rel'], f['ln'])
    try:
        it = Interp(prog, f, max_paths=3000)
        paths = it.run()
    except Inconclusive as e:
        raise AnalysisBroken('locale bracket of %s: %s' % (name, e))
    seqs = {}
    for p in paths:
        ev = [e for e in p.events if e.kind == 'call' and e.name in ('setlocale', 'strdup', 'xrl_strdup')]
        if not any(e.name == 'setlocale' for e in ev):
            continue
        key = tuple((e.name, tuple(a.canon() if a is not None else '?' for a in (e.args or []))) for e in ev)
        seqs.setdefault(key, ev)
    chk.floor('paths of %s that touch the locale' % name, len(seqs), 1)
    q_ok = r_ok = x_ok = True
    why_q = why_r = why_x = ''
    open_paths, closed = [], 0
    for key, ev in sorted(seqs.items(), key=lambda kv: kv[0]):
        sl = [e for e in ev if e.name == 'setlocale']

        def arg(e, i):
            a = (e.args or [None, None])[i] if len(e.args or []) > i else None
            return a.canon() if a is not None else '?'
        first = sl[0]
        copies = [e for e in ev if e.name != 'setlocale' and e.args and e.args[0] is not None and first.result is not None and
                  e.args[0].canon() == first.result.canon() and ev.index(e) > ev.index(first)]
        changes_before_copy = [e for e in sl[1:] if copies and ev.index(e) < ev.index(copies[0])]
        if arg(first, 1) != '0' or not copies or changes_before_copy:
            q_ok = False
            why_q = 'a path starts with setlocale(%s, %s)%s' % (arg(first, 0), arg(first, 1), '' if copies else ' and never duplicates the name that the query returned')
            continue
        copy = copies[0].result.canon()
        restores = [e for e in sl[1:] if arg(e, 1) == copy]
        changes = [e for e in sl[1:] if arg(e, 1) != copy]
        cats = {arg(e, 0) for e in sl}
        if len(changes) == 1 and not restores and arg(changes[0], 1) != '0' and len(cats) == 1:
            open_paths.append('a path leaves the function after setlocale(%s, %s) without restoring the saved locale' % (arg(sl[-1], 0), arg(sl[-1], 1)))
            continue
        if len(changes) != 1 or not restores or len(cats) != 1 or any(arg(e, 1) == '0' for e in changes):
            r_ok = False
            why_r = 'a path makes %d temporary change(s) and %d restoration(s) from the saved copy, categories %s' % (len(changes), len(restores), sorted(cats))
            continue
        closed += 1
        if sl[-1] is not restores[-1] or ev.index(changes[0]) > ev.index(restores[0]):
            x_ok = False
            why_x = 'a path leaves the function after setlocale(%s, %s) without a later restoration' % (arg(sl[-1], 0), arg(sl[-1], 1))
    if open_paths and closed:
        x_ok, why_x = False, open_paths[0]
    elif open_paths:
        r_ok, why_r = False, open_paths[0]
    chk.decide(q_ok, 'locale-bracket', f['unit'], name, 'query-and-copy', loc,
               'the locale in force must be queried with setlocale(category, NULL) and copied before it is changed (the pointer returned '
               'by a changing call names the NEW locale and may be overwritten by later calls): ' + why_q, why='queried and duplicated on %d path shape(s)' % len(seqs))
    if not q_ok:
        return
    chk.decide(r_ok, 'locale-bracket', f['unit'], name, 'restore', loc,
               'the saved locale must be restored with the same category after the temporary change: ' + why_r, why='restored from the copy')
    if not r_ok:
        return
    chk.decide(x_ok, 'locale-bracket', f['unit'], name, 'no-exit-inside', loc, 'an exit lies between the locale change and its restoration: ' + why_x,
               why='every path that changes the locale restores it last')
