"""C19 - the pure-Java implementation is observationally equivalent to the C library.

Decided (necessary conditions, on the resolved C tree and the parsed Java tree of every function/method pair of the
same name): the two hand-maintained translations mention the same physics constants, call the same xraylib functions,
use the same numeric literals and tables, and reject the same parameter ranges; the data writer and the Java reader
agree on the layout of the binary table file.  Numerical equality itself is a run-time fact and is not decided."""
import re
from collections import Counter
from fractions import Fraction

from xvlib.core import Check
from xvlib.twins import CSide, JavaSide, Guards, norm_table
from xvlib import datafiles
from xvlib.facts import walk, show, strip_casts, calls_in

JX = 'java/Xraylib.java'
LIBM = {'log', 'exp', 'pow', 'sqrt', 'fabs', 'sin', 'cos', 'tan', 'asin', 'acos', 'atan', 'atan2', 'log10', 'floor', 'ceil'}

# pairs whose two sides are different programs by design: not compared by fingerprint (reason recorded in the evidence)
NOT_COMPARED = {
    'XRayInit': 'C: no-op kept for compatibility; Java: reads the table file (covered by the layout rule)',
    'CompoundParser': 'the Java entry point is the constructor of class compoundData; the scanner it shares with C is compared by rule twin-parser, the element lookup by java-value-search',
    'splint': 'C arrays are 1-based (callers pass table-1), Java arrays 0-based; the callers are compared with that shift applied',
    'GetCompoundDataNISTByName': 'catalogue search: lfind over a struct array in C, stream/equals over objects in Java',
    'GetCompoundDataNISTByIndex': 'catalogue copy: malloc/memcpy of a struct in C, object reference in Java',
    'GetCompoundDataNISTList': 'catalogue listing: malloc/strdup in C, stream map in Java',
    'GetRadioNuclideDataByName': 'catalogue search: lfind over a struct array in C, stream/equals over objects in Java',
    'GetRadioNuclideDataByIndex': 'catalogue copy: malloc/memcpy of a struct in C, object reference in Java',
    'GetRadioNuclideDataList': 'catalogue listing: malloc/strdup in C, stream map in Java',
    'Crystal_GetCrystal': 'catalogue search: bsearch + deep copy in C, linear search over objects in Java',
    'Crystal_GetCrystalsList': 'catalogue listing: malloc/strdup in C, stream map in Java',
    'SymbolToAtomicNumber': 'string table search: strcmp loop over MendelArray in C, equals loop in Java',
    'AtomicNumberToSymbol': 'string table access: strdup of MendelArray[Z-1] in C, array element in Java',
    'Crystal_MakeCopy': 'memory management only',
    'Crystal_AddCrystal': 'container management (C14)',
}
# translation idioms of single pairs, confirmed by reading both sides: category -> reason
IDIOMS = {
    'CS_FluorShell': {'consts': 'C indexes the table of Jump_from_* functions with the shell, Java dispatches with if/else on K..L3',
                      'guards': 'C tests the shell range first, Java ends its if/else chain with a throw'},
    'CSb_FluorShell': {'guards': 'inherits the CS_FluorShell idiom'},
    'CS_FluorLine': {'consts': 'follows CS_FluorShell', 'calls': 'follows CS_FluorShell'},
    'CSb_FluorLine_Kissel': {'*': 'C computes CS_FluorLine_Kissel_Cascade x A / N_A, Java is an alias of CSb_FluorLine_Kissel_Cascade (which does the same)'},
    'CSb_FluorShell_Kissel': {'*': 'C computes CS_FluorShell_Kissel_Cascade x A / N_A, Java is an alias of CSb_FluorShell_Kissel_Cascade'},
    'CS_FluorLine_Kissel_Cascade': {'*': 'line -> shell dispatch: C recurses over the LB line macros, Java iterates over (line, shell) pairs'},
    'CS_FluorLine_Kissel_Nonradiative_Cascade': {'*': 'same dispatch idiom as CS_FluorLine_Kissel_Cascade'},
    'CS_FluorLine_Kissel_Radiative_Cascade': {'*': 'same dispatch idiom as CS_FluorLine_Kissel_Cascade'},
    'CS_FluorLine_Kissel_no_Cascade': {'*': 'same dispatch idiom as CS_FluorLine_Kissel_Cascade'},
    'CS_FluorLine_Kissel': {'guards': 'alias of the cascade variant; dispatch idiom'},
    'LineEnergy': {'consts': 'the LB composition pairs are a macro table in C and a static array in Java', 'tables': 'same'},
    'ElectronConfig_Biggs': {'consts': 'C rejects shell < K_SHELL explicitly; Java fails with ArrayIndexOutOfBoundsException on the negative index',
                             'guards': 'same'},
    'CS_Energy': {'lits': 'C limits Z to 92 and scales inside the function; Java shares CS_Factory (guard ZMAX and NE_Energy[Z] < 0, argument E/1000): '
                          'equivalent while CS_Energy.dat has no element beyond 92 (checked against the data file)',
                  'consts': 'same', 'guards': 'same'},
}
IDIOMS['ElectronConfig'] = {'result-guards': 'C tests the occupation number with <= 0, Java with == 0: occupation numbers are counts, never negative'}
IDIOMS['CSb_Photo_Total'] = {'result-guards': 'C tests the cross section with == 0, Java with <= 0: the value is an exponential, never negative'}
for _v in ('CS_FluorLine_Kissel_Cascade', 'CS_FluorLine_Kissel_Nonradiative_Cascade', 'CS_FluorLine_Kissel_Radiative_Cascade', 'CS_FluorLine_Kissel_no_Cascade'):
    pass
IDIOMS['CS_Total_Kissel'] = {'lits': 'C loops over a constant table of the 3 component functions, Java adds the three calls'}
IDIOMS['Crystal_F_H_StructureFactor_Partial'] = {'lits': 'the per-element cache is sized ZMAX + 1 in C and 120 (literal) in Java'}
for _v in ('CS_FluorShell_Kissel', 'CS_FluorShell_Kissel_Cascade', 'CS_FluorShell_Kissel_Nonradiative_Cascade', 'CS_FluorShell_Kissel_Radiative_Cascade',
           'CS_FluorShell_Kissel_no_Cascade'):
    IDIOMS.setdefault(_v, {})['consts'] = 'the K..M5 dispatch is written once in a Java template method and expanded per function by a C macro'


# Pairs that are compared SEMANTICALLY (rule twin-paths, xvlib/twinpaths.py): both bodies are run through the abstract interpreter and
# the sets of value-returning paths (normal form of the result + what the path knows about its sign) must be equal.  The list is the
# set of pairs for which the two sets are equal on the reference tree (confirmed, frozen); for them the comparison of source
# fingerprints (named constants, callees, literals, tested results) is NOT applied: a refactoring of one side does not change the
# path set, a change of behaviour does.  A pair the engine cannot read after an edit falls back to the fingerprints.
SEMANTIC_PAIRS = (
    'AtomicLevelWidth', 'AtomicWeight', 'AugerRate', 'AugerYield', 'CS_FluorLine', 'CS_FluorLine_Kissel', 'CS_FluorShell_Kissel',
    'CS_KN', 'CS_Photo_Partial', 'CS_Photo_Total', 'CS_Total', 'CS_Total_Kissel', 'CSb_Compt', 'CSb_FluorLine',
    'CSb_FluorLine_Kissel_Cascade', 'CSb_FluorLine_Kissel_Nonradiative_Cascade', 'CSb_FluorLine_Kissel_Radiative_Cascade',
    'CSb_FluorLine_Kissel_no_Cascade', 'CSb_FluorShell', 'CSb_FluorShell_Kissel_Cascade',
    'CSb_FluorShell_Kissel_Nonradiative_Cascade', 'CSb_FluorShell_Kissel_Radiative_Cascade', 'CSb_FluorShell_Kissel_no_Cascade',
    'CSb_Photo', 'CSb_Rayl', 'CSb_Total', 'CSb_Total_Kissel', 'ComptonEnergy', 'CosKronTransProb', 'DCSP_Compt', 'DCSP_KN',
    'DCSP_Rayl', 'DCSP_Thoms', 'DCSPb_Compt', 'DCSPb_Rayl', 'DCS_Compt', 'DCS_KN', 'DCS_Rayl', 'DCS_Thoms', 'DCSb_Compt',
    'DCSb_Rayl', 'EdgeEnergy', 'ElectronConfig_Biggs', 'ElementDensity', 'FluorYield', 'JumpFactor', 'Jump_from_K',
    'Jump_from_L1', 'Jump_from_L2', 'Jump_from_L3', 'LineEnergyComposed', 'MomentTransf', 'PL1_auger_cascade_kissel',
    'PL1_full_cascade_kissel', 'PL1_pure_kissel', 'PL1_rad_cascade_kissel', 'PL2_auger_cascade_kissel',
    'PL2_full_cascade_kissel', 'PL2_pure_kissel', 'PL2_rad_cascade_kissel', 'PL3_auger_cascade_kissel',
    'PL3_full_cascade_kissel', 'PL3_pure_kissel', 'PL3_rad_cascade_kissel', 'PM1_auger_cascade_kissel',
    'PM1_full_cascade_kissel', 'PM1_pure_kissel', 'PM1_rad_cascade_kissel', 'PM2_auger_cascade_kissel',
    'PM2_full_cascade_kissel', 'PM2_pure_kissel', 'PM2_rad_cascade_kissel', 'PM3_auger_cascade_kissel',
    'PM3_full_cascade_kissel', 'PM3_pure_kissel', 'PM3_rad_cascade_kissel', 'PM4_auger_cascade_kissel',
    'PM4_full_cascade_kissel', 'PM4_pure_kissel', 'PM4_rad_cascade_kissel', 'PM5_auger_cascade_kissel',
    'PM5_full_cascade_kissel', 'PM5_pure_kissel', 'PM5_rad_cascade_kissel', 'RadRate',
    # crystal functions: the Java twin is the method of Crystal_Struct that the static wrapper delegates to (its cosd/sind/pow2 helpers
    # inlined, its fields read as the members of the record that C receives)
    'Bragg_angle', 'Crystal_F_H_StructureFactor', 'Crystal_UnitCellVolume', 'Crystal_dSpacing', 'Q_scattering_amplitude',
)


# an idiom on constants may cover one family only (regex on the constant's name); the other constants of the pair are still compared
IDIOM_SCOPE = {'CS_FluorShell': {'consts': r'_SHELL$'}, 'CS_FluorLine': {'consts': r'_SHELL$'}}


def run(prog, tier):
    chk = Check('C19', tier, 'other',
                'For each of the ~150 C function / Java method pairs of the same name (private Java helpers, *_catch adaptors, strategy '
                'objects with bound method references and C static helpers / constant function tables resolved first): equal multisets of '
                'named physics constants (shell, line, transition, Auger macros, physical constants; a name may match its value), of '
                'xraylib and libm callees, of numeric literals other than 0 and 1; equal sets of data tables (tables with identical '
                'contents in the shipped data count as one); for public pairs equal sets of transitive range guards on the parameters '
                '(conditions under which the function, or a callee whose failure propagates, reports an error - mapped through call '
                'sites). The ordered (type, count, table) sequence written by java/pr_data_java.c equals the sequence read by the static '
                'initialiser of Xraylib.java and the record constructors.',
                ['clang front end (C)', 'javac parser through the compiler tree API (Java)', 'frozen table of translation idioms (rules/c19.py)'],
                ['numerical equality of results and exact coincidence of error conditions are run-time facts: the clauses decided are '
                 'necessary conditions only', 'the independent Java formula parser and the catalogue containers are not compared'])
    C = CSide(prog)
    J = JavaSide(prog)
    if not J.x:
        chk.inconclusive('front-end', 'java', 'the Java sources were not parsed')
        return chk
    cn, jn = set(C.funcs), set(J.funcs)
    pairs = sorted(cn & jn)
    chk.floor('C/Java pairs of the same name', len(pairs), 140)
    G = Guards(C, J)
    eq = data_equivalences(prog)
    chk.coverage_extra['data_equivalent_tables'] = sorted('%s=%s' % kv for kv in eq.items())
    energy_ok = cs_energy_limit(prog)
    compared = 0
    from xvlib.twinpaths import TwinPaths
    from rules.common import strip_err_text, register_error_functions
    register_error_functions(prog)
    TP = TwinPaths(prog, C, J, strip_err_text, cvalue, jvalue)
    import json as _json
    import os as _os
    try:
        TWIN_REF = _json.load(open(_os.path.join(_os.path.dirname(_os.path.dirname(_os.path.abspath(__file__))), 'selftest', 'twin_reference.json')))
    except Exception:
        TWIN_REF = {}
    chk.coverage_extra['reference_pairs'] = len(TWIN_REF)
    chk.coverage_extra['semantic_pairs'] = len(SEMANTIC_PAIRS)
    for n in pairs:
        jf, cf = J.funcs[n], C.funcs[n]
        loc = '%s:%d' % (JX, jf['ln'])
        if n in NOT_COMPARED:
            chk.note('%s: not compared - %s' % (n, NOT_COMPARED[n]))
            continue
        compared += 1
        a = C.fingerprint(n, jn)
        b = J.fingerprint(n, cn)
        idi = IDIOMS.get(n, {})
        if n == 'CS_Energy' and not energy_ok:
            idi = {}

        sem = TP.compare(n) if n in SEMANTIC_PAIRS else None
        unchanged = False
        if sem is None and n in TWIN_REF:
            # both sides still have the path set they had when their fingerprints were compared on the reference tree
            try:
                unchanged = TP.reference_forms('c', cf) == TWIN_REF[n]['c'] and TP.reference_forms('j', jf) == TWIN_REF[n]['j']
            except Exception:
                unchanged = False
            if unchanged:
                chk.ok('twin-unchanged', n, 'both sides have the path sets of the reference tree, on which their fingerprints were equal', loc, nontrivial=False)
        if sem is not None:
            chk.decide(sem[0], 'twin-paths', JX, n, 'value paths', loc,
                       'the C function and its Java twin do not return the same values on the same kinds of paths: only C returns %s; only Java returns %s '
                       '(C %s:%d)' % ([x[:160] for x in sem[1][:3]], [x[:160] for x in sem[2][:3]], cf['rel'], cf['ln']),
                       why='same set of value paths (normal form of the result and sign knowledge)')

        def decide(cat, ok, msg, why):
            if sem is not None and cat in ('consts', 'calls', 'lits', 'result-guards'):
                chk.ok('twin-' + cat, n, 'decided semantically by twin-paths', loc, nontrivial=False)
                return
            if unchanged and cat in ('consts', 'calls', 'lits', 'result-guards'):
                chk.ok('twin-' + cat, n, 'both sides semantically unchanged since the reference comparison', loc, nontrivial=False)
                return
            if cat in idi or '*' in idi:
                chk.ok('twin-' + cat, n, 'translation idiom: ' + idi.get(cat, idi.get('*')), loc, nontrivial=False)
                return
            chk.decide(ok, 'twin-' + cat, JX, n, cat, loc, msg, why=why)

        # A constants
        d1, d2 = Counter(a.consts) - Counter(b.consts), Counter(b.consts) - Counter(a.consts)
        la, lb = Counter(a.lits), Counter(b.lits)
        cancel_names(d1, lb - la, lambda k: Fraction(C.const_values[k]) if k in C.const_values else cvalue(prog, k), lb)
        cancel_names(d2, la - lb, lambda k: jvalue(J, k), la)
        if n in IDIOM_SCOPE and 'consts' in IDIOM_SCOPE[n] and sem is None and not unchanged:
            # the idiom covers one family of constants only; all other named constants are compared as usual
            rx = re.compile(IDIOM_SCOPE[n]['consts'])
            o1 = Counter({k: v for k, v in d1.items() if not rx.search(k)})
            o2 = Counter({k: v for k, v in d2.items() if not rx.search(k)})
            chk.decide(not o1 and not o2, 'twin-consts', JX, n, 'consts outside the idiom', loc,
                       'the two translations do not mention the same named constants (beyond the %s family that the translation idiom covers): only in C %s, '
                       'only in Java %s (C %s:%d)' % (IDIOM_SCOPE[n]['consts'], dict(o1), dict(o2), cf['rel'], cf['ln']),
                       why='same named constants outside the idiom')
        decide('consts', not d1 and not d2,
               'the two translations do not mention the same named constants: only in C %s, only in Java %s (C %s:%d)' % (
                   dict(d1), dict(d2), cf['rel'], cf['ln']), 'same multiset of named constants (%d)' % sum(a.consts.values()))
        # B callees
        xa = Counter({k: v for k, v in a.calls.items() if (k in cn and k in jn) or k in LIBM})
        xb = Counter({k: v for k, v in b.calls.items() if (k in cn and k in jn) or k in LIBM})
        ta, tb = {eq.get(t, t) for t in a.tables}, {eq.get(t, t) for t in b.tables}
        for x, t in ((xa, ta), (xb, tb)):
            if 'AtomicWeight' in x:          # C goes through the accessor, Java reads the table
                x.pop('AtomicWeight')
                t.add('AtomicWeight')
        decide('calls', xa == xb, 'the two translations do not call the same functions: only in C %s, only in Java %s (C %s:%d)' % (
            dict(xa - xb), dict(xb - xa), cf['rel'], cf['ln']), 'same multiset of callees (%d)' % sum(xa.values()))
        # C literals
        la = Counter({k: v for k, v in la.items() if k not in (0, 1) and v > 0})
        lb = Counter({k: v for k, v in lb.items() if k not in (0, 1) and v > 0})
        decide('lits', la == lb, 'the two translations do not use the same numeric literals: only in C %s, only in Java %s (C %s:%d)' % (
            {str(k): v for k, v in (la - lb).items()}, {str(k): v for k, v in (lb - la).items()}, cf['rel'], cf['ln']),
            'same multiset of numeric literals (%d)' % sum(la.values()))
        # D tables
        ta = {t for t in ta if not is_function_table(C, t, cf)}
        decide('tables', ta == tb, 'the two translations do not read the same data tables: only in C %s, only in Java %s (C %s:%d)' % (
            sorted(ta - tb), sorted(tb - ta), cf['rel'], cf['ln']), 'same set of tables %s' % sorted(ta))
        # D' record fields
        drop = ('re', 'im', 'class')          # xrlComplex parts (a constructor call in Java); Java reflection
        fa = Counter({k: v for k, v in a.fields.items() if k not in drop})
        fb = Counter({k: v for k, v in b.fields.items() if k not in drop})
        # how often a field is spelled out is a matter of style (a hoisted `atom = &cc->atom[i]` mentions it once): compare as sets
        fa, fb = Counter(set(fa)), Counter(set(fb))
        decide('fields', fa == fb, 'the two translations do not use the same record fields: only in C %s, only in Java %s (C %s:%d)' % (
            dict(fa - fb), dict(fb - fa), cf['rel'], cf['ln']), 'same multiset of record fields (%d)' % sum(fa.values()))
        # D'' result guards: how a looked-up or computed value is tested before it is returned
        ra, rb = result_guards(a.guards, cf), result_guards(b.guards, jf)
        decide('result-guards', ra == rb,
               'a looked-up / computed value is tested differently before it is accepted: only in C %s, only in Java %s (C %s:%d): when the value can be '
               'negative one side reports an error and the other returns the number' % (dict(ra - rb), dict(rb - ra), cf['rel'], cf['ln']),
               'same tests on results %s' % dict(ra))
        # E guards (public API only)
        if jf.get('public') and not cf.get('static'):
            ga = {g for g in G.gstar('c', n) if range_guard(g)}
            gb = {g for g in G.gstar('j', n) if range_guard(g)}
            disp = G.dstar('c', n) | G.dstar('j', n)
            ga = {g for g in ga if not (param_of(g) in disp)}
            gb = {g for g in gb if not (param_of(g) in disp)}
            decide('guards', ga == gb,
                   'the parameter ranges rejected (by the function or by a callee whose failure propagates) differ: only in C %s, only in Java %s '
                   '(C %s:%d)' % (sorted(ga - gb), sorted(gb - ga), cf['rel'], cf['ln']), 'same transitive range guards %s' % sorted(ga))
            # E' branch selectors: range tests on a parameter that choose a non-failing branch (density <= 0 -> catalogue density)
            allg = G.gstar('c', n) | G.gstar('j', n)
            ba = {g for g in G.branches('c', n) if range_guard(g) and ' == ' not in g and ' != ' not in g and g not in allg and param_of(g) not in disp}
            bb = {g for g in G.branches('j', n) if range_guard(g) and ' == ' not in g and ' != ' not in g and g not in allg and param_of(g) not in disp}
            if ba or bb:
                decide('branches', ba == bb,
                       'a range test on a parameter that selects a non-failing branch differs: only in C %s, only in Java %s (C %s:%d): on the boundary '
                       'value the two sides take different branches' % (sorted(ba - bb), sorted(bb - ba), cf['rel'], cf['ln']),
                       'same branch selectors %s' % sorted(ba))
            # E'' early value returns: the guards already passed when `if (c) return v;` is reached must be the same on both sides
            ea, eb = G.early_returns('c', n), G.early_returns('j', n)
            common = sorted(set(ea) & set(eb))
            if common:
                diffs = []
                for c_ in common:
                    xa = {g for g in ea[c_] if range_guard(g) and param_of(g) not in disp}
                    xb = {g for g in eb[c_] if range_guard(g) and param_of(g) not in disp}
                    if xa != xb:
                        diffs.append('before `if (%s) return`: only C has passed %s, only Java has passed %s' % (c_, sorted(xa - xb), sorted(xb - xa)))
                decide('early-returns', not diffs,
                       'an early value return is reached with different argument checks behind it: %s (C %s:%d): for those inputs one side reports an error, '
                       'the other returns the value' % ('; '.join(diffs), cf['rel'], cf['ln']), 'same guards before %d early return(s)' % len(common))
    chk.floor('pairs compared', compared, 125)
    unused = [k for k in list(NOT_COMPARED) + list(IDIOMS) if k not in pairs]
    for k in unused:
        chk.note('idiom table entry %s has no pair on this tree' % k)
    layout(prog, chk, J)
    writer_twins(prog, chk, C)
    value_searches(prog, chk)
    parser_twin(prog, chk, C, J)
    writer_precision(prog, chk)
    twin_forms(prog, chk, C, J, TP, TWIN_REF)
    const_tables(prog, chk, J)
    return chk


def parser_twin(prog, chk, C, J):
    """compoundData.CompoundParserSimple (Java) is a statement-by-statement translation of the static CompoundParserSimple of
    src/xraylib-parser.c.  The character classification (ctype macros vs Character.*), the symbol lookup (bsearch vs
    SymbolToAtomicNumber) and the number conversion (strtod vs parseDouble) are idioms; what must agree is the set of error exits
    that test the scanner's counters and values: bracket balance, "nothing found", number of dots, zero subscript, blanks."""
    cls = J.classes.get('compoundData')
    jm = [m for m in (cls or {}).get('functions', []) if m['name'] == 'CompoundParserSimple' and 'body' in m]
    if 'CompoundParserSimple' not in C.funcs or not jm:
        chk.note('formula scanner twin not found on this tree (C %s, Java %s)' % ('CompoundParserSimple' in C.funcs, bool(jm)))
        return
    J.c_names = set(C.funcs)
    jf = J.raw(jm[0])
    cf = C.fingerprint('CompoundParserSimple', set(J.funcs) | {'CompoundParserSimple'})

    def keep(g):
        # character tests (ctype predicates, comparisons with a character literal) are decided per character class below
        return not re.search(r"ctype|isDigit|isLowerCase|isUpperCase|isLetter|isdigit|islower|isupper|isalpha|endPtr|NULL|null|'.'", g)

    def norm(g):
        return re.sub(r'\b(compoundString|csa)\b', 'S', g)
    a = Counter(norm(g) for g, n_ in cf.guards.items() for _ in range(n_) if keep(g))
    b = Counter(norm(g) for g, n_ in jf.guards.items() for _ in range(n_) if keep(g))
    f = C.funcs['CompoundParserSimple']
    chk.decide(a == b and sum(a.values()) >= 7, 'twin-parser', 'java/compoundData.java', 'CompoundParserSimple', 'scanner-error-exits',
               'java/compoundData.java:%d' % jm[0]['ln'],
               'the formula scanners reject different inputs: error tests only in C %s, only in Java %s (C %s:%d)' % (
                   dict(a - b), dict(b - a), f['rel'], f['ln']), why='same %d counter / value tests lead to an error' % sum(a.values()))
    # the atom counts: what is stored into / added to an entry's count, as a multiset of normalised expressions
    def norm_count(txt):
        txt = re.sub(r'\s+', '', txt)
        txt = re.sub(r'\w*(->|\.)singleElements\[(\w+)\]', r'[\2]', txt)
        txt = re.sub(r'(\w+\.)?get\((\w+)\)', r'[\2]', txt)
        txt = txt.replace('->', '.').replace('(', '').replace(')', '')
        return '*'.join(sorted(txt.split('*')))

    def counts(fn, java):
        out = Counter()
        for n_ in walk(fn.get('body') or {}):
            k_ = n_.get('k')
            if (k_ == 'BinaryOperator' and n_.get('op') in ('=', '+=')) or k_ == 'CompoundAssignOperator':
                if re.search(r'(\.|->)nAtoms$', show(n_['c'][0]).replace(' ', '')):
                    op_, rhs_ = n_.get('op'), strip_casts(n_['c'][1])
                    # x = x + e (either order) is x += e
                    if op_ == '=' and rhs_.get('k') == 'BinaryOperator' and rhs_.get('op') == '+':
                        lt_ = show(n_['c'][0]).replace(' ', '')
                        for me_, other_ in ((rhs_['c'][0], rhs_['c'][1]), (rhs_['c'][1], rhs_['c'][0])):
                            if show(strip_casts(me_)).replace(' ', '') == lt_:
                                op_, rhs_ = '+=', other_
                                break
                    out[(op_, norm_count(show(rhs_)))] += 1
            if java and k_ == 'NewExpr' and n_.get('cls') == 'compoundAtom' and len(n_.get('args', [])) == 2:
                v_ = norm_count(show(n_['args'][1]))
                if v_ not in ('0.0', '0'):
                    out[('=', v_)] += 1
        return out
    ca_, cb_ = counts(f, False), counts(jm[0], True)
    # C spells out the empty-list cases (first element; a group adopted into an empty list and scaled in place with *=), a Java List needs
    # neither: compared as sets, with "scale the adopted group" read as "store count x multiplier"
    grp = [k_ for k_ in list(ca_) + list(cb_) if k_[0] == '=' and '*' in k_[1]]
    ca_ = Counter({(('=', grp[0][1]) if k_ == ('*=', 'tempnAtoms') and grp else k_): 1 for k_ in ca_})
    cb_ = Counter({k_: 1 for k_ in cb_})
    chk.decide(ca_ == cb_ and sum(ca_.values()) >= 4, 'twin-parser', 'java/compoundData.java', 'CompoundParserSimple', 'atom-counts',
               'java/compoundData.java:%d' % jm[0]['ln'],
               'the two scanners store different atom counts: only in C %s, only in Java %s (C %s:%d)' % (dict(ca_ - cb_), dict(cb_ - ca_), f['rel'], f['ln']),
               why='same %d count expressions (first / existing / new element, with and without group multiplier)' % sum(ca_.values()))
    # the character tests: verdict per (previous class, current class), evaluated on both syntax trees (xvlib/charclass.py)
    from xvlib import charclass
    from xvlib.twins import is_error_exit_c

    def scan_table(fn, is_exit, strings):
        body = fn['body'].get('c', [])
        loops = [l for l in body if l.get('k') == 'ForStmt' and any(x.get('k') == 'DeclRefExpr' and x.get('name') == 'nbrackets' for x in walk(l.get('body') or {}))
                 and not any(c_.get('callee') in ('bsearch', 'CompoundParserSimple', 'SymbolToAtomicNumber') for c_ in calls_in(l.get('body') or {}))]
        if len(loops) != 1:
            raise charclass.Unknown('scanning loop not found (%d candidates)' % len(loops))
        lp = loops[0]
        ivar = [x for x in walk(lp.get('inc') or {}) if x.get('k') == 'DeclRefExpr'][0]['name']
        first = [s_ for s_ in body[:body.index(lp)] if s_.get('k') == 'IfStmt']
        return charclass.table(first, lp['body'], charclass.Scanner(strings, ivar), is_exit)
    try:
        tc = scan_table(f, is_error_exit_c, {f['params'][0]['name']})
        tj = scan_table(jm[0], Guards._java_exit, {'csa', jm[0]['params'][0]['name']})
    except charclass.Unknown as ex:
        chk.inconclusive('twin-parser', 'java/compoundData.java:%d' % jm[0]['ln'], str(ex))
        return
    diff = ['first %r: C %ss, Java %ss' % (charclass.REPR[k], tc['first'][k], tj['first'][k]) for k in charclass.CLASSES if tc['first'][k] != tj['first'][k]]
    diff += ['%r after %r: C %ss, Java %ss' % (charclass.REPR[cu], charclass.REPR[pv], tc['pair'][(pv, cu)], tj['pair'][(pv, cu)])
             for (pv, cu) in sorted(tc['pair']) if tc['pair'][(pv, cu)] != tj['pair'][(pv, cu)]]
    chk.decide(not diff, 'twin-parser', 'java/compoundData.java', 'CompoundParserSimple', 'scanner-alphabet', 'java/compoundData.java:%d' % jm[0]['ln'],
               'the two scanners give different verdicts for the same character classes: %s' % '; '.join(diff[:8]),
               why='same verdict for all %d class pairs' % (len(tc['pair']) + len(tc['first'])))


SEARCH_METHODS = ('indexOf', 'lastIndexOf', 'contains', 'remove')


def value_searches(prog, chk):
    """Where C searches a vector with bsearch/lfind and a comparator, the Java translation searches a List with indexOf/contains and a
    freshly built key object.  java.util compares with equals(): unless the key's class overrides equals(Object) - comparing exactly
    the fields the C comparator compares - the search never finds anything and the translation silently takes the "not present"
    branch (the formula parser then never merges repeated elements).  Decided for every such call in the Java sources."""
    ju = [u for u in prog.units if u.get('lang') == 'java']
    if not ju:
        return
    classes = {c['name']: c for c in ju[0]['classes']}
    # the fields the C comparators look at, per record type name
    ckeys = {}
    for f in prog.src_funcs():
        if not f['unit'].startswith('src/'):
            continue
        for c in calls_in(f['body']):
            if c.get('callee') in ('bsearch', 'lfind', 'qsort'):
                cmpf = strip_casts(c['args'][-1])
                size = strip_casts(c['args'][3 if c['callee'] == 'bsearch' else 2])
                if c['callee'] == 'lfind':
                    size = strip_casts(c['args'][3])
                rec = (size.get('argT') or '').replace('struct ', '').strip() if size.get('k') == 'UnaryExprOrTypeTraitExpr' else None
                cf = prog.func(cmpf.get('name'), unit=f['unit'], required=False) if cmpf.get('k') == 'DeclRefExpr' else None
                if rec and cf:
                    flds = {n_.get('field') for n_ in walk(cf['body']) if n_.get('k') == 'MemberExpr'}
                    ckeys.setdefault(rec, set()).update(x for x in flds if x)
    n = 0
    for c in ju[0]['classes']:
        for f in c['functions']:
            for node in walk(f.get('body') or {}):
                if node.get('k') != 'CallExpr' or node.get('callee') not in SEARCH_METHODS or 'recv' not in node:
                    continue
                keys = [a for a in node.get('args', []) if a.get('k') == 'NewExpr' and a.get('cls') in classes]
                if not keys:
                    continue
                n += 1
                kc = classes[keys[0]['cls']]
                eq = [m for m in kc['functions'] if m['name'] == 'equals' and len(m.get('params', [])) == 1 and m['params'][0].get('T') in ('Object', 'java.lang.Object')]
                loc = '%s:%d' % (c['rel'], node['ln'])
                if not eq:
                    chk.bad('java-value-search', c['rel'], f['name'], '%s(new %s)@%d' % (node['callee'], kc['name'], node['ln']), loc,
                            '%s() is given a freshly built %s, but class %s does not override equals(Object): the list compares by identity, the key is '
                            'never found and the "not present" branch is always taken, where the C twin finds the entry with its comparator' % (
                                node['callee'], kc['name'], kc['name']))
                    continue
                used = {n_.get('field') for n_ in walk(eq[0].get('body') or {}) if n_.get('k') == 'MemberExpr'} | \
                    {n_.get('name') for n_ in walk(eq[0].get('body') or {}) if n_.get('k') == 'DeclRefExpr' and n_.get('cls') in ('field', 'global')}
                own = {fl['name'] for fl in kc.get('fields', [])}
                used &= own
                want = ckeys.get(kc['name'])
                ok = bool(used) and (want is None or used == (want & own if want & own else used))
                chk.decide(ok, 'java-value-search', c['rel'], f['name'], '%s(new %s)@%d' % (node['callee'], kc['name'], node['ln']), loc,
                           '%s.equals compares the fields %s, the C comparator of struct %s compares %s: the two searches do not find the same entries' % (
                               kc['name'], sorted(used), kc['name'], sorted(want or [])),
                           why='%s.equals compares %s like the C comparator' % (kc['name'], sorted(used)))
    chk.floor('Java list searches with a key object', n, 2)


def writer_twins(prog, chk, C):
    """java/pr_data_java.c carries private copies of the derivations that src/pr_data.c performs for the C tables (Auger
    yields and rates, cascade constants): copy and original must stay the same function."""
    W, O = 'java/pr_data_java.c', 'src/pr_data.c'
    wf = {f['name']: f for u in prog.units if u.get('rel') == W for f in u['functions']}
    of = {f['name']: f for u in prog.units if u.get('rel') == O for f in u['functions']}
    both = sorted(n for n in set(wf) & set(of) if n not in ('main',) and not n.startswith('print_'))
    chk.floor('derivations copied into the Java data writer', len(both), 2)
    for n in both:
        # the branch conditions are compared by C11's derivation rule; here: which terms each branch combines
        a, b = C.raw(of[n], skip_conditions=True), C.raw(wf[n], skip_conditions=True)
        diffs = []
        for cat in ('consts', 'calls', 'lits', 'tables'):
            ca, cb = getattr(a, cat), getattr(b, cat)
            if cat == 'tables':          # how often a table cell is read is style (a hoisted `rate = T[Z][i]`): which tables are read is not
                ca, cb = Counter(set(ca)), Counter(set(cb))
            if ca != cb:
                diffs.append('%s: only in src/pr_data.c %s, only in the Java writer %s' % (cat, dict(ca - cb), dict(cb - ca)))
        chk.decide(not diffs, 'writer-copy', W, n, 'same-derivation', '%s:%d' % (W, wf[n]['ln']),
                   'the copy of %s in the Java data writer differs from the original in src/pr_data.c, so the Java tables differ from the C tables: %s' % (
                       n, '; '.join(diffs)[:500]), why='same constants, callees, literals and tables as src/pr_data.c')


# pairs whose arithmetic on locals is a literal translation (confirmed by reading; each matched on the reference tree): the formulas
# that the constants / callee multisets cannot tell apart - which jump ratio divides which, which Tao multiplies which probability
LOCAL_FORM_PAIRS = ('CS_FluorLine', 'CSb_Photo_Partial', 'ComptonEnergy', 'DCSP_KN', 'DCSP_Thoms', 'DCS_KN', 'DCS_Thoms', 'Jump_from_K',
                    'Jump_from_L1', 'Jump_from_L2', 'Jump_from_L3', 'LineEnergyComposed', 'Refractive_Index_Im')


def local_forms(prog, side, f, alpha=False):
    """multiset of the normal forms (exact rational normal form, so a*b == b*a) of every right-hand side / compound-assignment operand /
    returned expression that is arithmetic over locals and parameters only; with alpha=True the locals are renamed in order of first use"""
    from xvlib.normform import Normalizer, NotInClass, Rat
    order = {}

    def hook(n, N):
        k = n.get('k')
        if k == 'ParenExpr' and n.get('c'):
            return N.to_rat(n['c'][0])
        if k == 'DeclRefExpr' and alpha and n.get('cls') in ('local', 'param'):
            order.setdefault(n.get('id', n.get('name')), 'v%d' % (len(order) + 1))
            return Rat.sym(order[n.get('id', n.get('name'))])
        if k == 'MemberExpr' and (n.get('text') or '').startswith('Xraylib.'):
            return Rat.sym(n['field'])
        if k in ('CallExpr', 'CXXMemberCallExpr', 'ArraySubscriptExpr'):
            return Rat.sym('@opaque(')           # marks the form as not local-only
        return None
    N = Normalizer(prog, symbol_hook=hook, keep_macros=True)
    out = Counter()

    def add(prefix, n):
        try:
            r = N.to_rat(n)
        except (NotInClass, KeyError, TypeError):
            return
        c = r.canon()
        if '@opaque(' in c:
            return
        if prefix or any(x.get('k') == 'BinaryOperator' and x.get('op') in ('+', '-', '*', '/') for x in walk(n)):
            out[prefix + c] += 1
    for n in walk(f.get('body') or {}):
        k = n.get('k')
        if k == 'BinaryOperator' and n.get('op') == '=':
            add('', n['c'][1])
        elif k == 'CompoundAssignOperator' or (k == 'BinaryOperator' and n.get('op') in ('+=', '-=', '*=', '/=')):
            add(n.get('op') + ' ', n['c'][1])
        elif k == 'ReturnStmt' and n.get('c'):
            add('', n['c'][0])
        elif k == 'DeclStmt':
            for d in n.get('decls', []):
                if isinstance(d, dict) and d.get('init'):
                    add('', d['init'])
        elif k == 'var' and n.get('init'):
            add('', n['init'])
    return out


def twin_forms(prog, chk, C, J, TP=None, TWIN_REF=None):
    n = 0
    for name in LOCAL_FORM_PAIRS:
        if name in SEMANTIC_PAIRS and TP is not None and TP.compare(name) is not None:
            n += 1
            chk.ok('twin-forms', name, 'decided semantically by twin-paths', JX, nontrivial=False)
            continue
        if TP is not None and TWIN_REF and name in TWIN_REF and name in C.funcs and name in J.funcs:
            try:
                if TP.reference_forms('c', C.funcs[name]) == TWIN_REF[name]['c'] and TP.reference_forms('j', J.funcs[name]) == TWIN_REF[name]['j']:
                    n += 1
                    chk.ok('twin-forms', name, 'both sides semantically unchanged since the reference comparison', JX, nontrivial=False)
                    continue
            except Exception:
                pass
        if name not in C.funcs or name not in J.funcs:
            chk.note('twin-forms: pair %s not present on this tree' % name)
            continue
        cf, jf = C.funcs[name], J.funcs[name]
        a, b = local_forms(prog, 'c', cf), local_forms(prog, 'j', jf)
        ok = a == b
        if not ok:
            # a local renamed on one side only is not a difference
            ok = local_forms(prog, 'c', cf, alpha=True) == local_forms(prog, 'j', jf, alpha=True)
        n += 1
        chk.decide(ok and sum(a.values()) >= 1, 'twin-forms', JX, name, 'arithmetic on locals', '%s:%d' % (JX, jf.get('ln', 0)),
                   'the two translations combine their local values differently: only in C %s, only in Java %s (C %s:%d)' % (
                       dict(a - b), dict(b - a), cf['rel'], cf['ln']), why='same %d local formulas' % sum(a.values()))
    chk.floor('pairs with literal local arithmetic', n, 10)


def const_tables(prog, chk, J):
    """Constant tables of records that both implementations carry under the same name (line_mappings: which line range belongs to which
    shell; lb_pairs: the L-beta members and their shells): the rows must be equal, value by value and in the same order.  The functions
    that walk these tables are translation idioms in the pair comparison, so the tables themselves are where they can differ."""
    from xvlib import inittab

    def jconst(name, depth=0):
        fl = J.consts.get(name) or J.fields.get(name)
        if not fl or depth > 4:
            return None
        i = strip_casts(fl.get('init') or {})
        if isinstance(i.get('v'), int):
            return i['v']
        if i.get('k') == 'IntegerLiteral':
            return int(i['val'])
        if i.get('k') == 'UnaryOperator' and i.get('op') == '-' and strip_casts(i['c'][0]).get('k') == 'IntegerLiteral':
            return -int(strip_casts(i['c'][0])['val'])
        if i.get('k') == 'DeclRefExpr':
            return jconst(i.get('name'), depth + 1)
        if i.get('k') == 'MemberExpr':
            return jconst(i.get('field'), depth + 1)
        return None
    n = 0
    for name, fl in sorted(J.fields.items()):
        init = fl.get('init') or {}
        if not (fl.get('static') and fl.get('final') and init.get('k') == 'NewArray'):
            continue
        rows_j = [x for x in walk(init) if x.get('k') == 'NewExpr']
        gs = [g for g in prog.globals_named(name) if g.get('init') and g['unit'].startswith('src/')]
        if not rows_j or not gs:
            continue
        try:
            rows_c = [[int(v.value if hasattr(v, 'value') else v) for v in r_] for r_ in inittab.evaluate(gs[0]['init'])]
        except Exception:
            continue
        vj = []
        for r_ in rows_j:
            row = []
            for a in r_.get('args', []):
                a0 = strip_casts(a)
                v = a0.get('v') if isinstance(a0.get('v'), int) else jconst(a0.get('field') or a0.get('name'))
                row.append(v)
            vj.append(row)
        n += 1
        # the tables are searched for THE row that matches (disjoint line ranges) or summed over: the order of the rows carries no meaning
        rows_c, vj = sorted(rows_c, key=str), sorted(vj, key=str)
        diff = [i for i in range(max(len(rows_c), len(vj))) if i >= len(rows_c) or i >= len(vj) or rows_c[i] != vj[i]]
        chk.decide(not diff, 'twin-const-tables', JX, name, 'rows', '%s:%d' % (JX, fl.get('ln', 0)),
                   'the constant table %s differs between C (%s:%d) and Java in row(s) %s: C %s, Java %s' % (
                       name, gs[0]['unit'], gs[0].get('ln', 0), diff[:4], [rows_c[i] if i < len(rows_c) else None for i in diff[:3]],
                       [vj[i] if i < len(vj) else None for i in diff[:3]]), why='%d equal rows' % len(rows_c))
    chk.floor('constant record tables carried by both implementations', n, 2)


def writer_precision(prog, chk):
    """The Java data file carries the tables as raw doubles; the C tables go through text (src/pr_data.c).  The two implementations can
    only agree to round-off if every floating conversion of the C generator keeps at least the 11 significant digits the build
    documents, and does not turn the constant into a float (suffix f)."""
    from rules.common import generator_float_formats
    U = 'src/pr_data.c'
    fm = generator_float_formats(prog, U)
    chk.floor('floating conversions in the C table generator', len(fm), 4)
    seen = set()
    for fn, ln, conv, digits, suf, fmt in fm:
        if (ln, conv) in seen:
            continue
        seen.add((ln, conv))
        ok = digits is not None and digits >= 11 and not suf
        chk.decide(ok, 'writer-precision', U, fn, '%s in format "%s"' % (conv, fmt.strip()[:28].replace('\n', ' ')), '%s:%d' % (U, ln),
                   'the generator prints a table value with %s: %s; the Java data file carries the full double, so the C and Java results differ '
                   'far beyond round-off (about 1e-8 relative for float constants)' % (
                       conv, 'the constant gets a float suffix' if suf else ('only %s significant digits' % digits if digits else 'a fixed number of decimals, not of significant digits')),
                   why='%s significant digits, double constant' % digits)


def result_guards(guards, f):
    """multiset of `v <op> number` guards on local values (the local's name is irrelevant)"""
    ps = {p['name'] for p in f.get('params', [])}
    out = Counter()
    atoms = []
    for g, cnt in guards.items():
        parts = g[1:-1].split(' || ') if g.startswith('(') and g.endswith(')') and ' || ' in g and ' && ' not in g else [g]
        for a_ in parts:
            atoms.append((a_, cnt))
    for g, cnt in atoms:
        # a table cell tested directly is the same test as on a local that holds the cell
        g = re.sub(r'\b[A-Za-z_]\w*(\[[^\]]*\])+', 'cell_', g)
        m = re.match(r'^(\w+) (<|<=|==|!=) (\w+)$', g)
        if not m:
            continue
        a, op, b = m.groups()
        names = [x for x in (a, b) if re.match(r'^[A-Za-z_]', x)]
        nums = [x for x in (a, b) if re.match(r'^-?\d', x)]
        if len(names) != 1 or len(nums) != 1 or names[0] in ps or names[0] in ('NULL', 'tmp_error') or names[0].isupper():
            continue
        # orientation: v op number
        if a == names[0]:
            out['v %s %s' % (op, b)] += cnt
        else:
            out['v %s %s' % ({'<': '>', '<=': '>=', '==': '==', '!=': '!='}[op], a)] += cnt
    return out


def cancel_names(names, lit_surplus, value, lits):
    """a named constant on one side may be written as its value on the other side"""
    for k in list(names):
        v = value(k)
        if v is None:
            continue
        if v in (0, 1):
            del names[k]            # 0 and 1 are not counted as literals
            continue
        while names[k] and lit_surplus[v] > 0:
            names[k] -= 1
            lit_surplus[v] -= 1
            lits[v] -= 1
        if not names[k]:
            del names[k]


def cvalue(prog, name):
    try:
        v = prog.macro_value(name)
        return Fraction(v) if v is not None else None
    except Exception:
        return None


def jvalue(J, name):
    fl = J.consts.get(name) or J.fields.get(name)
    if not fl:
        return None
    i = fl.get('init') or {}
    if i.get('k') == 'IntegerLiteral':
        return Fraction(i['val'])
    if i.get('k') == 'UnaryOperator' and i.get('op') == '-' and i['c'][0].get('k') == 'IntegerLiteral':
        return -Fraction(i['c'][0]['val'])
    return None


def is_function_table(C, t, f):
    return bool(C.function_table(t, f)) or bool(C.function_table(t + '_arr', f))


def range_guard(g):
    """p_i compared with a constant: the shape that can be mapped through call sites on both sides"""
    return re.match(r'^(p\d+|-?[\w./]+) (<|<=|==|!=) (p\d+|-?[\w./]+)$', g) is not None and len(re.findall(r'\bp\d+\b', g)) == 1


def param_of(g):
    m = re.search(r'\bp(\d+)\b', g)
    return int(m.group(1)) if m else None


def dispatch_params(f, side):
    """parameters the function branches on by comparing them with named constants (shell / line selectors): their
    admissible range is defined by the dispatch itself"""
    from xvlib.facts import walk, strip_casts
    ps = [p['name'] for p in f.get('params', [])]
    out = set()
    for n in walk(f.get('body') or {}):
        if n.get('k') == 'SwitchStmt':
            c = strip_casts(n.get('cond') or {})
            if c.get('k') == 'DeclRefExpr' and c.get('name') in ps:
                out.add(ps.index(c['name']))
        if n.get('k') == 'BinaryOperator' and n.get('op') == '==':
            a, b = (strip_casts(x) for x in n['c'])
            for x, y in ((a, b), (b, a)):
                if x.get('k') == 'DeclRefExpr' and x.get('cls') == 'param' and x.get('name') in ps and \
                        (y.get('m') or (y.get('k') == 'DeclRefExpr' and y.get('cls') == 'global')):
                    out.add(ps.index(x['name']))
    return out


def data_equivalences(prog):
    """count tables with identical contents in the shipped data files are interchangeable (e.g. NE_Fi / NE_Fii)"""
    repo = prog.repo
    zmax = prog.macro_value('ZMAX')
    eq = {}
    try:
        a = datafiles.spline_file(repo, 'fi.dat', zmax)
        b = datafiles.spline_file(repo, 'fii.dat', zmax)
        if set(a) == set(b) and all(len(a[z][0]) == len(b[z][0]) for z in a):
            eq['NE_Fii'] = 'NE_Fi'
    except Exception:
        pass
    return eq


def cs_energy_limit(prog):
    try:
        d = datafiles.spline_file(prog.repo, 'CS_Energy.dat', prog.macro_value('ZMAX'), leading_count=True)
        return max(d) <= 92
    except Exception:
        return False


# --------------------------------------------------------------------------------------------------------------- layout
def file_constants(prog, J=None):
    """The scalar constants that Xraylib.java does not spell out but reads from the head of the table file (ZMAX ... R_E): for each
    position, the Java field that receives the value and the macro the writer's local was initialised from.
    Returns [(java field, java line, writer local, writer macro or None, writer line)] or None when the layouts cannot be read."""
    from xvlib.layout import Writer, Reader, Valuer, finish, normalise_names
    J = J or JavaSide(prog)
    wi, ri = Writer(prog).run(), Reader(J).run()
    if wi is None or ri is None:
        return None
    main = [x for u in prog.units if u.get('rel') == 'java/pr_data_java.c' for x in u['functions'] if x['name'] == 'main']
    if not main:
        return None
    inits = {}
    for n in walk(main[0]['body']):
        if n.get('k') == 'DeclStmt':
            for d in n.get('decls', []):
                if isinstance(d, dict) and d.get('init') is not None:
                    i0 = strip_casts(d['init'])
                    inits[d['name'].upper()] = (i0['m'][-1] if i0.get('mw') and i0.get('m') else None, show(i0)[:40])
    out = []
    for a, b in zip(wi, ri):
        if a[1] != '1' or b[1] != '1' or a[3] or b[3]:
            break                      # the scalar head of the file ends at the first table
        if a[2].upper() in inits:
            out.append((b[2], b[5], a[2], inits[a[2].upper()][0], a[5], inits[a[2].upper()][1]))
        elif re.match(r'^[A-Z][A-Z0-9_]*$', a[2]) and cvalue(prog, a[2]) is not None:
            out.append((b[2], b[5], a[2], a[2], a[5], a[2]))      # the macro itself is handed to the print helper
    return out


def layout(prog, chk, J):
    """Ordered schema of the binary table file: writer (java/pr_data_java.c main, print helpers inlined, macros expanded)
    against reader (Xraylib.XRayInit with the read helpers and the record constructors inlined)."""
    from xvlib.layout import Writer, Reader, Valuer, finish, normalise_names, compare
    W = 'java/pr_data_java.c'
    V = Valuer(prog)
    w = Writer(prog)
    wi = w.run()
    r = Reader(J)
    ri = r.run()
    if wi is None or ri is None:
        chk.inconclusive('layout', W, 'writer main() or reader XRayInit() not found')
        return
    wi, ri = normalise_names(finish(wi, V)), normalise_names(finish(ri, V))
    chk.coverage_extra['layout_items'] = {'writer': len(wi), 'reader': len(ri)}
    chk.floor('layout items written', len(wi), 90)
    chk.floor('layout items read', len(ri), 90)
    for pr in r.problems[:3]:
        chk.inconclusive('layout', JX, pr)
    fc = file_constants(prog, J) or []
    chk.floor('scalar constants at the head of the table file', len(fc), 10)
    for jf_, jl_, wl_, wm_, wln_, wtxt_ in fc:
        chk.decide(wm_ == jf_, 'layout-scalar-source', W, 'main', jf_, '%s:%s' % (W, wln_),
                   'Xraylib.%s is read from the table file, and the writer fills that position from its local "%s", which is initialised with %s '
                   'instead of the macro %s: the Java constant gets another constant\'s value' % (jf_, wl_.lower(), wm_ or wtxt_, jf_),
                   why='written from the macro %s' % jf_)
    d = compare(wi, ri)
    if d is None:
        for i, it in enumerate(wi):
            chk.ok('layout', 'item %d %s %s x %s' % (i, it[2], it[0], it[1]), 'written and read at the same position with the same type, count, loops and conditions',
                   '%s:%s' % (W, it[5]), nontrivial=True)
        return
    i, a, b = d
    fmt = lambda x: 'nothing' if x is None else '%s x %s -> %s%s%s' % (x[0], x[1], x[2], ' in loops %s' % (x[3],) if x[3] else '', ' if %s' % (x[4],) if x[4] else '')
    chk.bad('layout', W, 'main', 'item %d %s' % (i, (a or b)[2]), '%s:%s' % (W, a[5] if a else '?'),
            'item %d of the table file: the writer emits [%s] (%s:%s) where the Java reader expects [%s] (java, line %s): this table and every table after '
            'it are decoded from the wrong bytes' % (i, fmt(a), W, a[5] if a else '-', fmt(b), b[5] if b else '-'))
