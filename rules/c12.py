"""C12 - closed-form scattering formulas are mutually consistent and physically bounded (six of eight clauses).

Decided: non-positive energy is an error; evenness and 2*pi-periodicity in the angles (trigonometric-polynomial class);
positivity / finiteness by the sign domain (divisors >= 1, value > 0); unpolarised = azimuthal average of polarised;
DCS_KN = Thomson-like expression in the Compton energy ratio; E -> 0 gives Thomson; ComptonEnergy closed form,
monotone in cos(theta), end points.
NOT decided: CS_KN = solid-angle integral of DCS_KN, and 'never exceeds Thomson' (an integral and a real inequality)."""
import re
from fractions import Fraction

from xvlib.core import Check
from xvlib.frontend import AnalysisBroken
from xvlib.absint import run_function, Inconclusive
from xvlib.facts import walk, show
from xvlib.normform import Rat, Poly, subst, reduce_trig
from rules.common import sets_error, value_paths, zero_paths


def run(prog, tier):
    chk = Check('C12', tier, 'other',
                'Exact algebra on the returned normal forms of DCS_Thoms, DCS_KN, DCSP_Thoms, DCSP_KN, ComptonEnergy, CS_KN and '
                'MomentTransf: parity/periodicity in the trigonometric-polynomial class, sign domain for positivity and '
                'non-vanishing divisors, and the identities between the functions by substitution (azimuthal average, Compton '
                'energy ratio form, low-energy limit, closed form and monotonicity of the scattered energy).',
                ['clang front end', 'E1 path enumeration with structural interval propagation', 'E2 exact rational normal forms'],
                ['the two remaining clauses (CS_KN = solid-angle integral of DCS_KN; Klein-Nishina never exceeds Thomson) are decided by '
                 'exact computer algebra on the same normal forms with the constants kept symbolic (tools/cas_kn.py, sympy): symbolic '
                 'integration of a rational function of cos(theta), and a non-negative-coefficient certificate after u = (1-x)/(1+x)',
                 'rounding, cancellation at very low energy'])
    R = {}
    notes = {}

    def on_div(node, b, st, it):
        st.notes.append(('div', node, it.interval_of(b, st), b))

    def load(name, unit):
        f = prog.func(name, unit=unit)
        it, paths = run_function(prog, f, on_div=on_div)
        R[name] = (f, it, paths)
        return f, it, paths

    S, Pz = 'src/scattering.c', 'src/polarized.c'
    for n, u in (('DCS_Thoms', S), ('DCS_KN', S), ('CS_KN', S), ('ComptonEnergy', S), ('MomentTransf', S), ('DCSP_KN', Pz), ('DCSP_Thoms', Pz)):
        load(n, u)

    # ---- energy guards ------------------------------------------------------------------------------
    for n in ('DCS_KN', 'CS_KN', 'ComptonEnergy', 'MomentTransf', 'DCSP_KN'):
        f, it, paths = R[n]
        e = f['params'][0]['name']
        vals = value_paths(it, paths)
        zs = zero_paths(it, paths)
        loc = '%s:%d' % (f['rel'], f['ln'])
        ok = bool(vals) and all((lambda iv: iv.lo is not None and iv.lo >= 0 and (iv.lo > 0 or iv.los))(it.interval_of(Rat.sym(e), p)) for p in vals)
        chk.decide(ok, 'energy-guard', f['unit'], n, 'value-needs-positive-energy', loc,
                   'a value is returned without establishing %s > 0' % e, why='%s > 0 on every value path' % e)
        chk.decide(bool(zs) and all(sets_error(p) for p in zs), 'energy-guard', f['unit'], n, 'non-positive-energy-is-error', loc,
                   'non-positive energy must report an error and return 0', why='error + 0')

    _single = {}

    def single(n):
        """The function's closed form.  Every identity of the property is stated for all energies and angles, so the function must be ONE
        analytic expression: a second return whose normal form differs (a series for small E, a shortcut to another function on part of
        the domain) is a violation, since two different expressions cannot both satisfy the exact identities decided below.  A return
        that pins an argument to one exact point is accepted when it agrees with the closed form there."""
        if n in _single:
            return _single[n]
        f, it, paths = R[n]
        vals = value_paths(it, paths)
        if not vals:
            chk.inconclusive('shape', n, 'no value path')
            _single[n] = None
            return None
        main = max(vals, key=lambda p: (p.ret_node['ln'], p.ret_node.get('col', 0)))
        for p in vals:
            if p is main or p.ret.equals(main.ret):
                continue
            pinned = {}
            for prm in f['params']:
                if prm['T'] != 'double':
                    continue
                iv = it.interval_of(Rat.sym(prm['name']), p)
                if iv.lo is not None and iv.lo == iv.hi and not iv.los and not iv.his:
                    pinned[prm['name']] = Rat.const(iv.lo)
            same_there = False
            if pinned:
                try:
                    env = dict(pinned)
                    for a_, v_ in pinned.items():
                        if v_.is_zero():
                            env['cos(%s)' % a_] = Rat.const(1)
                            env['sin(%s)' % a_] = Rat.const(0)
                    same_there = subst(main.ret, env).equals(subst(p.ret, env))
                except Exception:
                    same_there = False
            chk.decide(same_there, 'one-closed-form', f['unit'], n, 'return@%d' % p.ret_node['ln'], '%s:%d' % (f['rel'], p.ret_node['ln']),
                       '%s returns %s here but %s at line %d: the function is no longer one closed form, and the identities of the property '
                       '(integral, azimuthal average, Thomson limit and bound, Compton-ratio form) hold for at most one of the two expressions' % (
                           n, p.ret.canon()[:120], main.ret.canon()[:120], main.ret_node['ln']),
                       why='agrees with the closed form at the single point it is taken for')
        _single[n] = main
        return main

    # ---- parity / periodicity -------------------------------------------------------------------------
    for n, angles in (('DCS_Thoms', ['theta']), ('DCS_KN', ['theta']), ('ComptonEnergy', ['theta']), ('DCSP_KN', ['theta', 'phi']),
                      ('DCSP_Thoms', ['theta', 'phi'])):
        f, it, paths = R[n]
        p = single(n)
        if p is None:
            continue
        loc = '%s:%d' % (f['rel'], p.ret_node['ln'])
        anames = [prm['name'] for prm in f['params'] if prm['T'] == 'double'][-len(angles):] if n != 'DCS_Thoms' else [f['params'][0]['name']]
        if n in ('DCS_KN', 'ComptonEnergy', 'DCSP_KN'):
            anames = [prm['name'] for prm in f['params'][1:1 + len(angles)]]
        num, den = reduce_trig(p.ret.n), reduce_trig(p.ret.d)
        for a in anames:
            okc = True
            why = []
            for poly in (num, den):
                for mon in poly.t:
                    for s_, pw in mon:
                        if a in s_.replace('(', ' ').replace(')', ' ').replace('*', ' ').replace(',', ' ').split():
                            if s_ == 'cos(%s)' % a:
                                continue
                            if s_ == 'sin(%s)' % a:
                                if pw % 2:
                                    okc = False
                                    why.append('odd power of sin(%s)' % a)
                                continue
                            okc = False
                            why.append('the angle occurs outside cos/sin: %s' % s_)
            chk.decide(okc, 'even-and-periodic', f['unit'], n, a, loc,
                       '%s is not even and 2*pi-periodic in %s: %s' % (n, a, '; '.join(sorted(set(why)))),
                       why='depends on %s only through cos(%s) and even powers of sin(%s)' % (a, a, a))

    # ---- positivity / finiteness ------------------------------------------------------------------------
    for n in ('DCS_Thoms', 'DCS_KN', 'ComptonEnergy', 'DCSP_KN', 'CS_KN'):
        f, it, paths = R[n]
        seen = {}
        for p in paths:
            for nt in p.notes:
                if isinstance(nt, tuple) and nt[0] == 'div':
                    _, node, iv, b = nt
                    k = (node['ln'], node.get('col'))
                    ok = iv.excludes_zero()
                    seen[k] = (seen.get(k, (True,))[0] and ok, node, iv)
        for k, (ok, node, iv) in sorted(seen.items()):
            chk.decide(ok, 'finite', f['unit'], n, 'divisor %s' % show(node['c'][1])[:50], '%s:%d' % (f['rel'], node['ln']),
                       'division by %s, which the sign domain bounds only to %s: the result is not finite for every angle/energy' % (
                           show(node['c'][1])[:80], iv), why='divisor in %s' % iv)
    for n in ('DCS_Thoms', 'DCS_KN', 'ComptonEnergy'):
        f, it, paths = R[n]
        p = single(n)
        if p is None:
            continue
        iv = it.interval_of(p.ret, p)
        ok = iv.lo is not None and (iv.lo > 0 or (iv.lo == 0 and iv.los))
        chk.decide(ok, 'positive', f['unit'], n, 'value>0', '%s:%d' % (f['rel'], p.ret_node['ln']),
                   'the sign domain does not establish a strictly positive result (bounds %s)' % iv, why='result in %s' % iv)

    # ---- identities ------------------------------------------------------------------------------------------
    pt, pkn, ppt, ppkn, pce = single('DCS_Thoms'), single('DCS_KN'), single('DCSP_Thoms'), single('DCSP_KN'), single('ComptonEnergy')
    if None in (pt, pkn, ppt, ppkn, pce):
        return chk

    def rn(p, f, newnames):
        """rename the parameters of f to canonical names E, theta, phi inside the returned normal form."""
        m = {}
        for prm, nn in zip([x['name'] for x in f['params'] if x['T'] == 'double'], newnames):
            m[prm] = nn
        from rules.common import rename
        import re

        def fn(s):
            for old, new in m.items():
                s = re.sub(r'\b%s\b' % re.escape(old), new, s)
            return s
        return rename(p.ret, fn)
    thoms = rn(pt, R['DCS_Thoms'][0], ['theta'])
    kn = rn(pkn, R['DCS_KN'][0], ['E', 'theta'])
    pthoms = rn(ppt, R['DCSP_Thoms'][0], ['theta', 'phi'])
    pkn_ = rn(ppkn, R['DCSP_KN'][0], ['E', 'theta', 'phi'])
    ce = rn(pce, R['ComptonEnergy'][0], ['E', 'theta'])
    half = Rat.const(Fraction(1, 2))

    def azimuthal_average(r):
        """mean over phi of a polynomial in cos(phi) of degree <= 2 with no sin(phi): cos^2 -> 1/2, cos -> 0."""
        num, den = reduce_trig(r.n), reduce_trig(r.d)
        if 'cos(phi)' in den.symbols() or 'sin(phi)' in den.symbols() or 'sin(phi)' in num.symbols():
            return None
        out = Poly()
        for mon, co in num.t.items():
            d = dict(mon)
            pw = d.pop('cos(phi)', 0)
            if pw == 0:
                f_ = Fraction(1)
            elif pw == 2:
                f_ = Fraction(1, 2)
            elif pw == 1 or pw == 3:
                f_ = Fraction(0)
            elif pw == 4:
                f_ = Fraction(3, 8)
            else:
                return None
            out = out + Poly({tuple(sorted(d.items())): co * f_})
        return Rat(out, den)
    for (nm, pol, unp, f_) in (('Thomson', pthoms, thoms, R['DCSP_Thoms'][0]), ('Klein-Nishina', pkn_, kn, R['DCSP_KN'][0])):
        avg = azimuthal_average(pol)
        chk.decide(avg is not None and avg.equals(unp), 'azimuthal-average', f_['unit'], f_['name'], nm, '%s:%d' % (f_['rel'], f_['ln']),
                   'the azimuthal average (cos^2 phi -> 1/2) of the polarised %s cross section is not the unpolarised one: '
                   'average = %s, unpolarised = %s' % (nm, avg.canon()[:200] if avg is not None else 'not a polynomial in cos(phi)', unp.canon()[:200]),
                   why='<DCSP>_phi = DCS exactly')
    # Compton energy closed form
    mec2 = Rat.const(prog.macro_value('MEC2'))
    E, c = Rat.sym('E'), Rat.sym('cos(theta)')
    want_ce = E / (Rat.const(1) + E / mec2 * (Rat.const(1) - c))
    fce = R['ComptonEnergy'][0]
    chk.decide(ce.equals(want_ce), 'compton-energy', fce['unit'], 'ComptonEnergy', 'closed-form', '%s:%d' % (fce['rel'], fce['ln']),
               'ComptonEnergy must be E/(1 + (E/mc2)(1 - cos theta)); found %s' % ce.canon()[:200], why='E/(1+alpha(1-cos theta))')
    at0 = subst(ce, {'cos(theta)': Rat.const(1), 'sin(theta)': Rat.const(0)})
    atpi = subst(ce, {'cos(theta)': Rat.const(-1), 'sin(theta)': Rat.const(0)})
    chk.decide(at0.equals(E), 'compton-energy', fce['unit'], 'ComptonEnergy', 'theta=0', '%s:%d' % (fce['rel'], fce['ln']),
               'at theta = 0 the scattered energy must equal E; found %s' % at0.canon(), why='E at theta = 0')
    chk.decide(atpi.equals(E / (Rat.const(1) + Rat.const(2) * E / mec2)), 'compton-energy', fce['unit'], 'ComptonEnergy', 'theta=pi',
               '%s:%d' % (fce['rel'], fce['ln']), 'at theta = pi the scattered energy must be E/(1+2E/mc2); found %s' % atpi.canon(),
               why='E/(1+2E/mc2) at theta = pi')
    # monotone: E/D with D affine in cos(theta), coefficient -alpha < 0
    ratio = E / ce
    num, den = reduce_trig(ratio.n), reduce_trig(ratio.d)
    mono = False
    if den.is_const() or True:
        # ratio = D must be a polynomial of degree 1 in cos(theta) with coefficient -(E/mc2)
        d0 = subst(ratio, {'cos(theta)': Rat.const(0)})
        d1 = subst(ratio, {'cos(theta)': Rat.const(1)})
        slope = d1 - d0
        lin = (d0 + slope * c)
        mono = ratio.equals(lin) and slope.equals(Rat.const(0) - E / mec2)
    chk.decide(mono, 'compton-energy', fce['unit'], 'ComptonEnergy', 'monotone', '%s:%d' % (fce['rel'], fce['ln']),
               'E/ComptonEnergy must be affine in cos(theta) with slope -E/mc2 < 0 (so the scattered energy decreases monotonically from 0 to pi)',
               why='denominator affine in cos(theta) with negative slope')
    # DCS_KN = (RE2/2) r^2 (r + 1/r - sin^2 theta), r = ComptonEnergy/E
    re2 = Rat.const(prog.macro_value('RE2'))
    r = ce / E
    s2 = Rat.const(1) - c * c
    want_kn = re2 / Rat.const(2) * r * r * (r + Rat.const(1) / r - s2)
    fkn = R['DCS_KN'][0]
    chk.decide(kn.equals(want_kn), 'kn-ratio-form', fkn['unit'], 'DCS_KN', 'ratio-form', '%s:%d' % (fkn['rel'], fkn['ln']),
               'DCS_KN must equal (r_e^2/2) r^2 (r + 1/r - sin^2 theta) with r = ComptonEnergy(E, theta)/E; difference = %s' % (kn - want_kn).canon()[:240],
               why='Thomson-like expression in the Compton energy ratio')
    lim = subst(kn, {'E': Rat.const(0)})
    chk.decide(lim.equals(thoms), 'low-energy-limit', fkn['unit'], 'DCS_KN', 'E->0', '%s:%d' % (fkn['rel'], fkn['ln']),
               'DCS_KN at E = 0 must reduce to DCS_Thoms; found %s' % lim.canon()[:200], why='reduces to Thomson')
    limp = subst(pkn_, {'E': Rat.const(0)})
    fpk = R['DCSP_KN'][0]
    chk.decide(limp.equals(pthoms), 'low-energy-limit', fpk['unit'], 'DCSP_KN', 'E->0', '%s:%d' % (fpk['rel'], fpk['ln']),
               'DCSP_KN at E = 0 must reduce to DCSP_Thoms; found %s' % limp.canon()[:200], why='reduces to polarised Thomson')
    kn_total_and_bound(prog, chk)
    return chk


def kn_total_and_bound(prog, chk):
    """CS_KN(E) = Integral of DCS_KN over the sphere, and DCS_KN <= DCS_Thoms: exact algebra (no numerics) on the normal forms
    with PI, RE2, MEC2 kept as symbols."""
    import json
    import os
    import subprocess
    from xvlib.absint import Interp
    S = 'src/scattering.c'
    forms = {}
    for key, name in (('kn', 'DCS_KN'), ('thoms', 'DCS_Thoms'), ('total', 'CS_KN')):
        f = prog.func(name, unit=S)
        it = Interp(prog, f)
        it.keep_macros = True
        vals = [p for p in it.run() if p.ret is not None and not it.is_zero(p.ret, p)]
        if not vals:
            chk.inconclusive('kn-total-is-integral', name, 'no value path')
            return
        main = max(vals, key=lambda p: (p.ret_node['ln'], p.ret_node.get('col', 0)))
        for p in vals:
            if p is not main and not p.ret.equals(main.ret):
                chk.bad('one-closed-form', S, name, 'return@%d' % p.ret_node['ln'], '%s:%d' % (f['rel'], p.ret_node['ln']),
                        '%s returns %s here but %s at line %d: the function is no longer one closed form, and the exact identities of the property '
                        '(total = solid-angle integral, never above Thomson) hold for at most one of the two expressions' % (
                            name, p.ret.canon()[:120], main.ret.canon()[:120], main.ret_node['ln']))
        r = main.ret
        # parameter names -> E, theta
        ren = {f['params'][0]['name']: 'E'} if name != 'DCS_Thoms' else {}
        th = f['params'][1]['name'] if name == 'DCS_KN' else (f['params'][0]['name'] if name == 'DCS_Thoms' else None)
        txt = r.canon()
        for a, b in ren.items():
            txt = re.sub(r'\b%s\b' % re.escape(a), b, txt)
        if th and th != 'theta':
            txt = txt.replace('cos(%s)' % th, 'cos(theta)')
        forms[key] = txt
    fk = prog.func('CS_KN', unit=S)
    loc = '%s:%d' % (fk['rel'], fk['ln'])
    helper = os.path.join(os.path.dirname(os.path.dirname(os.path.abspath(__file__))), 'tools', 'cas_kn.py')
    try:
        r = subprocess.run(['python3-vt', helper], input=json.dumps(forms).encode(), stdout=subprocess.PIPE, stderr=subprocess.PIPE, timeout=300)
        out = json.loads(r.stdout.decode())
    except Exception as ex:
        chk.inconclusive('kn-total-is-integral', 'CS_KN', 'computer algebra helper failed: %s' % ex)
        return
    if 'error' in out:
        chk.inconclusive('kn-total-is-integral', 'CS_KN', 'normal forms outside the decidable class: %s' % out['error'])
        return
    chk.decide(out.get('integral') is True, 'kn-total-is-integral', S, 'CS_KN', 'solid-angle-integral', loc,
               'CS_KN(E) is not 2 pi times the integral of DCS_KN(E, theta) sin(theta) over [0, pi]: integral - CS_KN = %s' % out.get('difference'),
               why='2*PI*Integral(DCS_KN du, u=-1..1) - CS_KN simplifies to 0')
    fd = prog.func('DCS_KN', unit=S)
    chk.decide(out.get('bounded') is True, 'kn-below-thomson', S, 'DCS_KN', 'never-exceeds-Thomson', '%s:%d' % (fd['rel'], fd['ln']),
               'DCS_Thoms - DCS_KN is not certified non-negative for E > 0 and all angles: %s' % out.get('witness'),
               why=out.get('witness', ''))
