"""C11 - Auger yields and rates are the documented derivation of the raw tables.

The three derivation functions of src/pr_data.c (and their copies in java/pr_data_java.c) are enumerated
path by path (E1); return values are compared in normal form (E2) with expectations computed from the
macro names (E3): which CK probabilities leave a shell, which Auger macros are Coster-Kronig type, which
shell normalises which macro.  Thorough tier: every generated cell is re-derived from the data files."""
import re
from fractions import Fraction

from xvlib.core import Check
from xvlib.frontend import AnalysisBroken
from xvlib.absint import run_function, Inconclusive
from xvlib.facts import show, walk
from xvlib.names import Names
from xvlib.normform import Rat
from xvlib import datafiles, inittab

NEEDS_GENERATED = True
A_SHELLS = ['K', 'L1', 'L2', 'L3', 'M1', 'M2', 'M3', 'M4', 'M5']


def point(it, st, sym):
    iv = it.interval_of(Rat.sym(sym), st)
    if iv.lo is not None and iv.lo == iv.hi and not iv.los and not iv.his:
        return int(iv.lo)
    return None


def holds(cond, truth, var, val):
    """Evaluate one recorded branch decision for var = val; None if the decision does not involve only var and constants."""
    if isinstance(truth, tuple):
        return None
    k = cond.get('k')
    if k == 'BinaryOperator' and cond['op'] in ('<', '<=', '>', '>=', '==', '!='):
        a, b = cond['c']
        if a.get('k') == 'DeclRefExpr' and a.get('name') == var and 'v' in b:
            x, y = val, b['v']
        elif b.get('k') == 'DeclRefExpr' and b.get('name') == var and 'v' in a:
            x, y = a['v'], val
        else:
            return None
        r = {'<': x < y, '<=': x <= y, '>': x > y, '>=': x >= y, '==': x == y, '!=': x != y}[cond['op']]
        return r == truth
    return None


_SW = {}


def switch_labels(sw):
    if id(sw) in _SW:
        return _SW[id(sw)]
    vals = set()
    for n in walk(sw.get('body') or {}):
        if n.get('k') == 'CaseStmt' and 'v' in n['lhs']:
            vals.add(n['lhs']['v'])
    _SW[id(sw)] = vals
    return vals


def member_of_path(p, var, val):
    for cond, truth in p.conds:
        if isinstance(truth, tuple):
            if cond.get('k') != 'SwitchStmt' or cond['cond'].get('name') != var:
                continue
            if truth[0] == 'case':
                if truth[1] != val:
                    return False
            else:
                if val in switch_labels(cond):
                    return False
            continue
        h = holds(cond, truth, var, val)
        if h is False:
            return False
    return True


def run(prog, tier):
    chk = Check('C11', tier, 'proof',
                'AugerYield_prdata, AugerYield2_prdata and AugerRate_prdata (src/pr_data.c and the copies in '
                'java/pr_data_java.c) are enumerated path by path; the returned normal forms are compared with the '
                'derivation stated in the property, instantiated from the macro names of the current headers: CK '
                'transitions leaving each shell, the Coster-Kronig-type Auger macros of each shell, the normalising '
                'shell of every one of the 996 Auger macros. Fill loops and public accessors are checked for range and '
                'table. Thorough: every cell of Auger_Yields / Auger_Rates in the generated unit is re-derived from '
                'auger_rates.dat, fluor_yield.dat and coskron.dat.',
                ['clang front end via xrl-facts', 'E1 path enumeration incl. switch partition', 'E2 normal forms',
                 'E3 name oracle (xvlib/names.py)', 'independent data readers'],
                ['thorough tier compares %.10E literals with a double re-derivation to relative 5e-10'])
    chk.exhaustive = True
    names = Names(prog)
    chk.floor('Auger macros', len(names.auger_value), 996)
    ck_type = {s: [m for m in names.augers_of(s) if names.auger_is_ck_type(m)] for s in A_SHELLS}
    chk.floor('Coster-Kronig-type Auger macros', sum(len(v) for v in ck_type.values()), 300)
    for unit in ('src/pr_data.c', 'java/pr_data_java.c'):
        derivation(prog, chk, names, unit, ck_type)
    fill_loops(prog, chk, names)
    accessors(prog, chk, names)
    record_names(prog, chk, names)
    if tier == 'thorough' and getattr(prog, 'generated_path', None):
        cells(prog, chk, names, ck_type)
    return chk


def record_names(prog, chk, names):
    """"each rate is the raw rate of THAT transition": the reader files a record of data/auger_rates.dat under the slot whose entry
    of AugerName / AugerNameTotal (src/xrayvars.c) equals the record's name, so entry k must be the name of the macro with value k.
    Same table analysis as rules/c01.py (name-slot), read here for the two Auger name tables."""
    from rules import c01
    shim = Check('C11', 'quick', 'other', '', [], [])
    c01.name_tables(prog, shim, names)
    n = 0
    for rule, inst, why, loc in shim.held:
        if rule == 'name-slot' and inst.startswith(('AugerName:', 'AugerNameTotal:')):
            n += 1
            chk.ok('auger-name-slot', inst, why, loc, nontrivial=False)
    for v in shim.violations:
        if v['rule'] in ('name-slot', 'name-table-size') and v['function'] in ('AugerName', 'AugerNameTotal'):
            n += 1
            chk.bad('auger-name-slot', v['unit'], v['function'], v['instance'], v['loc'],
                    'records of data/auger_rates.dat are filed under the wrong transition: ' + v['message'])
    chk.floor('Auger name table entries', n, 1000)


def derivation(prog, chk, names, U, ck_type):
    tag = U.split('/')[0]
    # ---- AugerYield_prdata ---------------------------------------------------------------------
    f = prog.func('AugerYield_prdata', unit=U)
    it, paths = run_function(prog, f)
    z, sh = f['params'][0]['name'], f['params'][1]['name']
    loc = '%s:%d' % (U, f['ln'])
    valid = [p for p in paths if member_of_path(p, z, 50)]
    for S in A_SHELLS:
        sv = names.shell_value[S]
        mine = [p for p in valid if member_of_path(p, sh, sv)]
        ps = [p for p in mine if p.ret is not None and not p.ret.is_zero()]
        want = Rat.const(1) - Rat.sym('FluorYield(%s,%s,0)' % (z, sh))
        for t in names.ck_from(S):
            want = want - Rat.sym('CosKronTransProb(%s,%d,0)' % (z, names.ck_value[t]))
        ok = len(ps) == 1 and ps[0].ret.equals(want)
        got = ps[0].ret.canon() if ps else None
        chk.decide(ok, 'auger-yield', U, 'AugerYield_prdata', S + '_SHELL', '%s:%d' % (U, ps[0].ret_node['ln'] if ps else f['ln']),
                   'Auger yield of %s must be 1 - FluorYield - sum of CosKronTransProb over %s (transitions leaving %s by name); '
                   'found %s' % (S, [t + '_TRANS' for t in names.ck_from(S)] or 'nothing', S, describe(got, names, z)),
                   why='1 - w - %s' % ' - '.join(names.ck_from(S)))
        zero = [p for p in mine if p.ret is not None and p.ret.is_zero()]
        chk.decide(bool(zero), 'auger-yield', U, 'AugerYield_prdata', S + '_SHELL no-yield', loc,
                   'no path returns 0 when the fluorescence yield is not tabulated', why='0 when FluorYield is unavailable')
    # ---- AugerYield2_prdata --------------------------------------------------------------------
    f = prog.func('AugerYield2_prdata', unit=U)
    it, paths = run_function(prog, f)
    z, sh = f['params'][0]['name'], f['params'][1]['name']
    valid = [p for p in paths if member_of_path(p, z, 50)]
    for S in A_SHELLS:
        sv = names.shell_value[S]
        ps = [p for p in valid if member_of_path(p, sh, sv) and p.ret is not None]
        want = Rat.sym('Auger_Transition_Total[%s][%s]' % (z, sh))
        for m in ck_type[S]:
            want = want - Rat.sym('Auger_Transition_Individual[%s][%d]' % (z, names.auger_value[m]))
        ok = len(ps) == 1 and ps[0].ret.equals(want)
        msg = ''
        if ps and not ok:
            r = ps[0].ret
            got = {}
            for mon, co in r.n.monomials().items():
                for sname, pw in mon:
                    mm = re.match(r'^Auger_Transition_Individual\[%s\]\[(\d+)\]$' % z, sname)
                    if mm:
                        got[int(mm.group(1))] = co
            exp = {names.auger_value[m]: Fraction(-1) for m in ck_type[S]}
            miss = [names.auger_by_value[v] for v in exp if v not in got]
            extra = [names.auger_by_value.get(v, v) for v in got if v not in exp]
            wrongc = [names.auger_by_value[v] for v in got if v in exp and got[v] != exp[v]]
            msg = 'missing %s; foreign %s; subtracted more than once %s' % (miss, extra, wrongc)
        chk.decide(ok, 'auger-yield2', U, 'AugerYield2_prdata', S + '_SHELL', '%s:%d' % (U, f['ln']),
                   'net non-radiative total of %s must be TOTAL minus exactly its %d Coster-Kronig-type transitions: %s' % (
                       S, len(ck_type[S]), msg), why='TOTAL - %d Coster-Kronig-type rates' % len(ck_type[S]))
    # ---- AugerRate_prdata ----------------------------------------------------------------------
    f = prog.func('AugerRate_prdata', unit=U)
    it, paths = run_function(prog, f, max_paths=5000)
    z, at = f['params'][0]['name'], f['params'][1]['name']
    # assume a valid Z so that only the macro partition remains
    paths = [p for p in paths if p.ret is not None]
    allck = set(m for S in A_SHELLS for m in ck_type[S])
    nonzero = [p for p in paths if not p.ret.is_zero()]
    want_ret = {}
    for S in A_SHELLS:
        want_ret[S] = (Rat.sym('Auger_Transition_Individual[%s][%s]' % (z, at)) /
                       Rat.sym('AugerYield2_prdata(%s,%d)' % (z, names.shell_value[S]))).canon()
    canon_of = {id(p): p.ret.canon() for p in nonzero}
    bad_macros = []
    for m, v in sorted(names.auger_value.items(), key=lambda kv: kv[1]):
        S = names.parse_auger(m)[0]
        mine = [p for p in nonzero if member_of_path(p, at, v)]
        if m in allck:
            ok = not mine
            chk.decide(ok, 'auger-rate-ck-unavailable', U, 'AugerRate_prdata', m + '_AUGER', '%s:%d' % (U, f['ln']),
                       'Coster-Kronig-type transition %s must be reported as unavailable, but a path returns %s for it' % (
                           m, canon_of[id(mine[0])] if mine else ''), why='no value path admits this macro')
        else:
            ok = len(mine) == 1 and canon_of[id(mine[0])] == want_ret[S]
            got = canon_of[id(mine[0])] if mine else 'no value (treated as unavailable)'
            mm = re.search(r'AugerYield2_prdata\(%s,(\d+)\)' % z, got)
            gotS = names.shell_by_value.get(int(mm.group(1))) if mm else None
            chk.decide(ok, 'auger-rate-normalisation', U, 'AugerRate_prdata', m + '_AUGER',
                       '%s:%d' % (U, mine[0].ret_node['ln'] if mine else f['ln']),
                       'rate of %s must be its raw rate divided by the net non-radiative total of its own shell %s; found %s' % (
                           m, S, ('division by the total of %s' % gotS) if gotS else got),
                       why='raw / AugerYield2(%s)' % S)
    # guards on the value paths: raw rate != 0 and yield2 >= 1e-8
    for p in nonzero[:9]:
        has_guard = any(c.get('k') == 'BinaryOperator' and c['op'] == '<' and t is False and 'yield2' in show(c) for c, t in p.conds)
        chk.decide(has_guard, 'auger-rate-guard', U, 'AugerRate_prdata', 'yield2-guard@%d' % p.ret_node['ln'], '%s:%d' % (U, p.ret_node['ln']),
                   'division by the net total is not guarded against a vanishing total', why='yield2 < 1e-8 returns unavailable')


def describe(canon, names, z):
    if canon is None:
        return 'no successful path'
    s = canon
    s = re.sub(r'FluorYield\(%s,\w+,0\)' % z, 'w', s)
    for t, v in names.ck_value.items():
        s = s.replace('CosKronTransProb(%s,%d,0)' % (z, v), t)
    for sh, v in names.shell_value.items():
        s = s.replace('FluorYield(%s,%d,0)' % (z, v), 'w(%s)' % sh)
    return s


def fill_loops(prog, chk, names):
    U = 'src/pr_data.c'
    f = prog.func('main', unit=U)
    zmax = prog.macro_value('ZMAX')
    maxz_data = 0
    for z, nm, val in datafiles.triples(prog.repo, 'auger_rates.dat'):
        maxz_data = max(maxz_data, z)
    for z, nm, val in datafiles.triples(prog.repo, 'fluor_yield.dat'):
        if nm in A_SHELLS:
            maxz_data = max(maxz_data, z)

    def loop_range(lp):
        init, cond = lp.get('init') or {}, lp.get('cond') or {}
        lo = hi = var = None
        for a in walk(init):
            if a.get('k') == 'BinaryOperator' and a['op'] == '=' and 'v' in a['c'][1]:
                var, lo = a['c'][0].get('name'), a['c'][1]['v']
        if cond.get('k') == 'BinaryOperator' and cond['op'] in ('<', '<=') and 'v' in cond['c'][1]:
            hi = cond['c'][1]['v'] - (1 if cond['op'] == '<' else 0)
        return var, lo, hi
    found = {}
    for outer in [n for n in walk(f['body']) if n.get('k') == 'ForStmt']:
        zv, zlo, zhi = loop_range(outer)
        for inner in [n for n in walk(outer['body']) if n.get('k') == 'ForStmt']:
            jv, jlo, jhi = loop_range(inner)
            for a in walk(inner['body']):
                if a.get('k') == 'BinaryOperator' and a['op'] == '=' and a['c'][0].get('k') == 'ArraySubscriptExpr':
                    lhs = show(a['c'][0])
                    rhs = show(a['c'][1])
                    for tbl, fn in (('Auger_Rates', 'AugerRate_prdata'), ('Auger_Yields', 'AugerYield_prdata')):
                        if lhs == '%s[%s][%s]' % (tbl, zv, jv):
                            found[tbl] = (zlo, zhi, jlo, jhi, rhs == '%s(%s, %s)' % (fn, zv, jv), rhs, a['ln'])
    for tbl, n in (('Auger_Rates', len(names.auger_value)), ('Auger_Yields', len(A_SHELLS))):
        if tbl not in found:
            chk.bad('fill-loop', U, 'main', tbl, '%s:%d' % (U, f['ln']), 'no loop fills %s[Z][j] from its derivation function' % tbl)
            continue
        zlo, zhi, jlo, jhi, okrhs, rhs, ln = found[tbl]
        chk.decide(okrhs, 'fill-loop', U, 'main', tbl + ' source', '%s:%d' % (U, ln),
                   '%s[Z][j] is filled from %s' % (tbl, rhs), why='filled from its own derivation function with (Z, j)')
        chk.decide(jlo == 0 and jhi == n - 1, 'fill-loop', U, 'main', tbl + ' columns', '%s:%d' % (U, ln),
                   'columns %s..%s filled; the table has %d' % (jlo, jhi, n), why='all %d columns' % n)
        chk.decide(zlo is not None and zlo <= 1 and zhi is not None and zhi >= maxz_data and zhi <= zmax, 'fill-loop', U, 'main', tbl + ' rows',
                   '%s:%d' % (U, ln), 'rows Z = %s..%s filled; the data files hold Auger/yield data up to Z = %d (ZMAX %d)' % (
                       zlo, zhi, maxz_data, zmax), why='rows 1..%s cover every Z with data (max %d)' % (zhi, maxz_data))


def accessors(prog, chk, names):
    U = 'src/auger_trans.c'
    for fn, tbl, lo, hi, what in (('AugerRate', 'Auger_Rates', 0, len(names.auger_value) - 1, 'Auger macro'),
                                  ('AugerYield', 'Auger_Yields', 0, len(A_SHELLS) - 1, 'shell')):
        f = prog.func(fn, unit=U)
        it, paths = run_function(prog, f)
        z, a = f['params'][0]['name'], f['params'][1]['name']
        good = [p for p in paths if p.ret is not None and not p.ret.is_zero()]
        want = Rat.sym('%s[%s][%s]' % (tbl, z, a))
        ok = len(good) == 1 and good[0].ret.equals(want)
        chk.decide(ok, 'accessor', U, fn, 'value', '%s:%d' % (U, f['ln']),
                   '%s must return %s[Z][%s]; found %s' % (fn, tbl, a, [p.ret.canon() for p in good]), why='returns %s[Z][%s]' % (tbl, a))
        if good:
            iv = it.interval_of(Rat.sym(a), good[0])
            ivz = it.interval_of(Rat.sym(z), good[0])
            chk.decide(iv.lo == lo and iv.hi == hi, 'accessor', U, fn, 'macro-range', '%s:%d' % (U, f['ln']),
                       'accepted %s range is [%s, %s]; the macro range is [%d, %d]' % (what, iv.lo, iv.hi, lo, hi),
                       why='accepts exactly [%d, %d]' % (lo, hi))
            chk.decide(ivz.lo == 1 and ivz.hi == prog.macro_value('ZMAX'), 'accessor', U, fn, 'Z-range', '%s:%d' % (U, f['ln']),
                       'accepted Z range is [%s, %s]' % (ivz.lo, ivz.hi), why='Z in [1, ZMAX]')
            vv = it.interval_of(want, good[0])
            chk.decide(vv.lo == 0 and vv.los, 'accessor', U, fn, 'positivity', '%s:%d' % (U, f['ln']),
                       'the value path does not require a strictly positive table cell', why='cell > 0 on the value path')
        for p in paths:
            if p.ret is not None and p.ret.is_zero():
                if not any(e.kind == 'call' and e.name.startswith('xrl_set_error') for e in p.events):
                    chk.bad('accessor', U, fn, 'error-on-zero', '%s:%d' % (U, p.ret_node['ln']), 'returns 0 without reporting an error')
                else:
                    chk.ok('accessor', '%s:zero@%d' % (fn, p.ret_node['ln']), 'error set', nontrivial=False)


def cells(prog, chk, names, ck_type):
    gen = inittab.read_generated(prog.generated_path)
    zmax = prog.macro_value('ZMAX')
    fy, ck, tot, ind = {}, {}, {}, {}
    for z, nm, val in datafiles.triples(prog.repo, 'fluor_yield.dat'):
        fy[(z, nm)] = float(val)
    for z, nm, val in datafiles.triples(prog.repo, 'coskron.dat'):
        ck[(z, nm)] = float(val)
    for z, nm, val in datafiles.triples(prog.repo, 'auger_rates.dat'):
        if nm.endswith('-TOTAL'):
            tot[(z, nm[:-6])] = float(val)
        else:
            ind[(z, nm)] = float(val)
    Y = gen.get('Auger_Yields')
    R = gen.get('Auger_Rates')
    if not Y or not R:
        chk.inconclusive('generated-cells', 'xrayglob_inline.c', 'Auger tables not found in the generated unit')
        return
    chk.programs = 2
    nbad = 0
    n = 0

    def close(a, b):
        return a == b or abs(a - b) <= 5e-10 * max(abs(a), abs(b), 1e-300)
    for z in range(0, zmax + 1):
        for si, S in enumerate(A_SHELLS):
            w = fy.get((z, S), 0.0)
            exp = 0.0
            if w > 0 and 1 <= z < zmax:
                exp = 1.0 - w
                for t in names.ck_from(S):
                    v = ck.get((z, names.ck_table_name(t)), 0.0)
                    exp -= v if v > 0 else 0.0
            got = float(Y['value'][z][si])
            n += 1
            if not close(got, exp):
                nbad += 1
                if nbad <= 20:
                    chk.bad('generated-cells', 'src/xrayglob_inline.c', 'Auger_Yields', 'Z=%d %s' % (z, S), 'xrayglob_inline.c',
                            'generated Auger_Yields[%d][%s] = %r, derivation from the data files gives %r' % (z, S, got, exp))
            if got > 0:
                parts = w + got + sum(max(ck.get((z, names.ck_table_name(t)), 0.0), 0.0) for t in names.ck_from(S))
                if not (abs(parts - 1.0) < 1e-9 and 0 <= got <= 1):
                    chk.bad('generated-cells', 'src/xrayglob_inline.c', 'Auger_Yields', 'partition Z=%d %s' % (z, S), 'xrayglob_inline.c',
                            'decay channels of %s at Z=%d sum to %r' % (S, z, parts))
        y2 = {}
        for S in A_SHELLS:
            v = tot.get((z, S), 0.0)
            for m in ck_type[S]:
                v -= ind.get((z, names.auger_table_name(m)), 0.0)
            y2[S] = v
        for m, mv in names.auger_value.items():
            S = names.parse_auger(m)[0]
            raw = ind.get((z, names.auger_table_name(m)), 0.0)
            exp = 0.0
            if 1 <= z < zmax and not names.auger_is_ck_type(m) and raw != 0.0 and y2[S] >= 1e-8:
                exp = raw / y2[S]
            got = float(R['value'][z][mv])
            n += 1
            if not close(got, exp):
                nbad += 1
                if nbad <= 20:
                    chk.bad('generated-cells', 'src/xrayglob_inline.c', 'Auger_Rates', 'Z=%d %s' % (z, m), 'xrayglob_inline.c',
                            'generated Auger_Rates[%d][%s] = %r, derivation from the data files gives %r' % (z, m, got, exp))
    chk.disagreements_checked = nbad
    if nbad == 0:
        chk.ok('generated-cells', 'all %d cells' % n, 'every cell equals the derivation from the data files', 'xrayglob_inline.c')
    chk.coverage_extra['generated_cells_compared'] = n
