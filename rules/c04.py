"""C04 - no call sequence corrupts, over-reads or leaks memory.

(a) every subscript on a fixed-extent object is inside the extent on every abstract path (interval facts,
    success constraints of delegated calls, data-dependent bounds discharged with facts read from data/*.dat)
(c) resource typestate: every allocation is released, returned or stored into caller-visible storage on every exit;
    released at most once; not used after release
(d) pointer parameters that the function family checks for NULL are not dereferenced unchecked
(e) scanf-family %s / %[ conversions carry a width smaller than the destination extent
(f) allocation size agrees with what is written through the fresh pointer (memcpy sizes)"""
import os
from fractions import Fraction
import re

from xvlib.core import Check
from xvlib.frontend import AnalysisBroken
from xvlib.absint import Inconclusive, Interval
from xvlib.errstate import Summaries, error_param, outcome
from xvlib.resources import ResourceModel, res_syms
from xvlib.coverage import DataFacts, GUARD_TABLES
from xvlib.facts import walk, show, strip_casts, calls_in
from xvlib.normform import Rat, NotInClass, subst

SKIP = ('CompoundParserSimple', 'add_compound_data')


def extent_of(base):
    if base.get('k') == 'DeclRefExpr' and base.get('dims'):
        return base['dims'][0]
    t = base.get('Ti') or base.get('T') or ''
    m = re.search(r'\[(\d+)\]', t)
    return int(m.group(1)) if m else None


class Hulls:
    """Success constraints of callees: hull of each integer/pointer parameter over the value paths."""

    def __init__(self, summ):
        self.summ = summ
        self.h = {}
        for rnd in range(5):
            changed = False
            for name, paths in summ.paths.items():
                f = summ.funcs[name]
                it = summ.interp[name]
                per = None
                for p in paths:
                    if p.ret is None or it.is_zero(p.ret, p):
                        if f['ret'] != 'void':
                            continue
                    ivs = []
                    for prm in f['params']:
                        iv = it.interval_of(Rat.sym(prm['name']), p)
                        lo, hi, nz = iv.lo, iv.hi, iv.excludes_zero()
                        if rnd > 0:
                            rlo, rhi, rnz = self.refine(it, p, Rat.sym(prm['name']))
                            if rlo is not None and (lo is None or rlo > lo):
                                lo = rlo
                            if rhi is not None and (hi is None or rhi < hi):
                                hi = rhi
                            nz = nz or rnz
                        ivs.append((lo, hi, nz))
                    if per is None:
                        per = [[lo, hi, nz] for lo, hi, nz in ivs]
                    else:
                        for q, (lo, hi, nz) in zip(per, ivs):
                            q[0] = None if (q[0] is None or lo is None) else min(q[0], lo)
                            q[1] = None if (q[1] is None or hi is None) else max(q[1], hi)
                            q[2] = q[2] and nz
                if self.h.get(name) != per:
                    changed = True
                self.h[name] = per
            if not changed:
                break

    def refine(self, it, st, rat):
        """Interval for `rat` implied by delegated calls that succeeded on this path and received it as an argument."""
        lo = hi = None
        nz = False
        c = rat.canon()
        for e in st.events:
            if e.kind != 'call' or e.name not in self.h or self.h[e.name] is None:
                continue
            callee = self.summ.funcs[e.name]
            if outcome(it, st, e, callee['ret']) != 'ok':
                continue
            for a, q in zip(e.args or [], self.h[e.name]):
                if a is not None and a.canon() == c:
                    if q[0] is not None:
                        lo = q[0] if lo is None else max(lo, q[0])
                    if q[1] is not None:
                        hi = q[1] if hi is None else min(hi, q[1])
                    nz = nz or q[2]
        return lo, hi, nz


def run(prog, tier):
    chk = Check('C04', tier, 'other',
                'Memory safety decided on the abstract paths of every libxrl function: (a) each subscript on a fixed-extent '
                'object stays inside the extent (interval facts refined by branch tests, by the success constraints of delegated '
                'calls and by data facts such as max(NShells) <= SHELLNUM_C read from the data files); (c) allocation / release '
                'typestate with ownership through fields and project constructors/destructors discovered from the code; '
                '(d) NULL-checked parameter families are not dereferenced unchecked; (e) scanf %s widths; (f) memcpy sizes equal '
                'allocation sizes; (g) every spline call site is dominated by the "has data" test that sizes the rows it reads.',
                ['clang front end', 'E1 path enumeration with interval facts', 'resource model (xvlib/resources.py)',
                 'data facts from data/*.dat (xvlib/coverage.py)'],
                ['A4 allocations the code does not test are assumed to succeed (the property does not ask for out-of-memory robustness)',
                 'the 1-based spline idiom (pointer one before the array) is an accepted idiom',
                 'absence of undefined behaviour in general (signed overflow, ctype on negative char) is not decided'])
    pass1 = Summaries(prog, skip=SKIP)
    hulls = Hulls(pass1)
    data = DataFacts(prog)
    subs = {}
    derefs = {}

    heap = {}
    sizeof_bytes = {}
    for f_ in prog.src_funcs():
        for n_ in walk(f_['body']):
            if n_.get('k') == 'UnaryExprOrTypeTraitExpr' and isinstance(n_.get('v'), int):
                sizeof_bytes.setdefault(n_.get('argT'), n_['v'])

    def constval(sym):
        # byte sizes the compiler folded; values of const-qualified scalar globals
        m_ = re.match(r'^sizeof\((.+)\)$', sym)
        if m_ and m_.group(1) in sizeof_bytes:
            return Rat.const(sizeof_bytes[m_.group(1)])
        if re.match(r'^\w+$', sym):
            g = prog.global_def(sym, required=False)
            if g and g.get('const') and isinstance(g.get('init'), dict) and isinstance(g['init'].get('v'), int):
                return Rat.const(g['init']['v'])
        return None

    def on_heap(node, st, it, write):
        # (a2) subscript on a block this very path obtained from malloc/calloc: (index + 1) elements must fit into the requested size
        base = strip_casts(node['c'][0])
        bt = (base.get('T') or '').replace('const ', '').strip()
        if not bt.endswith('*'):
            return
        elem = re.sub(r'\s+', ' ', bt[:-1]).strip()
        try:
            bv = it.eval(base, st)
        except NotInClass:
            return
        al = None
        for e in st.events:
            if e.kind == 'call' and e.name in ('malloc', 'calloc') and e.result is not None and e.result.canon() == bv.canon():
                al = e
        if al is None or any(a is None for a in al.args):
            return
        size = al.args[0] if al.name == 'malloc' else al.args[0] * al.args[1]
        key = (it.func['name'], node['ln'], node.get('col'))
        try:
            idx = it.eval(node['c'][1], st)
            room = size - (idx + Rat.const(1)) * Rat.sym('sizeof(%s)' % elem)
            # the byte sizes the compiler folded and the values of const-qualified scalar globals
            env = {x: constval(x) for x in room.n.symbols() | idx.n.symbols() if constval(x) is not None}
            iv = it.interval_of(idx, st)
            if iv.lo is None and env:
                iv = it.interval_of(subst(idx, env), st)
            ok = iv.lo is not None and iv.lo >= 0 and (nonneg(it, st, room) or nonneg_split(it, st, room, constval))
            if not ok and iv.lo is not None and iv.lo >= 0 and env:
                room2 = subst(room, env)
                ok = nonneg(it, st, room2) or nonneg_split(it, st, room2, constval)
            if os.environ.get('XV_DEBUG_HEAP') and not ok:
                print('HEAP', it.func['name'], show(node), 'idx', idx.canon(), iv, 'room', room.canon(), 'env', {k: v.canon() for k, v in env.items()},
                      [(k, str(v)) for k, v in st.facts.items() if any(x in k for x in idx.n.symbols())][:6])
            txt = 'index %s, block of %s bytes' % (idx.canon()[:50], size.canon()[:70])
        except NotInClass:
            ok, txt = False, 'index not analysable'
        prev = heap.get(key)
        if prev is None:
            heap[key] = [ok, show(node)[:70], txt, write, al.node['ln']]
        elif not ok and prev[0]:
            heap[key] = [False, show(node)[:70], txt, write, al.node['ln']]

    stale = {}

    def on_input_buffer(node, st, it):
        # (a3) a buffer filled by fgets() holds a new line only when fgets() did not return NULL: reading it without that test reads
        # the previous line again, or uninitialised bytes when nothing was ever read (an empty file)
        b0 = strip_casts(node['c'][0])
        if b0.get('k') != 'DeclRefExpr' or b0.get('cls') != 'local':
            return
        last = None
        for e in st.events:
            if e.kind == 'call' and e.name == 'fgets' and e.node.get('args') and show(strip_casts(e.node['args'][0])) == b0['name']:
                last = e
        if last is None or last.result is None:
            return
        ok = it.interval_of(last.result, st).excludes_zero()
        key = (it.func['name'], node['ln'], node.get('col'))
        prev = stale.get(key)
        stale[key] = [(prev[0] and ok) if prev else ok, show(node)[:60], last.node['ln']]

    recarr = {}
    RECORD_ARRAYS = {('compoundData', 'Elements'): 'nElements', ('compoundData', 'massFractions'): 'nElements', ('compoundData', 'nAtoms'): 'nElements',
                     ('compoundDataNIST', 'Elements'): 'nElements', ('compoundDataNIST', 'massFractions'): 'nElements',
                     ('radioNuclideData', 'XrayLines'): 'nXrays', ('radioNuclideData', 'XrayIntensities'): 'nXrays',
                     ('radioNuclideData', 'GammaEnergies'): 'nGammas', ('radioNuclideData', 'GammaIntensities'): 'nGammas',
                     ('Crystal_Struct', 'atom'): 'n_atom', ('compoundAtoms', 'singleElements'): 'nElements'}

    def on_record_array(node, st, it, write):
        # (a4) the array members of the library's records have as many entries as the record's count field says (the constructors establish
        # it, C15 / C07): a subscript on such a member must be established to lie in [0, count)
        b0 = strip_casts(node['c'][0])
        if b0.get('k') != 'MemberExpr' or (b0.get('rec'), b0.get('field')) not in RECORD_ARRAYS:
            return False
        L = RECORD_ARRAYS[(b0['rec'], b0['field'])]
        ln_ = dict(b0)
        ln_['field'] = L
        ln_['T'] = ln_['Ti'] = 'int'
        key = (it.func['name'], node['ln'], node.get('col'))
        try:
            idx = it.eval(node['c'][1], st)
            cnt = it.eval(ln_, st)
            iv = it.interval_of(idx, st)
            d = it.interval_of(idx - cnt, st)
            ok = iv.lo is not None and iv.lo >= 0 and ((d.hi is not None and d.hi <= -1) or nonneg_split(it, st, cnt - idx - Rat.const(1), constval))
            txt = 'index %s in %s, count %s' % (idx.canon()[:40], iv, cnt.canon()[:50])
        except NotInClass:
            ok, txt = False, 'index or count not analysable'
        prev = recarr.get(key)
        if prev is None or (prev[0] and not ok):
            recarr[key] = [ok, show(node)[:60], txt, write, L]
        return True

    def on_sub(node, st, it, write=False):
        base = node['c'][0]
        ext = extent_of(base)
        if not write and ext is not None:
            on_input_buffer(node, st, it)
        if ext is None and on_record_array(node, st, it, write):
            return
        if ext is None or ext < 0:
            if ext is None:
                on_heap(node, st, it, write)
            return
        try:
            idx = it.eval(node['c'][1], st)
            iv = it.interval_of(idx, st)
            lo, hi = iv.lo, iv.hi
        except NotInClass:
            idx, lo, hi = None, None, None
        why = 'interval facts on the path'
        if idx is not None and (lo is None or hi is None or lo < 0 or hi > ext - 1):
            rlo, rhi, _ = hulls.refine(it, st, idx)
            if rlo is not None and (lo is None or rlo > lo):
                lo = rlo
                why = 'success constraint of a delegated call'
            if rhi is not None and (hi is None or rhi < hi):
                hi = rhi
                why = 'success constraint of a delegated call'
        if idx is not None and (hi is None or hi > ext - 1):
            # data-dependent bound: idx < Tbl[Z]
            for key in list(st.facts):
                for t in GUARD_TABLES:
                    m = re.search(r'\b%s\[(\w+)\]' % t, key)
                    if not m:
                        continue
                    d = idx - Rat.sym('%s[%s]' % (t, m.group(1)))
                    div = it.interval_of(d, st)
                    if div.hi is not None:
                        tbl = data.table(t)
                        mx = max(tbl.values())
                        cand = mx + div.hi
                        if hi is None or cand < hi:
                            hi = cand
                            why = 'data fact: max(%s) = %s' % (t, mx)
        key = (it.func['name'], node['ln'], node.get('col'))
        ok = lo is not None and hi is not None and lo >= 0 and hi <= ext - 1
        prev = subs.get(key)
        if prev is None:
            subs[key] = [ok, lo, hi, ext, show(node)[:70], why, write]
        else:
            prev[0] = prev[0] and ok
            if not ok:
                prev[1], prev[2] = lo, hi

    def on_deref(node, ptr, st, it):
        p0 = strip_casts(ptr)
        if p0.get('k') != 'DeclRefExpr' or p0.get('cls') not in ('param', 'local'):
            return
        try:
            v = it.eval(p0, st)
        except NotInClass:
            return
        # only pointers that are (aliases of) pointer parameters of this function
        params = {prm['name']: prm for prm in it.func['params'] if prm['T'].endswith('*') and not prm['T'].endswith('**')}
        if v.canon() not in params:
            return
        iv = it.interval_of(v, st)
        ok = iv.excludes_zero()
        if not ok:
            _, _, nz = hulls.refine(it, st, v)
            ok = nz
        key = (it.func['name'], v.canon(), node['ln'], node.get('col'))
        prev = derefs.get(key)
        derefs[key] = [(prev[0] and ok) if prev else ok, show(node)[:60]]

    summ = Summaries(prog, skip=SKIP, on_subscript=on_sub, on_deref=on_deref)
    for n, why in summ.inconclusive.items():
        chk.inconclusive('paths', n, why)

    # ---- (a) bounds ----------------------------------------------------------------------------
    for (fn, ln, col), (ok, lo, hi, ext, txt, why, write) in sorted(subs.items()):
        f = summ.funcs[fn]
        chk.decide(ok, 'subscript-in-bounds', f['unit'], fn, '%s extent=%d' % (txt, ext), '%s:%d' % (f['rel'], ln),
                   '%s %s with an index the analysis bounds to [%s, %s]; the object has %d elements' % (
                       'writes' if write else 'reads', txt, lo, hi, ext), why='index in [%s, %s] within [0, %d] by %s' % (lo, hi, ext - 1, why))
    chk.floor('subscripts on fixed-extent objects', len(subs), 150)
    for (fn, ln, col), (ok, txt, detail, write, aln) in sorted(heap.items()):
        f = summ.funcs[fn]
        chk.decide(ok, 'store-within-allocation', f['unit'], fn, '%s block@%d' % (txt, aln), '%s:%d' % (f['rel'], ln),
                   '%s %s, an element of the block allocated at line %d, but the element is not established to lie inside it (%s)' % (
                       'writes' if write else 'reads', txt, aln, detail), why='0 <= index and (index + 1) * sizeof(element) <= allocated size on every path')
    chk.floor('subscripts on blocks allocated on the same path', len(heap), 1)
    for (fn, ln, col), (ok, txt, detail, write, L) in sorted(recarr.items()):
        f = summ.funcs[fn]
        chk.decide(ok, 'record-array-in-bounds', f['unit'], fn, txt, '%s:%d' % (f['rel'], ln),
                   '%s %s, a member array that holds %s entries, with a subscript that is not established to lie in [0, %s) (%s)' % (
                       'writes' if write else 'reads', txt, L, L, detail), why='0 <= index < %s on every path' % L)
    # the two functions whose path count exceeds every budget (SKIP): the same obligation decided on the loop structure - the subscript is
    # the counter of an enclosing `for (v = 0; v < R->count; v++)` over the SAME record R, or R->count - 1 (the entry just appended), or 0 in
    # the block that allocates the first entry and sets the count
    for fn in SKIP:
        f = prog.func(fn, required=False)
        if f is None:
            continue

        def rec_(n, loops, blocks):
            if isinstance(n, list):
                for x in n:
                    rec_(x, loops, blocks)
                return
            if not isinstance(n, dict):
                return
            if n.get('k') == 'ForStmt':
                var, init0 = None, False
                for a in walk(n.get('init') or {}):
                    if a.get('k') == 'BinaryOperator' and a.get('op') == '=':
                        var, init0 = strip_casts(a['c'][0]).get('name'), a['c'][1].get('v') == 0
                cond = n.get('cond') or {}
                loops = loops + [(var, init0, cond.get('op'), show(cond['c'][1]).replace(' ', '') if cond.get('c') else None)]
            if n.get('k') == 'CompoundStmt':
                blocks = blocks + [n]
            if n.get('k') == 'ArraySubscriptExpr':
                b = strip_casts(n['c'][0])
                if b.get('k') == 'MemberExpr' and (b.get('rec'), b.get('field')) in RECORD_ARRAYS and b.get('c'):
                    L = RECORD_ARRAYS[(b['rec'], b['field'])]
                    R = show(b['c'][0]).replace(' ', '')
                    idx = strip_casts(n['c'][1])
                    itxt = show(idx).replace(' ', '')
                    cnt = [R + '->' + L, R + '.' + L, '(' + R + ')->' + L]
                    ok = False
                    if idx.get('k') == 'DeclRefExpr':
                        lp = [l for l in loops if l[0] == idx.get('name')]
                        ok = bool(lp) and lp[-1][1] and lp[-1][2] == '<' and lp[-1][3] in cnt
                    elif itxt.strip('()') in [c_ + '-1' for c_ in cnt]:
                        ok = True
                    elif idx.get('v') == 0 and blocks:
                        blk = blocks[-1]
                        alloc = any(x.get('k') == 'BinaryOperator' and x.get('op') == '=' and show(x['c'][0]).replace(' ', '') in (R + '->' + b['field'], R + '.' + b['field']) and
                                    any(c_.get('callee') in ('malloc', 'calloc', 'realloc') for c_ in calls_in(x['c'][1])) for x in walk(blk))
                        setc = any((x.get('k') in ('BinaryOperator', 'UnaryOperator', 'CompoundAssignOperator')) and x.get('op') in ('=', '++', 'post++', 'pre++', '+=') and
                                   show(x['c'][0]).replace(' ', '') in cnt for x in walk(blk))
                        ok = alloc and setc
                    chk.decide(ok, 'record-array-in-bounds', f['unit'], fn, '%s@%d' % (show(n)[:50], n['ln']), '%s:%d' % (f['rel'], n['ln']),
                               'reads or writes %s, a member array with %s->%s entries, with a subscript that is neither the counter of an enclosing loop '
                               'over [0, %s->%s) nor the last entry: enclosing loops %s' % (show(n)[:60], R, L, R, L, [(l[0], l[3]) for l in loops]),
                               why='subscript bounded by %s->%s' % (R, L))
            for k_, v in n.items():
                if isinstance(v, (dict, list)) and k_ != 'T':
                    rec_(v, loops, blocks)
        rec_(f['body'], [], [])
    for (fn, ln, col), (ok, txt, fln) in sorted(stale.items()):
        f = summ.funcs[fn]
        chk.decide(ok, 'input-buffer-fresh', f['unit'], fn, '%s after fgets@%d' % (txt, fln), '%s:%d' % (f['rel'], ln),
                   'reads %s although the fgets() at line %d may have returned NULL (end of file, read error): the buffer then still holds the previous line - '
                   'or uninitialised bytes if nothing was read yet, e.g. for an empty file' % (txt, fln), why='fgets() result tested for NULL first')

    # ---- (c) resources -------------------------------------------------------------------------
    rm = ResourceModel(summ)
    chk.coverage_extra['constructors_discovered'] = sorted(rm.ctors)
    chk.coverage_extra['destructors_discovered'] = sorted(rm.dtors)
    if len(rm.ctors) < 10 or len(rm.dtors) < 6:
        raise AnalysisBroken('resource model discovered %d constructors / %d destructors; at least 10 / 6 are confirmed by hand' % (
            len(rm.ctors), len(rm.dtors)))
    # ownership sinks the rest of the analysis relies on (frozen, confirmed by reading): each must consume its argument
    SINKS = {'Crystal_ArrayFree': 0, 'Crystal_Free': 0, 'xrl_error_free': 0, 'FreeCompoundDataNIST': 0, 'FreeCompoundData': 0,
             'xrlFree': 0, 'FreeRadioNuclideData': 0, 'xrl_propagate_error': 1}
    from xvlib.resources import FREE
    for sname, idx in sorted(SINKS.items()):
        f = summ.funcs.get(sname)
        if f is None or sname not in summ.paths:
            raise AnalysisBroken('ownership sink %s vanished' % sname)
        it = summ.interp[sname]
        prm = f['params'][idx]['name']
        bad_paths = 0
        for p in summ.paths[sname]:
            if it.interval_of(Rat.sym(prm), p).is_zero():
                continue
            rel = any(e.kind == 'call' and (e.name in FREE or e.name in rm.dtors) and e.args and e.args[0] is not None and
                      e.args[0].canon() == prm for e in p.events)
            handed = any(e.kind == 'store' and e.value is not None and e.value.canon() == prm and e.lv.startswith('*') for e in p.events)
            if not (rel or handed):
                bad_paths += 1
        chk.decide(bad_paths == 0, 'sink-consumes', f['unit'], sname, 'argument %s' % prm, '%s:%d' % (f['rel'], f['ln']),
                   '%s is relied upon to take ownership of %s, but on %d path(s) with a non-NULL argument it neither releases it nor '
                   'stores it into the destination: the object leaks' % (sname, prm, bad_paths),
                   why='released or handed over on every path with a non-NULL argument')
    nalloc = 0
    for name in sorted(summ.paths):
        f = summ.funcs[name]
        seen = set()
        exits = {}
        for p in summ.paths[name]:
            if p.status not in ('ret', 'end'):
                continue
            r = rm.analyse_path(name, p)
            ln = p.ret_node['ln'] if p.ret_node else f['ln']
            allocs = [e for e in p.events if e.kind == 'call' and (rm.is_alloc(e.name) or e.name in ('realloc', 'vasprintf'))]
            for e in allocs:
                k = (e.name, e.node['ln'], ln)
                exits.setdefault(k, True)
            for s, ev in r['leaks']:
                exits[(ev.name, ev.node['ln'], ln)] = False
            for s, ev in r['double']:
                inst = 'double-release %s@%d' % (ev.name, ev.node['ln'])
                if inst not in seen:
                    seen.add(inst)
                    chk.bad('release-once', f['unit'], name, inst, '%s:%d' % (f['rel'], ev.node['ln']),
                            'the object %s is released a second time here' % s[:80])
            for s, ev in r['uaf']:
                inst = 'use-after-release %s@%d' % (ev.name, ev.node['ln'])
                if inst not in seen:
                    seen.add(inst)
                    chk.bad('no-use-after-release', f['unit'], name, inst, '%s:%d' % (f['rel'], ev.node['ln']),
                            'the object %s is passed to %s after it was released' % (s[:80], ev.name))
        for (an, aln, eln), ok in sorted(exits.items()):
            nalloc += 1
            chk.decide(ok, 'release-on-all-exits', f['unit'], name, 'resource=%s@%d exit@%d' % (an, aln, eln), '%s:%d' % (f['rel'], eln),
                       'the object obtained from %s() at line %d is still owned by this function when it returns at line %d: it is '
                       'neither released, returned nor stored into caller-visible storage on this path' % (an, aln, eln),
                       why='released, returned or handed to the caller')
    chk.floor('(allocation, exit) pairs', nalloc, 60)

    # ---- (c') functions outside the path budget: flow-sensitive may-leak analysis ------------------
    from xvlib.mayleak import MayLeak
    for fname in SKIP:
        f = prog.func(fname)
        exits = MayLeak(f, ctors=rm.ctors, dtors=rm.dtors).run()
        # stable exit names: the message of the error stored in the same block + its occurrence number
        blocks = {}

        def index_blocks(n):
            if isinstance(n, dict):
                if n.get('k') == 'CompoundStmt':
                    msg = None
                    for st in n.get('c', []):
                        if st.get('k') == 'CallExpr' and st.get('callee', '').startswith('xrl_set_error'):
                            lits = [strip_casts(a).get('val') for a in st['args'] if strip_casts(a).get('k') == 'StringLiteral']
                            msg = lits[0] if lits else None
                        if st.get('k') == 'ReturnStmt':
                            blocks[id(st)] = msg
                from xvlib.facts import children
                for c in children(n):
                    index_blocks(c)
        index_blocks(f['body'])
        count = {}
        chk.floor('exits of %s analysed by the may-leak rule' % fname, len(exits), 1)
        for rn, leaked in exits:
            msg = blocks.get(id(rn))
            label = ('error "%s"' % msg[:60]) if msg else ('return %s' % show(rn['c'][0]) if rn.get('c') else 'return')
            count[label] = count.get(label, 0) + 1
            inst = 'exit[%s #%d]' % (label, count[label])
            vars_ = sorted({v for v, _ in leaked})
            chk.decide(not vars_, 'release-on-all-exits', f['unit'], fname, '%s leaks=%s' % (inst, ','.join(vars_)),
                       '%s:%d' % (f['rel'], rn['ln']),
                       'on some route to this exit the local allocations %s (allocated at lines %s) are neither released nor handed over' % (
                           vars_, sorted({l for _, l in leaked})), why='no local allocation outstanding at this exit')

    # ---- (d) NULL contradiction ----------------------------------------------------------------
    fam = {}
    for name, f in summ.funcs.items():
        if f['static']:
            continue
        for prm in f['params']:
            if prm['T'].endswith('*') and not prm['T'].endswith('**') and 'char' not in prm['T'] and 'void' not in prm['T']:
                checked = any(n.get('k') == 'BinaryOperator' and n.get('op') in ('==', '!=') and
                              {show(strip_casts(n['c'][0])), show(strip_casts(n['c'][1]))} >= {prm['name']} and
                              any(strip_casts(x).get('val') == 0 or strip_casts(x).get('v') == 0 for x in n['c'])
                              for n in walk(f['body']))
                fam.setdefault(prm['T'], []).append((name, prm['name'], checked))
    for (fn, pname, ln, col), (ok, txt) in sorted(derefs.items()):
        f = summ.funcs[fn]
        if f['static']:
            continue
        T = next((prm['T'] for prm in f['params'] if prm['name'] == pname), None)
        members = fam.get(T, [])
        if not any(c for _, _, c in members):
            continue            # nobody in this family checks: NULL is simply not an accepted value
        chk.decide(ok, 'null-checked-family', f['unit'], fn, '%s@%d:%s' % (pname, ln, txt), '%s:%d' % (f['rel'], ln),
                   'parameter %s (type %s, checked for NULL by %s) is dereferenced in "%s" on a path that neither tests it nor passed it '
                   'to a callee that rejects NULL' % (pname, T, sorted({m for m, _, c in members if c})[:4], txt),
                   why='dominated by a NULL test or by a succeeded callee that rejects NULL')

    # ---- (e) scanf widths ------------------------------------------------------------------------
    nscan = 0
    for name, f in summ.funcs.items():
        for c in [x for x in walk(f['body']) if x.get('k') == 'CallExpr' and x.get('callee') in ('sscanf', 'fscanf', 'scanf')]:
            a = c['args']
            fi = 0 if c['callee'] == 'scanf' else 1
            fmt = strip_casts(a[fi]).get('val')
            if fmt is None:
                chk.inconclusive('scanf-width', '%s:%d' % (f['rel'], c['ln']), 'non-literal format')
                continue
            convs = re.findall(r'%(\*?)(\d*)(?:hh|h|ll|l|L)?([a-zA-Z\[])', fmt)
            argi = fi + 1
            for star, width, conv in convs:
                if star:
                    continue
                if argi >= len(a):
                    break
                dst = strip_casts(a[argi])
                argi += 1
                if conv in ('s', '['):
                    nscan += 1
                    ext = extent_of(dst) if dst.get('k') in ('DeclRefExpr', 'MemberExpr') else None
                    ok = width != '' and ext is not None and int(width) < ext
                    chk.decide(ok, 'scanf-width', f['unit'], name, '%%%s%s -> %s' % (width, conv, show(dst)), '%s:%d' % (f['rel'], c['ln']),
                               'string conversion %%%s%s writes into %s (extent %s): the width must be present and smaller than the extent' % (
                                   width, conv, show(dst), ext), why='width %s < extent %s' % (width, ext))
    chk.coverage_extra['scanf_string_conversions'] = nscan

    # ---- (f) memcpy size = allocation size ------------------------------------------------------
    nm = 0
    for name in sorted(summ.paths):
        f = summ.funcs[name]
        it = summ.interp[name]
        seen = set()
        for p in summ.paths[name]:
            allocs = {}
            for e in p.events:
                if e.kind == 'call' and e.name in ('malloc', 'calloc') and e.result is not None:
                    allocs[e.result.canon()] = e
                if e.kind == 'call' and e.name == 'memcpy' and len(e.args) == 3 and e.args[0] is not None:
                    d = e.args[0].canon()
                    if d in allocs and (e.node['ln'], e.node.get('col')) not in seen:
                        seen.add((e.node['ln'], e.node.get('col')))
                        nm += 1
                        al = allocs[d]
                        size = al.args[0] if al.name == 'malloc' else al.args[0] * al.args[1]
                        diff = size - e.args[2]
                        ok = diff.is_zero() or nonneg(it, p, diff)
                        chk.decide(ok, 'copy-fits-allocation', f['unit'], name, 'memcpy@%d' % e.node['ln'], '%s:%d' % (f['rel'], e.node['ln']),
                                   'memcpy writes %s bytes into a block allocated with %s bytes' % (e.args[2].canon()[:80], size.canon()[:80]),
                                   why='copied size equals the allocated size')
    chk.floor('memcpy into fresh allocations', nm, 12)
    allocation_sizes(prog, chk, summ)
    destructor_arguments(prog, chk, summ)
    use_after_helper_release(prog, chk, summ)
    spline_rows(prog, chk, tier)
    destructors(prog, chk)
    return chk


def allocation_sizes(prog, chk, summ):
    """(f2) every malloc/calloc/realloc whose result becomes a T* (T not a character type) asks for a whole number of T objects: the
    size is a sum of products that each contain sizeof(T).  `n + k * sizeof(T)` (lost parentheses) or `n * sizeof(U)` for another U
    sizes the block in the wrong unit, and the element stores that follow run past it."""
    def strip(n):
        while isinstance(n, dict) and n.get('k') in ('ParenExpr', 'ImplicitCastExpr', 'CStyleCastExpr') and n.get('c'):
            n = n['c'][0]
        return n

    def norm_t(t):
        return re.sub(r'\s+', ' ', (t or '').replace('const ', '')).strip()

    def whole(n, T):
        n = strip(n)
        k = n.get('k')
        if k == 'UnaryExprOrTypeTraitExpr':
            return norm_t(n.get('argT')) == T
        if k == 'BinaryOperator' and n.get('op') == '*':
            return whole(n['c'][0], T) or whole(n['c'][1], T)
        if k == 'BinaryOperator' and n.get('op') in ('+', '-'):
            return whole(n['c'][0], T) and whole(n['c'][1], T)
        return False

    n_sites = 0
    for f in prog.src_funcs():
        if not f['unit'].startswith('src/'):
            continue

        def rec(node, parents):
            nonlocal n_sites
            if isinstance(node, list):
                for v in node:
                    rec(v, parents)
                return
            if not isinstance(node, dict):
                return
            if node.get('k') == 'CallExpr' and node.get('callee') in ('malloc', 'calloc', 'realloc'):
                # the first enclosing node that gives the block a pointer type other than void *
                T = None
                for par in reversed(parents):
                    t = norm_t(par.get('T') or (par.get('var') or {}).get('T') if isinstance(par.get('var'), dict) else par.get('T'))
                    if par.get('k') in ('ParenExpr', 'ImplicitCastExpr') and t in ('void *', ''):
                        continue
                    if t.endswith('*') and t != 'void *':
                        T = norm_t(t[:-1])
                    break
                a = node['args']
                size = {'malloc': a[:1], 'realloc': a[1:2], 'calloc': a[:2]}[node['callee']]
                if T is not None and T not in ('char', 'unsigned char', 'signed char', 'void'):
                    n_sites += 1
                    ok = any(whole(x, T) for x in size) if node['callee'] == 'calloc' else whole(size[0], T)
                    if not ok and f['name'] in summ.paths:
                        # the size may be held in a variable: take its value on every analysed path that reaches the call
                        evs = [e for p_ in summ.paths[f['name']] for e in p_.events if e.kind == 'call' and e.node is node]
                        def poly_whole(r):
                            return r is not None and r.d.is_const() and bool(r.n.monomials()) and \
                                all(any(x == 'sizeof(%s)' % T for x, _ in mono) for mono in r.n.monomials())
                        idx = {'malloc': [0], 'realloc': [1], 'calloc': [0, 1]}[node['callee']]
                        ok = bool(evs) and all(any(poly_whole(e.args[i]) for i in idx if i < len(e.args)) for e in evs)
                    chk.decide(ok, 'allocation-whole-elements', f['unit'], f['name'], '%s@%d -> %s *' % (node['callee'], node['ln'], T),
                               '%s:%d' % (f['rel'], node['ln']),
                               'the block becomes a %s * but its size %s is not a whole number of sizeof(%s): every term of the size must carry that factor' % (
                                   T, ' x '.join(show(x)[:70] for x in size), T), why='size is a multiple of sizeof(%s)' % T)
            for k_, v in node.items():
                if isinstance(v, (dict, list)) and k_ != 'T':
                    rec(v, parents + [node])
        rec(f['body'], [])
    chk.floor('typed allocation sites', n_sites, 60)


def destructor_arguments(prog, chk, summ):
    """(h2) a documented free function releases every pointer field of the record it is given.  When the record is a block this very
    path obtained from malloc() (not calloc), each of those fields must have been assigned before the call: otherwise free() is
    handed whatever the heap block contained (invalid or double free on a failure exit taken before the members were allocated)."""
    dtors = {}
    for fname in ('FreeCompoundData', 'FreeCompoundDataNIST', 'FreeRadioNuclideData', 'Crystal_Free'):
        f = prog.func(fname, required=False)
        if f is None or not f.get('params'):
            continue
        t = f['params'][0]['T'].replace('struct ', '').replace('*', '').strip()
        rec = prog.record(t)
        if rec is None:
            continue
        pn = f['params'][0]['name']
        freed = {show(c['args'][0]).split('->')[-1] for c in calls_in(f['body'], 'free') if '->' in show(c['args'][0])}
        dtors[fname] = sorted(fl['name'] for fl in rec['fields'] if fl['ptr'] and fl['name'] in freed)
    n = 0
    seen = {}
    for name in sorted(summ.paths):
        f = summ.funcs[name]
        for p in summ.paths[name]:
            raw = {}
            stored = set()
            for e in p.events:
                if e.kind == 'call' and e.name in ('malloc', 'xrl_malloc') and e.result is not None:
                    raw[e.result.canon()] = e
                elif e.kind == 'store' and e.lv:
                    stored.add(e.lv)
                elif e.kind == 'call' and e.name in ('memcpy', 'memmove') and e.args and e.args[0] is not None:
                    stored.add('*' + e.args[0].canon())          # whole-record copy initialises every field
                elif e.kind == 'call' and e.name in dtors and e.args and e.args[0] is not None and e.args[0].canon() in raw:
                    x = e.args[0].canon()
                    whole = ('*' + x) in stored or ('*(%s)' % x) in stored
                    missing = [fl for fl in dtors[e.name] if not whole and '(%s).%s' % (x, fl) not in stored]
                    key = (name, e.node['ln'], e.node.get('col'))
                    prev = seen.get(key)
                    if prev is None or (missing and not prev[0]):
                        seen[key] = (missing, e.name, raw[x].node['ln'])
    for (name, ln, col), (missing, dn, aln) in sorted(seen.items()):
        f = summ.funcs[name]
        n += 1
        chk.decide(not missing, 'destructor-on-initialised', f['unit'], name, '%s@%d' % (dn, ln), '%s:%d' % (f['rel'], ln),
                   '%s() releases the members %s of the record allocated with malloc() at line %d, but on some path they have not been assigned yet: '
                   'free() gets the previous content of the heap block' % (dn, missing, aln), why='every member that %s frees was assigned first' % dn)
    chk.floor('destructor calls on records allocated on the same path', n, 1)


def use_after_helper_release(prog, chk, summ):
    """(c2) use after release through a helper.  Summary of every function: the cells it hands to free(), written relative to its
    parameters (a loop index becomes a wildcard), e.g. Crystal_ReadFile_Undo releases <p0>.crystal[*].name and .atom.  In a caller,
    after such a call, the values that were stored into matching cells earlier on the path are dangling: passing one of them to any
    later call (a message formatter, strlen, free again) reads or frees released memory."""
    from rules.c14 import nl
    summaries = {}
    for name in summ.paths:
        f = summ.funcs[name]
        ps = [q['name'] for q in f['params']]
        pats = set()
        for p in summ.paths[name]:
            for e in p.events:
                if e.kind == 'call' and e.name in ('free', 'xrl_free') and e.args and e.args[0] is not None:
                    c = nl(e.args[0].canon())
                    m = re.match(r'^(\w+)((?:\.|\[).*)$', c)
                    if m and m.group(1) in ps and '.' in m.group(2):
                        pats.add((ps.index(m.group(1)), re.sub(r'\[[^\]]*@L\d+[^\]]*\]', '[*]', m.group(2))))
        if pats:
            summaries[name] = pats
    chk.coverage_extra['release_summaries'] = {k: sorted('p%d%s' % x for x in v) for k, v in sorted(summaries.items())}
    n = 0
    seen = {}
    for name in sorted(summ.paths):
        f = summ.funcs[name]
        for p in summ.paths[name]:
            cells = {}
            dangling = {}
            released_rx = []
            for e in p.events:
                if e.kind == 'store' and e.lv and e.value is not None:
                    cells[nl(e.lv)] = e.value.canon()
                    continue
                if e.kind != 'call':
                    continue
                if dangling and e.name not in summaries:
                    for a in e.args or []:
                        if a is None:
                            continue
                        ac = a.canon()
                        hit = [d for d in dangling if d == ac or (len(d) > 8 and d in ac)]
                        if not hit:
                            # the cell itself is read again after the helper released what it held (its content was havocked by the call)
                            cell_txt = nl(re.sub(r'@\d+$', '', ac))
                            for rx_, info_ in released_rx:
                                if rx_.match(cell_txt):
                                    dangling[ac] = info_ + (cell_txt,)
                                    hit = [ac]
                                    break
                        if hit:
                            key = (name, e.node['ln'], e.node.get('col'))
                            seen[key] = (False, e.name, hit[0], dangling[hit[0]])
                if e.name in summaries and e.args:
                    for k, suffix in summaries[e.name]:
                        if k >= len(e.args) or e.args[k] is None:
                            continue
                        base = nl(e.args[k].canon())
                        rx = re.compile('^' + re.escape(base + suffix).replace(re.escape('[*]'), r'\[[^\]]*\]') + '$')
                        released_rx.append((rx, (e.name, e.node['ln'])))
                        for cell, val in cells.items():
                            if rx.match(cell) and val not in ('0', 'NULL') and not re.match(r'^-?\d+$', val):
                                dangling[val] = (e.name, e.node['ln'], cell)
                    key = (name, e.node['ln'], e.node.get('col'))
                    seen.setdefault(key, (True, e.name, None, None))
    for (name, ln, col), (ok, callee, val, info) in sorted(seen.items()):
        f = summ.funcs[name]
        n += 1
        if ok:
            chk.ok('use-after-release', '%s:%s@%d' % (name, callee, ln), 'nothing released by %s is used later on any path' % callee, '%s:%d' % (f['rel'], ln))
        else:
            chk.bad('use-after-release', f['unit'], name, '%s(... %s ...)@%d' % (callee, val[:40], ln), '%s:%d' % (f['rel'], ln),
                    '%s() is handed %s, the object stored in %s, after %s() at line %d released it: released memory is read (or freed again)' % (
                        callee, val[:60], info[2], info[0], info[1]))
    chk.floor('calls of releasing helpers', n, 5)


def destructors(prog, chk):
    """(h) "every object it hands out can be released exactly once with its documented free function, after which the
    process holds no memory": each documented free function releases every pointer field of its record, each once, and the
    record last (the structural rule C15 applies to the two catalogue records, applied here to all four record types)."""
    from rules import c15
    n = 0
    for fname in ('FreeCompoundData', 'FreeCompoundDataNIST', 'FreeRadioNuclideData', 'Crystal_Free'):
        f = prog.func(fname, required=False)
        if f is None or not f.get('params'):
            chk.bad('destructor-complete', 'include/xraylib.h', fname, 'defined', 'include/xraylib.h', 'documented free function %s is not defined' % fname)
            continue
        t = f['params'][0]['T'].replace('struct ', '').replace('*', '').strip()
        rec = prog.record(t)
        if rec is None:
            chk.inconclusive('destructor-complete', fname, 'record type %s not found' % t)
            continue
        shim = Check('C04', 'quick', 'other', '', [], [])
        c15.destructor(prog, shim, f, rec, f['unit'])
        for rule, inst, why, loc in shim.held:
            n += 1
            chk.ok('destructor-complete', inst, why, loc)
        for v in shim.violations:
            n += 1
            chk.bad('destructor-complete', v['unit'], v['function'], v['instance'], v['loc'], v['message'])
    chk.floor('destructor obligations', n, 15)


def nonneg(it, p, d, depth=0):
    """d >= 0 on this path: by its interval, after dividing out a positive common factor (sizeof), or after taking out a
    sub-expression that is known to be non-negative (a fact, or the array invariant n_alloc - n_crystal)."""
    iv = it.interval_of(d, p)
    if iv.lo is not None and iv.lo >= 0:
        return True
    if depth > 3 or not d.d.is_const():
        return False
    syms = sorted(d.n.symbols())
    # common positive factor
    for s_ in syms:
        if not s_.startswith('sizeof('):
            continue
        if all(any(x == s_ for x, _ in mono) for mono in d.n.monomials()):
            from xvlib.normform import Poly
            qt = {}
            for mono, coef in d.n.monomials().items():
                m2 = tuple((x, pw - 1) if x == s_ else (x, pw) for x, pw in mono)
                qt[tuple((x, pw) for x, pw in m2 if pw)] = coef
            return nonneg(it, p, Rat(Poly(qt), d.d), depth + 1)
    # take out X.n_alloc - X.n_crystal
    for s_ in syms:
        if s_.endswith('.n_alloc'):
            base = s_[:-len('.n_alloc')]
            if base + '.n_crystal' in syms:
                k_ = Rat.sym(s_) - Rat.sym(base + '.n_crystal')
                rest = d - k_
                if len(rest.n.symbols()) < len(syms):
                    return nonneg(it, p, rest, depth + 1)
    return False


def _parse_linear(key):
    """Rat of a canonical key string that is a sum of (coefficient *) products of atoms; None when it is anything else."""
    def split(txt, sep):
        out, depth, cur, i = [], 0, '', 0
        while i < len(txt):
            ch = txt[i]
            if ch in '([':
                depth += 1
            elif ch in ')]':
                depth -= 1
            if depth == 0 and txt.startswith(sep, i):
                out.append(cur)
                cur = ''
                i += len(sep)
                continue
            cur += ch
            i += 1
        out.append(cur)
        return out
    total = Rat.const(0)
    for term in split(key, ' + '):
        r = Rat.const(1)
        for fac in split(term, '*'):
            fac = fac.strip()
            if re.match(r'^-?\d+(/\d+)?$', fac):
                r = r * Rat.const(Fraction(fac))
            elif fac and '^' not in fac and not fac.startswith('('):
                r = r * Rat.sym(fac)
            else:
                return None
        total = total + r
    return total


def nonneg_split(it, p, d, env=None, depth=0):
    """d >= 0 by linear reasoning over the path's facts: divide out a common sizeof factor; then d = c * K + rest for a fact K in [lo, hi]
    gives d >= c * lo + rest (c > 0) or c * hi + rest (c < 0); the array invariant n_alloc - n_crystal >= 0 counts as a fact.  `env`
    holds values of const-qualified globals that facts may still mention by name."""
    from xvlib.normform import Poly
    if not d.d.is_const() or depth > 5:
        return False
    for s_ in sorted(d.n.symbols()):
        if s_.startswith('sizeof(') and all(any(x == s_ for x, _ in mono) for mono in d.n.monomials()):
            qt = {}
            for mono, coef in d.n.monomials().items():
                m2 = tuple((x, pw - 1) if x == s_ else (x, pw) for x, pw in mono)
                qt[tuple((x, pw) for x, pw in m2 if pw)] = coef
            d = Rat(Poly(qt), d.d)
            break
    iv = it.interval_of(d, p)
    if iv.lo is not None and iv.lo >= 0:
        return True
    syms = d.n.symbols()
    if not syms:
        return False
    cands = []
    for s_ in sorted(syms):
        if s_.endswith('.n_alloc'):
            cands.append((Rat.sym(s_) - Rat.sym(s_[:-len('.n_alloc')] + '.n_crystal'), Interval(Fraction(0), None)))
        siv = it.interval_of(Rat.sym(s_), p)
        if siv.lo is not None or siv.hi is not None:
            cands.append((Rat.sym(s_), siv))
    for key, fiv in list(p.facts.items()):
        if not any(x in key for x in syms):
            continue
        k = _parse_linear(key)
        if k is None:
            continue
        kenv = {x: env(x) for x in k.n.symbols() if env and env(x) is not None}
        if kenv:
            k = subst(k, kenv)
        if k.n.symbols():
            cands.append((k, fiv))
    lin = {m[0][0]: c for m, c in d.n.monomials().items() if len(m) == 1 and m[0][1] == 1}
    for k, fiv in cands:
        klin = {m[0][0]: c for m, c in k.n.monomials().items() if len(m) == 1 and m[0][1] == 1}
        if not klin or any(len(m) > 1 or (m and m[0][1] != 1) for m in k.n.monomials()):
            continue
        for sym, kc in klin.items():
            if sym not in lin:
                continue
            c = Fraction(lin[sym]) / Fraction(kc) / Fraction(d.d.const_value()) * Fraction(k.d.const_value())
            bound = fiv.lo if c > 0 else fiv.hi
            if bound is None:
                continue
            rest = d - k * Rat.const(c) + Rat.const(c * bound)
            if len(rest.n.symbols()) <= len(syms) and nonneg_split(it, p, rest, env, depth + 1):
                return True
    return False


def spline_rows(prog, chk, tier):
    """(g) extent of the rows handed to the spline kernel: splint reads n knots of each of its three row pointers. The
    generated tables hold n = N[Z] (resp. N[Z][shell]) elements in a row only when the element / sub-shell has data;
    otherwise the row is a one-element placeholder.  So every call site must be dominated by the family's "has data"
    test on the very count / occupancy that sizes the rows (the same site analysis as C02, read here as an extent rule)."""
    from rules import c02
    shim = Check('C04', tier, 'other', '', [], [])
    fams = c02.derive_families(prog) + c02.FROZEN_FAMILIES
    c02.sites(prog, shim, fams)
    n = 0
    for rule, inst, why, loc in shim.held:
        if rule == 'site-no-data-guard':
            n += 1
            chk.ok('spline-row-extent', inst, 'the rows have the n elements that splint reads: ' + why, loc)
    for v in shim.violations:
        if v['rule'] == 'site-no-data-guard':
            n += 1
            chk.bad('spline-row-extent', v['unit'], v['function'], v['instance'], v['loc'],
                    'splint reads n elements of each row it is given, but this call is reached for elements / sub-shells whose rows are one-element '
                    'placeholders (no dominating "has data" test on the count or occupancy that sizes the rows): out-of-bounds read of the data tables')
    chk.floor('spline call sites with a row-extent obligation', n, 20)
