"""C10 - grouped line energies and rates are the stated averages of their member lines.

Decided on the abstract paths of LineEnergy, LineEnergyComposed and RadRate (E1) with return values in exact
normal form (E2); expected member sets are derived from the macro names of the current headers (E3)."""
from fractions import Fraction

from xvlib.core import Check
from xvlib.frontend import AnalysisBroken
from xvlib.absint import run_function, Inconclusive
from xvlib.facts import show, walk
from xvlib.names import Names
from xvlib.normform import Rat, Poly
from xvlib import datafiles, inittab


def point(it, st, sym):
    iv = it.interval_of(Rat.sym(sym), st)
    if iv.lo is not None and iv.lo == iv.hi and not iv.los and not iv.his:
        return int(iv.lo)
    return None


def sets_error(st):
    return [e for e in st.events if e.kind == 'call' and e.name in ('xrl_set_error_literal', 'xrl_set_error')]


def run(prog, tier):
    chk = Check('C10', tier, 'proof',
                'Every group branch of LineEnergy / RadRate is enumerated as an abstract path; the value returned on '
                'each path is compared, as an exact rational function over table cells and calls, with the average '
                'the property states, with member sets computed from the macro names in the headers.',
                ['clang 14 front end via xrl-facts', 'E1 path enumeration (xvlib/absint.py): loops over constant bounds are '
                 'unrolled exactly', 'E2 exact rational normal forms (xvlib/normform.py)',
                 'E3 name-derived member sets (xvlib/names.py)', 'reader of data/radrate.dat for don\'t-care members'],
                ['group members that have no radiative rate for any element in data/radrate.dat are don\'t-cares'])
    chk.exhaustive = True
    names = Names(prog)
    U = 'src/fluor_lines.c'
    rates_present = set()
    for z, nm, val in datafiles.triples(prog.repo, 'radrate.dat'):
        if float(val) > 0:
            rates_present.add(nm)
    energies_present = set(nm for z, nm, val in datafiles.triples(prog.repo, 'fluor_lines.dat') if float(val) > 0)
    chk.floor('line names with a rate', len(rates_present), 100)

    LE = prog.func('LineEnergy', unit=U)
    it, paths = run_function(prog, LE)
    by_line = {}
    for p in paths:
        by_line.setdefault(point(it, p, LE['params'][1]['name']), []).append(p)
    zname = LE['params'][0]['name']

    def slot(n):
        return names.line_slot(n)

    def lv(n):
        return names.line_value[n]

    def composed_sym(a, b):
        return 'LineEnergyComposed(%s,%d,%d,error)' % (zname, lv(a), lv(b))

    # ---- doublets -----------------------------------------------------------------------------
    doublets = sorted(n for n in names.line_value if names.is_doublet(n))
    chk.floor('IUPAC doublet macros', len(doublets), 7)
    for d in doublets:
        ps = by_line.get(lv(d), [])
        mem = names.doublet_members(d)
        nonzero = [p for p in ps if p.ret is not None and not p.ret.is_zero()]
        loc = '%s:%d' % (U, nonzero[0].ret_node['ln']) if nonzero else '%s:%d' % (U, LE['ln'])
        if not ps:
            chk.bad('doublet-members', U, 'LineEnergy', d + '_LINE', loc, 'no path handles %s_LINE' % d)
            continue
        want = Rat.sym(composed_sym(mem[0], mem[1]))
        want2 = Rat.sym(composed_sym(mem[1], mem[0]))
        ok = len(nonzero) >= 1 and all(p.ret.equals(want) or p.ret.equals(want2) for p in nonzero)
        found = sorted({p.ret.canon() for p in nonzero})
        pretty = []
        for p in nonzero[:1]:
            pretty.append(show(p.ret_node))
        chk.decide(ok, 'doublet-members', U, 'LineEnergy', d + '_LINE', loc,
                   'branch line == %s_LINE must return LineEnergyComposed(Z, %s_LINE, %s_LINE) (members derived from the '
                   'macro name); found %s' % (d, mem[0], mem[1], pretty or found),
                   why='composes %s and %s' % (mem[0], mem[1]))
    # ---- LA -----------------------------------------------------------------------------------
    la = names.group_value.get('LA')
    ps = [p for p in by_line.get(la, []) if p.ret is not None and not p.ret.is_zero()]
    want = {Rat.sym(composed_sym('L3M4', 'L3M5')).canon(), Rat.sym(composed_sym('L3M5', 'L3M4')).canon()}
    chk.decide(bool(ps) and all(p.ret.canon() in want for p in ps), 'LA-members', U, 'LineEnergy', 'LA_LINE',
               '%s:%d' % (U, ps[0].ret_node['ln'] if ps else LE['ln']),
               'LA_LINE must be LineEnergyComposed(Z, L3M4_LINE, L3M5_LINE); found %s' % [show(p.ret_node) for p in ps[:2]],
               why='composes L3M4 and L3M5')

    # ---- KA / KB ------------------------------------------------------------------------------
    def weighted(slots):
        num = Rat.const(0)
        den = Rat.const(0)
        for s in slots:
            e = Rat.sym('LineEnergy_arr[%s][%d]' % (zname, s))
            r = Rat.sym('RadRate_arr[%s][%d]' % (zname, s))
            num = num + e * r
            den = den + r
        return num, den

    klines = names.lines_of_shell('K')
    ka_slots = [slot(n) for n in ('KL1', 'KL2', 'KL3')]
    kb_all = [n for n in klines if n not in ('KL1', 'KL2', 'KL3')]
    for grp, slots_required, slots_allowed in (
            ('KA', set(ka_slots), set(ka_slots)),
            ('KB', {slot(n) for n in kb_all if n in rates_present}, {slot(n) for n in kb_all})):
        gv = names.group_value[grp]
        ps = by_line.get(gv, [])
        good = [p for p in ps if p.ret is not None and not p.ret.is_zero()]
        loc = '%s:%d' % (U, good[0].ret_node['ln'] if good else LE['ln'])
        ok = False
        msg = 'no successful path'
        if len(good) == 1:
            r = good[0].ret
            used = set()
            for s_ in r.n.symbols() | r.d.symbols():
                if s_.startswith('RadRate_arr[%s][' % zname):
                    used.add(int(s_.split('][')[1].rstrip(']')))
            num, den = weighted(sorted(used))
            shape = r.equals(num / den)
            missing = sorted(slots_required - used)
            extra = sorted(used - slots_allowed)
            ok = shape and not missing and not extra
            inv = {v: k for k, v in ((n, slot(n)) for n in names.line_value)}
            msg = '%s energy must be the rate-weighted mean over %s; %s%s%s' % (
                grp, 'KL1..KL3' if grp == 'KA' else 'all K-M,N,O,P lines',
                '' if shape else 'the returned expression is not sum(E*R)/sum(R) over one slot set; ',
                'members with a shipped rate missing: %s; ' % [names.line_by_value[-s - 1] for s in missing] if missing else '',
                'foreign slots included: %s' % extra if extra else '')
            # failure path: sum of rates not positive -> error
        fails = [p for p in ps if p.ret is not None and p.ret.is_zero()]
        chk.decide(ok, '%s-energy' % grp, U, 'LineEnergy', grp + '_LINE', loc, msg,
                   why='rate-weighted mean over %d slots' % (len(slots_required)))
        chk.decide(bool(fails) and all(sets_error(p) for p in fails), '%s-energy' % grp, U, 'LineEnergy', grp + '_LINE no-rate',
                   loc, '%s with no member rate must be an error' % grp, why='error when the rate sum is not positive')
    # ---- KO / KP ------------------------------------------------------------------------------
    for g, first in (('KO', 'KO1'), ('KP', 'KP1')):
        if g not in names.line_value:
            continue
        ps = [p for p in by_line.get(lv(g), []) if p.ret is not None and not p.ret.is_zero()]
        want = Rat.sym('LineEnergy_arr[%s][%d]' % (zname, slot(first)))
        chk.decide(bool(ps) and all(p.ret.equals(want) for p in ps), 'KO-KP-first-member', U, 'LineEnergy', g + '_LINE',
                   '%s:%d' % (U, ps[0].ret_node['ln'] if ps else LE['ln']),
                   '%s_LINE must return the energy of its first member %s_LINE; found %s' % (g, first, [p.ret.canon() for p in ps]),
                   why='returns the energy of %s' % first)
    # ---- LB -----------------------------------------------------------------------------------
    lb = names.group_value['LB']
    ps = [p for p in by_line.get(lb, []) if p.ret is not None and not p.ret.is_zero()]
    lb_aliases = sorted(a for a in names.alias if a.startswith('LB') and a[2:].isdigit())
    lb_required = {names.alias[a] for a in lb_aliases}
    lb_required = set(sum((names.doublet_members(x) if False else [x] for x in lb_required), []))
    members_here = None
    if len(ps) == 1:
        r = ps[0].ret
        # collect (line value, shell value) pairs from the symbols
        import re
        pairs = set()
        for s_ in r.n.symbols() | r.d.symbols():
            m = re.match(r'^CS_FluorLine\(%s,(-?\d+),EdgeEnergy\(%s,(\d+),0\) \+ 1/10,0\)$' % (zname, zname), s_)
            if m:
                pairs.add((int(m.group(1)), int(m.group(2))))
        num = Rat.const(0)
        den = Rat.const(0)
        for lval, sh in sorted(pairs):
            w = Rat.sym('CS_FluorLine(%s,%d,EdgeEnergy(%s,%d,0) + 1/10,0)' % (zname, lval, zname, sh))
            num = num + Rat.sym('LineEnergy(%s,%d,0)' % (zname, lval)) * w
            den = den + w
        shape = bool(pairs) and r.equals(num / den)
        chk.decide(shape, 'LB-energy', U, 'LineEnergy', 'LB_LINE shape', '%s:%d' % (U, ps[0].ret_node['ln']),
                   'LB energy is not sum(E_i * CS_i)/sum(CS_i) with CS_i = CS_FluorLine(Z, line_i, EdgeEnergy(Z, shell_i)+0.1)',
                   why='cross-section-weighted mean over %d members' % len(pairs))
        members_here = set()
        for lval, sh in sorted(pairs):
            nm = names.line_by_value.get(lval)
            members_here.add(nm)
            src = names.parse_line(nm)[0] if nm and names.parse_line(nm) else None
            chk.decide(src is not None and names.shell_value.get(src) == sh, 'LB-member-shell', U, 'lb_pairs', '%s_LINE' % nm,
                       '%s:%d' % (U, LE['ln']),
                       'L-beta member %s is weighted with the fluorescence cross section just above the %s edge; its initial '
                       'vacancy is %s' % (nm, names.shell_by_value.get(sh), src), why='paired with its own shell %s' % src)
        missing = sorted(lb_required - members_here)
        chk.decide(not missing, 'LB-members', U, 'lb_pairs', 'aliases', '%s:%d' % (U, LE['ln']),
                   'L-beta members named LB<n> in xraylib.h but absent from the average: %s' % missing,
                   why='all %d LB<n> aliases are members' % len(lb_required))
    else:
        chk.bad('LB-energy', U, 'LineEnergy', 'LB_LINE shape', '%s:%d' % (U, LE['ln']), 'expected exactly one successful LB path, found %d' % len(ps))

    # ---- LineEnergyComposed -----------------------------------------------------------------------
    LC = prog.func('LineEnergyComposed', unit=U)
    it2, cp = run_function(prog, LC)
    z2, l1, l2 = (p['name'] for p in LC['params'][:3])
    E1, E2 = Rat.sym('LineEnergy(%s,%s,0)' % (z2, l1)), Rat.sym('LineEnergy(%s,%s,0)' % (z2, l2))
    R1, R2 = Rat.sym('RadRate(%s,%s,0)' % (z2, l1)), Rat.sym('RadRate(%s,%s,0)' % (z2, l2))
    wmean = (E1 * R1 + E2 * R2) / (R1 + R2)
    mean = (E1 + E2) / Rat.const(2)
    rets = [p for p in cp if p.ret is not None]
    got_w = [p for p in rets if p.ret.equals(wmean)]
    got_m = [p for p in rets if p.ret.equals(mean)]
    got_0 = [p for p in rets if p.ret.is_zero()]
    loc = '%s:%d' % (U, LC['ln'])
    chk.decide(len(got_w) == 1, 'composed-formula', U, 'LineEnergyComposed', 'weighted-mean', loc,
               'no path returns (E1*R1 + E2*R2)/(R1 + R2) with E_i = LineEnergy(Z, line_i), R_i = RadRate(Z, line_i); '
               'returned: %s' % [p.ret.canon() for p in rets], why='(E1*R1+E2*R2)/(R1+R2)')
    chk.decide(len(got_m) == 1, 'composed-formula', U, 'LineEnergyComposed', 'fallback-mean', loc,
               'no path returns the plain mean (E1 + E2)/2 when no rates exist; returned: %s' % [p.ret.canon() for p in rets],
               why='(E1+E2)/2')
    chk.decide(len(got_0) >= 1 and all(sets_error(p) for p in got_0) and len(rets) == len(got_w) + len(got_m) + len(got_0),
               'composed-formula', U, 'LineEnergyComposed', 'error', loc,
               'the remaining path must report an error and return 0; returned: %s' % [p.ret.canon() for p in rets],
               why='error + 0 otherwise')
    # guards: weighted mean taken iff E1R1+E2R2 > 0 ; mean iff E1+E2 > 0
    def guard_ok(p, expr, truth=True):
        for c, t in p.conds:
            if c.get('k') == 'BinaryOperator' and c['op'] == '>' and t is truth:
                try:
                    a = it2.eval(c['c'][0], p)
                    b = it2.eval(c['c'][1], p)
                    if (a - b).equals(expr):
                        return True
                except Exception:
                    pass
        return False
    if got_w:
        chk.decide(guard_ok(got_w[0], E1 * R1 + E2 * R2), 'composed-formula', U, 'LineEnergyComposed', 'weighted-guard', loc,
                   'the weighted mean is not guarded by E1*R1 + E2*R2 > 0', why='taken when the weighted sum is positive')
    if got_m:
        chk.decide(guard_ok(got_m[0], E1 + E2), 'composed-formula', U, 'LineEnergyComposed', 'mean-guard', loc,
                   'the plain mean is not guarded by E1 + E2 > 0', why='taken when a member has an energy')

    # ---- RadRate ----------------------------------------------------------------------------------
    RU = 'src/radrate.c'
    RR = prog.func('RadRate', unit=RU)
    it3, rp = run_function(prog, RR)
    zr, lr = RR['params'][0]['name'], RR['params'][1]['name']
    byl = {}
    for p in rp:
        byl.setdefault(point(it3, p, lr), []).append(p)

    def rr(n):
        return Rat.sym('RadRate_arr[%s][%d]' % (zr, slot(n)))
    ka = [p for p in byl.get(names.group_value['KA'], []) if p.ret is not None and not p.ret.is_zero()]
    chk.decide(len(ka) == 1 and ka[0].ret.equals(rr('KL1') + rr('KL2') + rr('KL3')), 'radrate-groups', RU, 'RadRate', 'KA_LINE',
               '%s:%d' % (RU, RR['ln']), 'K-alpha rate must be RadRate(KL1)+RadRate(KL2)+RadRate(KL3); found %s' % [p.ret.canon() for p in ka],
               why='sum of its three members')
    kb = [p for p in byl.get(names.group_value['KB'], []) if p.ret is not None and not p.ret.is_zero()]
    chk.decide(len(kb) == 1 and kb[0].ret.equals(Rat.const(1) - Rat.sym('RadRate(%s,%d,0)' % (zr, names.group_value['KA']))),
               'radrate-groups', RU, 'RadRate', 'KB_LINE', '%s:%d' % (RU, RR['ln']),
               'K-beta rate must be 1 - RadRate(Z, KA_LINE); found %s' % [p.ret.canon() for p in kb], why='complement of K-alpha')
    la_ = [p for p in byl.get(names.group_value['LA'], []) if p.ret is not None and not p.ret.is_zero()]
    chk.decide(len(la_) == 1 and la_[0].ret.equals(rr('L3M4') + rr('L3M5')), 'radrate-groups', RU, 'RadRate', 'LA_LINE',
               '%s:%d' % (RU, RR['ln']), 'L-alpha rate must be RadRate(L3M4)+RadRate(L3M5); found %s' % [p.ret.canon() for p in la_],
               why='sum of its two members')
    for g in ('KA', 'KB', 'LA', 'LB'):
        fails = [p for p in byl.get(names.group_value[g], []) if p.ret is not None and p.ret.is_zero()]
        chk.decide(bool(fails) and all(sets_error(p) for p in fails), 'radrate-groups', RU, 'RadRate', g + '_LINE failure',
                   '%s:%d' % (RU, RR['ln']), 'failure paths of %s must report an error' % g, why='error on every zero return')

    # ---- sibling L-beta member lists --------------------------------------------------------------
    siblings = lb_lists(prog, names)
    if members_here is not None:
        siblings['src/fluor_lines.c:lb_pairs'] = members_here
    chk.floor('L-beta member lists', len(siblings), 2)
    allm = set().union(*siblings.values())
    for where, mem in sorted(siblings.items()):
        for m in sorted(allm - mem):
            dont_care = m not in rates_present
            if dont_care:
                chk.ok('LB-siblings', '%s:%s' % (where, m), 'member %s has no shipped rate: don\'t-care' % m, nontrivial=False)
            else:
                chk.bad('LB-siblings', where.split(':')[0], where.split(':')[1], m, where.split(':')[0],
                        'L-beta member %s is summed in %s but missing here' % (m, sorted(k for k, v in siblings.items() if m in v)))
        for m in sorted(mem):
            chk.ok('LB-siblings', '%s:%s' % (where, m), 'present', nontrivial=False)
    return chk


def lb_lists(prog, names):
    """Member lists of the L-beta group in the sibling implementations (cs_line.c, the four Kissel line bodies):
    the line constants passed to calls inside the branch guarded by `line == LB_LINE`."""
    out = {}
    lbv = names.group_value['LB']
    cands = [('src/cs_line.c', prog.func('CS_FluorLine', unit='src/cs_line.c', required=False))]
    for f in prog.unit('src/kissel_pe.c')['functions']:
        if f['name'].startswith('CS_FluorLine_Kissel'):
            cands.append(('src/kissel_pe.c', f))
    for unit, f in cands:
        if not f:
            continue
        lp = f['params'][1]['name']
        mem = set()
        for n in walk(f['body']):
            if n.get('k') != 'IfStmt':
                continue
            c = n['cond']
            if c.get('k') == 'BinaryOperator' and c['op'] == '==' and \
                    {c['c'][0].get('name'), c['c'][1].get('name')} & {lp} and lbv in (c['c'][0].get('v'), c['c'][1].get('v')):
                for x in walk(n['then']):
                    if x.get('k') in ('CallExpr',) and len(x.get('args', [])) >= 2:
                        a = x['args'][1]
                        if 'v' in a and a['v'] in names.line_by_value and a['v'] < 0:
                            mem.add(names.line_by_value[a['v']])
        if mem:
            out['%s:%s' % (unit, f['name'])] = mem
    return out
