"""C10 - grouped line energies and rates are the stated averages of their member lines.

Decided on the abstract paths of LineEnergy, LineEnergyComposed and RadRate (E1) with return values in exact
normal form (E2); expected member sets are derived from the macro names of the current headers (E3)."""
from fractions import Fraction

from xvlib.core import Check
from xvlib.frontend import AnalysisBroken
from xvlib.absint import run_function, Inconclusive, Interval
from xvlib.facts import show, walk
from xvlib.names import Names
from xvlib.normform import Rat, Poly, subst
from xvlib import datafiles, inittab


def point(it, st, sym):
    iv = it.interval_of(Rat.sym(sym), st)
    if iv.lo is not None and iv.lo == iv.hi and not iv.los and not iv.his:
        return int(iv.lo)
    return None


def sets_error(st):
    return [e for e in st.events if e.kind == 'call' and e.name in ('xrl_set_error_literal', 'xrl_set_error')]


def run(prog, tier):
    chk = Check('C10', tier, 'proof',
                'Every group branch of LineEnergy / RadRate is enumerated as an abstract path; the value returned on '
                'each path is compared, as an exact rational function over table cells and calls, with the average '
                'the property states, with member sets computed from the macro names in the headers.',
                ['clang 14 front end via xrl-facts', 'E1 path enumeration (xvlib/absint.py): loops over constant bounds are '
                 'unrolled exactly', 'E2 exact rational normal forms (xvlib/normform.py)',
                 'E3 name-derived member sets (xvlib/names.py)', 'reader of data/radrate.dat for don\'t-care members'],
                ['group members that have no radiative rate for any element in data/radrate.dat are don\'t-cares'])
    chk.exhaustive = True
    names = Names(prog)
    U = 'src/fluor_lines.c'
    rates_present = set()
    for z, nm, val in datafiles.triples(prog.repo, 'radrate.dat'):
        if float(val) > 0:
            rates_present.add(nm)
    energies_present = set(nm for z, nm, val in datafiles.triples(prog.repo, 'fluor_lines.dat') if float(val) > 0)
    chk.floor('line names with a rate', len(rates_present), 100)

    LE = prog.func('LineEnergy', unit=U)
    it, paths = run_function(prog, LE)
    by_line = {}
    for p in paths:
        by_line.setdefault(point(it, p, LE['params'][1]['name']), []).append(p)
    zname = LE['params'][0]['name']

    def slot(n):
        return names.line_slot(n)

    def lv(n):
        return names.line_value[n]

    def composed_sym(a, b):
        return 'LineEnergyComposed(%s,%d,%d,error)' % (zname, lv(a), lv(b))

    # ---- doublets -----------------------------------------------------------------------------
    doublets = sorted(n for n in names.line_value if names.is_doublet(n))
    chk.floor('IUPAC doublet macros', len(doublets), 7)
    for d in doublets:
        ps = by_line.get(lv(d), [])
        mem = names.doublet_members(d)
        nonzero = [p for p in ps if p.ret is not None and not p.ret.is_zero()]
        loc = '%s:%d' % (U, nonzero[0].ret_node['ln']) if nonzero else '%s:%d' % (U, LE['ln'])
        if not ps:
            chk.bad('doublet-members', U, 'LineEnergy', d + '_LINE', loc, 'no path handles %s_LINE' % d)
            continue
        want = Rat.sym(composed_sym(mem[0], mem[1]))
        want2 = Rat.sym(composed_sym(mem[1], mem[0]))
        ok = len(nonzero) >= 1 and all(p.ret.equals(want) or p.ret.equals(want2) for p in nonzero)
        found = sorted({p.ret.canon() for p in nonzero})
        pretty = []
        for p in nonzero[:1]:
            pretty.append(show(p.ret_node))
        chk.decide(ok, 'doublet-members', U, 'LineEnergy', d + '_LINE', loc,
                   'branch line == %s_LINE must return LineEnergyComposed(Z, %s_LINE, %s_LINE) (members derived from the '
                   'macro name); found %s' % (d, mem[0], mem[1], pretty or found),
                   why='composes %s and %s' % (mem[0], mem[1]))
    # ---- LA -----------------------------------------------------------------------------------
    la = names.group_value.get('LA')
    ps = [p for p in by_line.get(la, []) if p.ret is not None and not p.ret.is_zero()]
    want = {Rat.sym(composed_sym('L3M4', 'L3M5')).canon(), Rat.sym(composed_sym('L3M5', 'L3M4')).canon()}
    chk.decide(bool(ps) and all(p.ret.canon() in want for p in ps), 'LA-members', U, 'LineEnergy', 'LA_LINE',
               '%s:%d' % (U, ps[0].ret_node['ln'] if ps else LE['ln']),
               'LA_LINE must be LineEnergyComposed(Z, L3M4_LINE, L3M5_LINE); found %s' % [show(p.ret_node) for p in ps[:2]],
               why='composes L3M4 and L3M5')

    # ---- KA / KB ------------------------------------------------------------------------------
    # Specification: members = the K lines of the group (slots); a member takes part iff it has an energy; the KO / KP slots carry
    # the rate of their whole group and take the energy of their first member; result = rate-weighted mean, else plain mean of the
    # member energies, else error.  Decided on the body of the accumulation loop (one generic member) and on the statement that
    # follows the loops.
    kgroup(prog, chk, LE, names, rates_present, U)
    # ---- KO / KP ------------------------------------------------------------------------------
    for g, first in (('KO', 'KO1'), ('KP', 'KP1')):
        if g not in names.line_value:
            continue
        ps = [p for p in by_line.get(lv(g), []) if p.ret is not None and not p.ret.is_zero()]
        want = Rat.sym('LineEnergy_arr[%s][%d]' % (zname, slot(first)))
        chk.decide(bool(ps) and all(p.ret.equals(want) for p in ps), 'KO-KP-first-member', U, 'LineEnergy', g + '_LINE',
                   '%s:%d' % (U, ps[0].ret_node['ln'] if ps else LE['ln']),
                   '%s_LINE must return the energy of its first member %s_LINE; found %s' % (g, first, [p.ret.canon() for p in ps]),
                   why='returns the energy of %s' % first)
    # ---- LB -----------------------------------------------------------------------------------
    members_here = lbgroup(prog, chk, LE, names, U)

    # ---- LineEnergyComposed -----------------------------------------------------------------------
    # Specification (members i = 1, 2 with energy E_i >= 0, 0 meaning "no energy", and rate R_i >= 0):
    #   present = {i : E_i > 0};  if sum_present E_i R_i > 0: that sum / sum_present R_i;  elif present: mean of E_present;  else error.
    # Every abstract path is a scenario (which members are present, which branch was taken); its result must be the specified one.
    LC = prog.func('LineEnergyComposed', unit=U)
    nonneg = Interval(Fraction(0), None)
    it2, cp = run_function(prog, LC, call_ranges={'LineEnergy': nonneg, 'RadRate': nonneg})
    z2, l1, l2 = (p['name'] for p in LC['params'][:3])
    E = [Rat.sym('LineEnergy(%s,%s,0)' % (z2, l1)), Rat.sym('LineEnergy(%s,%s,0)' % (z2, l2))]
    R = [Rat.sym('RadRate(%s,%s,0)' % (z2, l1)), Rat.sym('RadRate(%s,%s,0)' % (z2, l2))]
    loc = '%s:%d' % (U, LC['ln'])
    rets = [p for p in cp if p.ret is not None]
    chk.floor('LineEnergyComposed paths', len(rets), 3)
    seen = set()
    for p in rets:
        pres = []
        undecided = False
        for e_ in E:
            iv = it2.interval_of(e_, p)
            if iv.lo is not None and (iv.lo > 0 or (iv.lo == 0 and iv.los)):
                pres.append(True)
            elif iv.hi is not None and iv.hi <= 0:
                pres.append(False)
            else:
                pres.append(None)
                undecided = True
        inst = 'members present: %s' % ','.join({True: 'yes', False: 'no', None: '?'}[x] for x in pres)
        r = p.ret
        zero = {e_.canon(): Rat.const(0) for e_, pr in zip(E, pres) if pr is False}
        r0 = subst(r, zero) if zero else r
        num = Rat.const(0)
        den = Rat.const(0)
        cnt = 0
        tot = Rat.const(0)
        for e_, r_, pr in zip(E, R, pres):
            if pr:
                num = num + e_ * r_
                den = den + r_
                tot = tot + e_
                cnt += 1
        if r0.is_zero() and it2.is_zero(r, p):
            kind = 'error'
            ok = not any(pres) and not undecided and bool(sets_error(p))
            msg = 'the error exit is reached although a member line has an energy (or its presence is not tested), or no error is reported'
        else:
            wiv = it2.interval_of(num, p) if cnt else None
            weighted_taken = wiv is not None and wiv.lo is not None and (wiv.lo > 0 or (wiv.lo == 0 and wiv.los))
            if weighted_taken:
                kind = 'weighted'
                ok = not undecided and cnt > 0 and r0.equals(num / den)
                msg = 'with rates present the result must be sum(E_i R_i)/sum(R_i) over the members that HAVE an energy; found %s' % r.canon()[:200]
            else:
                kind = 'mean'
                # the plain mean is the specified result only when the path establishes that the present members carry no rate
                no_rates = cnt == 0 or (wiv is not None and wiv.hi is not None and wiv.hi <= 0)
                ok = not undecided and cnt > 0 and no_rates and r0.equals(tot / Rat.const(cnt))
                msg = ('without rates the result must be the plain mean of the member energies that are present (%d here), and that exit may only be taken '
                       'when sum(E_i R_i) over the present members is not positive%s; found %s' % (
                           cnt, '' if no_rates else ' (this path does not establish it: the branch condition is not the weighted sum of the members)', r.canon()[:200]))
        key = (kind, inst)
        if key in seen and ok:
            continue
        seen.add(key)
        chk.decide(ok, 'composed-formula', U, 'LineEnergyComposed', '%s %s' % (kind, inst), loc, msg,
                   why={'weighted': 'rate-weighted mean over the members present', 'mean': 'plain mean of the members present', 'error': 'error when no member has an energy'}[kind])
    kinds = {k for k, _ in seen}
    chk.decide({'weighted', 'mean', 'error'} <= kinds, 'composed-formula', U, 'LineEnergyComposed', 'all-three-outcomes', loc,
               'a composed line must have the three outcomes weighted mean / plain mean / error; found %s' % sorted(kinds), why='weighted, mean, error')

    # ---- RadRate ----------------------------------------------------------------------------------
    RU = 'src/radrate.c'
    RR = prog.func('RadRate', unit=RU)
    it3, rp = run_function(prog, RR)
    zr, lr = RR['params'][0]['name'], RR['params'][1]['name']
    byl = {}
    for p in rp:
        byl.setdefault(point(it3, p, lr), []).append(p)

    def rr(n):
        return Rat.sym('RadRate_arr[%s][%d]' % (zr, slot(n)))
    ka = [p for p in byl.get(names.group_value['KA'], []) if p.ret is not None and not p.ret.is_zero()]
    chk.decide(len(ka) == 1 and ka[0].ret.equals(rr('KL1') + rr('KL2') + rr('KL3')), 'radrate-groups', RU, 'RadRate', 'KA_LINE',
               '%s:%d' % (RU, RR['ln']), 'K-alpha rate must be RadRate(KL1)+RadRate(KL2)+RadRate(KL3); found %s' % [p.ret.canon() for p in ka],
               why='sum of its three members')
    kb = [p for p in byl.get(names.group_value['KB'], []) if p.ret is not None and not p.ret.is_zero()]
    chk.decide(len(kb) == 1 and kb[0].ret.equals(Rat.const(1) - Rat.sym('RadRate(%s,%d,0)' % (zr, names.group_value['KA']))),
               'radrate-groups', RU, 'RadRate', 'KB_LINE', '%s:%d' % (RU, RR['ln']),
               'K-beta rate must be 1 - RadRate(Z, KA_LINE); found %s' % [p.ret.canon() for p in kb], why='complement of K-alpha')
    la_ = [p for p in byl.get(names.group_value['LA'], []) if p.ret is not None and not p.ret.is_zero()]
    chk.decide(len(la_) == 1 and la_[0].ret.equals(rr('L3M4') + rr('L3M5')), 'radrate-groups', RU, 'RadRate', 'LA_LINE',
               '%s:%d' % (RU, RR['ln']), 'L-alpha rate must be RadRate(L3M4)+RadRate(L3M5); found %s' % [p.ret.canon() for p in la_],
               why='sum of its two members')
    for g in ('KA', 'KB', 'LA', 'LB'):
        fails = [p for p in byl.get(names.group_value[g], []) if p.ret is not None and p.ret.is_zero()]
        chk.decide(bool(fails) and all(sets_error(p) for p in fails), 'radrate-groups', RU, 'RadRate', g + '_LINE failure',
                   '%s:%d' % (RU, RR['ln']), 'failure paths of %s must report an error' % g, why='error on every zero return')

    # ---- sibling L-beta member lists --------------------------------------------------------------
    siblings = lb_lists(prog, names)
    if members_here is not None:
        siblings['src/fluor_lines.c:lb_pairs'] = members_here
    chk.floor('L-beta member lists', len(siblings), 2)
    allm = set().union(*siblings.values())
    for where, mem in sorted(siblings.items()):
        for m in sorted(allm - mem):
            dont_care = m not in rates_present
            if dont_care:
                chk.ok('LB-siblings', '%s:%s' % (where, m), 'member %s has no shipped rate: don\'t-care' % m, nontrivial=False)
            else:
                chk.bad('LB-siblings', where.split(':')[0], where.split(':')[1], m, where.split(':')[0],
                        'L-beta member %s is summed in %s but missing here' % (m, sorted(k for k, v in siblings.items() if m in v)))
        for m in sorted(mem):
            chk.ok('LB-siblings', '%s:%s' % (where, m), 'present', nontrivial=False)
    return chk


def lb_lists(prog, names):
    """Member lists of the L-beta group in the sibling implementations (cs_line.c, the four Kissel line bodies):
    the line constants passed to calls inside the branch guarded by `line == LB_LINE`."""
    out = {}
    lbv = names.group_value['LB']
    cands = [('src/cs_line.c', prog.func('CS_FluorLine', unit='src/cs_line.c', required=False))]
    for f in prog.unit('src/kissel_pe.c')['functions']:
        if f['name'].startswith('CS_FluorLine_Kissel'):
            cands.append(('src/kissel_pe.c', f))
    for unit, f in cands:
        if not f:
            continue
        lp = f['params'][1]['name']
        mem = set()
        for n in walk(f['body']):
            if n.get('k') != 'IfStmt':
                continue
            c = n['cond']
            if c.get('k') == 'BinaryOperator' and c['op'] == '==' and \
                    {c['c'][0].get('name'), c['c'][1].get('name')} & {lp} and lbv in (c['c'][0].get('v'), c['c'][1].get('v')):
                for x in walk(n['then']):
                    if x.get('k') in ('CallExpr',) and len(x.get('args', [])) >= 2:
                        a = x['args'][1]
                        if 'v' in a and a['v'] in names.line_by_value and a['v'] < 0:
                            mem.add(names.line_by_value[a['v']])
        if mem:
            out['%s:%s' % (unit, f['name'])] = mem
    return out


def lbgroup(prog, chk, LE, names, U):
    """L-beta: the members and their shells are the rows of the constant table lb_pairs; the loop must visit every row; one generic
    member takes part iff it has an energy, with weight CS_FluorLine(Z, line, EdgeEnergy(Z, shell) + 0.1); the result is the weighted
    mean, else the plain mean of the members that have an energy, else an error."""
    from xvlib.absint import Interp
    zname = LE['params'][0]['name']
    g = prog.global_def('lb_pairs', unit=U, required=False)
    loc0 = '%s:%d' % (U, LE['ln'])
    if g is None or 'init' not in g:
        chk.bad('LB-energy', U, 'LineEnergy', 'LB_LINE shape', loc0, 'the member table lb_pairs was not found')
        return set()
    rows = inittab.evaluate(g['init'])
    pairs = []
    for r_ in rows:
        vals = [x.value if hasattr(x, 'value') else x for x in r_]
        pairs.append((int(vals[0]), int(vals[1])))
    loops = [n for n in walk(LE['body']) if n.get('k') == 'ForStmt' and any(
        x.get('k') == 'DeclRefExpr' and x.get('name') == 'lb_pairs' for x in walk(n.get('body') or {}))]
    if len(loops) != 1:
        chk.bad('LB-energy', U, 'LineEnergy', 'LB_LINE shape', loc0, 'expected one loop over lb_pairs in LineEnergy, found %d' % len(loops))
        return set()
    lp = loops[0]
    loc = '%s:%d' % (U, lp['ln'])
    cond = lp.get('cond') or {}
    hi = cond['c'][1].get('v') if cond.get('c') and isinstance(cond['c'][1].get('v'), int) else None
    init0 = any(a.get('k') == 'BinaryOperator' and a.get('op') == '=' and a['c'][1].get('v') == 0 for a in walk(lp.get('init') or {}))
    chk.decide(init0 and cond.get('op') == '<' and hi == len(pairs), 'LB-energy', U, 'LineEnergy', 'LB_LINE all rows', loc,
               'the loop must visit every row of lb_pairs (%d rows); it runs from %s to %s %s' % (len(pairs), 0 if init0 else '?', cond.get('op'), hi),
               why='loop over the %d rows of lb_pairs' % len(pairs))
    ids = {}
    for n in walk(LE['body']):
        if n.get('k') == 'DeclStmt':
            for d in n.get('decls', []):
                ids[d['name']] = d['id']

    def frag(stmt):
        f2 = dict(LE)
        f2['body'] = stmt if stmt.get('k') == 'CompoundStmt' else {'k': 'CompoundStmt', 'c': [stmt]}
        it = Interp(prog, f2)
        it.assume_patterns = []
        it.call_ranges = {'LineEnergy': Interval(Fraction(0), None), 'CS_FluorLine': Interval(Fraction(0), None)}
        return it, it.run()
    it, paths = frag(lp['body'])
    ivar = [x for x in walk(lp.get('inc') or {}) if x.get('k') == 'DeclRefExpr'][0]['name']
    # temporaries declared inside the loop body live for one iteration only: they are not accumulators
    inner = {d['name'] for n in walk(lp['body']) if n.get('k') == 'DeclStmt' for d in n.get('decls', []) if isinstance(d, dict)}
    Ei = Rat.sym('LineEnergy(%s,lb_pairs[%s].line,0)' % (zname, ivar))
    Wi = Rat.sym('CS_FluorLine(%s,lb_pairs[%s].line,EdgeEnergy(%s,lb_pairs[%s].shell,0) + 1/10,0)' % (zname, ivar, zname, ivar))
    # which locals accumulate: weight sum / weighted sum / energy sum / count, identified by what a present member adds
    seen = set()
    for p in paths:
        if p.status not in ('end', 'cont', 'run'):
            continue
        eiv = it.interval_of(Ei, p)
        present = eiv.lo is not None and (eiv.lo > 0 or (eiv.lo == 0 and eiv.los))
        absent = eiv.hi is not None and eiv.hi <= 0
        delta = {}
        for nm, vid in ids.items():
            v = p.env.get(vid)
            if v is not None and nm not in (ivar, 'lE', 'tmp1', 'rr', 'line_energy', 'temp_line') and nm not in inner:
                dv = v - Rat.sym(nm)
                if not dv.is_zero():
                    delta[nm] = dv
        if absent:
            seen.add('absent')
            chk.decide(not delta, 'LB-energy', U, 'LineEnergy', 'LB_LINE member without energy', loc,
                       'a member line without an energy must not take part: neither its cross section nor a zero energy may be added; it changes %s' % sorted(delta),
                       why='skipped')
        elif present:
            seen.add('present')
            got = sorted(d.canon() for d in delta.values())
            want = sorted([Wi.canon(), (Ei * Wi).canon(), Ei.canon(), '1'])
            chk.decide(got == want, 'LB-energy', U, 'LineEnergy', 'LB_LINE member with energy', loc,
                       'a member with an energy must add its weight CS_FluorLine(Z, line, EdgeEnergy(Z, shell) + 0.1), energy x weight, its energy and a count of one; '
                       'it adds %s' % got, why='adds CS_i, E_i CS_i, E_i and 1')
        else:
            seen.add('untested')
            chk.bad('LB-energy', U, 'LineEnergy', 'LB_LINE member presence-untested', loc,
                    'the accumulation does not test whether the member line has an energy: a member with a cross section but no energy pulls the mean '
                    'towards 0 (L-beta of Os came out as 10.2997 keV instead of 10.413 keV)')
    chk.decide('present' in seen, 'LB-energy', U, 'LineEnergy', 'LB_LINE shape', loc, 'no path of the loop body adds a member', why='generic member analysed')
    # the statement after the loop
    parent = None
    for n in walk(LE['body']):
        if n.get('k') == 'CompoundStmt':
            kids = n.get('c', [])
            for j, k_ in enumerate(kids):
                if k_ is lp and j + 1 < len(kids):
                    parent = kids[j + 1]
    if parent is None:
        chk.bad('LB-energy', U, 'LineEnergy', 'LB result', loc, 'cannot find the statement that turns the sums into the result')
    else:
        # roles of the accumulators, from the present-member path
        roles = {}
        for p in paths:
            eiv = it.interval_of(Ei, p)
            if p.status in ('end', 'cont', 'run') and eiv.lo is not None and (eiv.lo > 0 or (eiv.lo == 0 and eiv.los)):
                for nm, vid in ids.items():
                    v = p.env.get(vid)
                    if v is None:
                        continue
                    dv = (v - Rat.sym(nm)).canon()
                    for role, w in (('W', Wi.canon()), ('EW', (Ei * Wi).canon()), ('E', Ei.canon()), ('N', '1')):
                        if dv == w and nm not in (ivar, 'lE', 'tmp1') and nm not in inner:
                            roles[role] = nm
        it2, rp = frag(parent)
        kinds, okall = set(), len(roles) == 4
        if okall:
            W, EW, E_, N = (Rat.sym(roles[k]) for k in ('W', 'EW', 'E', 'N'))
            for p in rp:
                if p.ret is None:
                    continue
                w = it2.interval_of(W, p)
                nn = it2.interval_of(N, p)
                if w.lo is not None and (w.lo > 0 or (w.lo == 0 and w.los)):
                    kinds.add('weighted')
                    okall = okall and p.ret.equals(EW / W)
                elif nn.lo is not None and nn.lo >= 1:
                    kinds.add('mean')
                    okall = okall and p.ret.equals(E_ / N)
                else:
                    kinds.add('error')
                    okall = okall and it2.is_zero(p.ret, p) and bool(sets_error(p))
        chk.decide(okall and kinds == {'weighted', 'mean', 'error'}, 'LB-energy', U, 'LineEnergy', 'LB result', '%s:%d' % (U, parent['ln']),
                   'after the loop: weight sum > 0 -> weighted sum / weight sum; else members with an energy exist -> energy sum / count; else error. '
                   'Found outcomes %s (accumulators %s)' % (sorted(kinds), roles), why='weighted mean, else plain mean, else error')
    # members and their shells
    members_here = set()
    for lval, sh in pairs:
        nm = names.line_by_value.get(lval)
        members_here.add(nm)
        src = names.parse_line(nm)[0] if nm and names.parse_line(nm) else None
        chk.decide(src is not None and names.shell_value.get(src) == sh, 'LB-member-shell', U, 'lb_pairs', '%s_LINE' % nm, loc0,
                   'L-beta member %s is weighted with the fluorescence cross section just above the %s edge; its initial '
                   'vacancy is %s' % (nm, names.shell_by_value.get(sh), src), why='paired with its own shell %s' % src)
    lb_aliases = sorted(a for a in names.alias if a.startswith('LB') and a[2:].isdigit())
    lb_required = {names.alias[a] for a in lb_aliases}
    missing = sorted(lb_required - members_here)
    chk.decide(not missing, 'LB-members', U, 'lb_pairs', 'aliases', loc0,
               'L-beta members named LB<n> in xraylib.h but absent from the average: %s' % missing,
               why='all %d LB<n> aliases are members' % len(lb_required))
    return members_here


def kgroup(prog, chk, LE, names, rates_present, U):
    from xvlib.absint import Interp
    zname = LE['params'][0]['name']
    ids = {}
    for n in walk(LE['body']):
        if n.get('k') == 'DeclStmt':
            for d in n.get('decls', []):
                ids[d['name']] = d['id']

    def frag(stmt):
        f2 = dict(LE)
        f2['body'] = stmt if stmt.get('k') == 'CompoundStmt' else {'k': 'CompoundStmt', 'c': [stmt]}
        it = Interp(prog, f2)
        it.assume_patterns = []
        return it, it.run()
    slot = names.line_slot
    klines = names.lines_of_shell('K')
    groups_first = {slot('KO'): slot('KO1'), slot('KP'): slot('KP1')} if 'KO' in names.line_value and 'KP' in names.line_value else {}
    # the two accumulation loops: for (i = A; i <= / < B; i++) inside the branch of the group
    loops = [n for n in walk(LE['body']) if n.get('k') == 'ForStmt' and any(
        x.get('k') == 'DeclRefExpr' and x.get('name') == 'RadRate_arr' for x in walk(n.get('body') or {})) and
        any(x.get('k') == 'DeclRefExpr' and x.get('name') == 'LineEnergy_arr' for x in walk(n.get('body') or {}))]
    chk.floor('K group accumulation loops', len(loops), 2)
    want_ranges = {'KA': (slot('KL1'), slot('KL3')),
                   'KB': (min(slot(n) for n in klines if n not in ('KL1', 'KL2', 'KL3')), None)}
    kb_required = {slot(n) for n in klines if n not in ('KL1', 'KL2', 'KL3') and (n in rates_present)}
    kb_allowed = {slot(n) for n in klines if n not in ('KL1', 'KL2', 'KL3')}
    for lp in loops:
        loc = '%s:%d' % (U, lp['ln'])
        # range
        lo = None
        for a in walk(lp.get('init') or {}):
            if a.get('k') == 'BinaryOperator' and a.get('op') == '=' and isinstance(a['c'][1].get('v'), int):
                lo = a['c'][1]['v']
        cond = lp.get('cond') or {}
        hi = cond['c'][1].get('v') if cond.get('c') and isinstance(cond['c'][1].get('v'), int) else None
        if cond.get('op') == '<' and hi is not None:
            hi -= 1
        grp = 'KA' if lo == want_ranges['KA'][0] else 'KB'
        covered = set(range(lo, hi + 1)) if lo is not None and hi is not None else set()
        if grp == 'KA':
            okr = covered == {slot('KL1'), slot('KL2'), slot('KL3')}
        else:
            okr = kb_required <= covered <= kb_allowed
        chk.decide(okr, '%s-energy' % grp, U, 'LineEnergy', grp + '_LINE members', loc,
                   '%s must run over %s; the loop covers slots %s..%s (missing members with a shipped rate: %s, foreign slots: %s)' % (
                       grp, 'KL1..KL3' if grp == 'KA' else 'the K-M,N,O,P lines', lo, hi,
                       sorted(names.line_by_value.get(-s - 1) for s in (kb_required - covered)) if grp == 'KB' else '',
                       sorted(covered - (kb_allowed if grp == 'KB' else covered))),
                   why='loop over the %d member slots' % len(covered))
        # one generic member
        it, paths = frag(lp['body'])
        ivar = None
        for x in walk(lp.get('inc') or {}):
            if x.get('k') == 'DeclRefExpr':
                ivar = x
        i = Rat.sym(ivar['name'])
        acc = {}
        for p in paths:
            if p.status not in ('end', 'cont', 'run'):
                continue
            # which slot is this member (group entries are distinguished by equality facts on i)
            ival = it.interval_of(i, p)
            special = int(ival.lo) if ival.lo is not None and ival.lo == ival.hi else None
            e_slot = groups_first.get(special, None)
            # the loop reads the tables with the symbolic counter; the group entries read the energy of a constant slot
            Ei = Rat.sym('LineEnergy_arr[%s][%s]' % (zname, e_slot if e_slot is not None else ivar['name']))
            Ri = Rat.sym('RadRate_arr[%s][%s]' % (zname, ivar['name']))
            eiv = it.interval_of(Ei, p)
            present = eiv.lo is not None and (eiv.lo > 0 or (eiv.lo == 0 and eiv.los))
            absent = eiv.hi is not None and eiv.hi <= 0
            d = {}
            for nm in ('tmp', 'tmp1', 'tmp2', 'n'):
                v = p.env.get(ids.get(nm))
                d[nm] = (v - Rat.sym(nm)) if v is not None else Rat.const(0)
            tag = 'group-entry %s' % names.line_by_value.get(-special - 1) if special in groups_first else 'member'
            if absent:
                ok = all(x.is_zero() for x in d.values())
                chk.decide(ok, '%s-energy' % grp, U, 'LineEnergy', '%s_LINE %s without energy' % (grp, tag), loc,
                           'a member line without an energy must not take part: neither its rate nor a zero energy may be added', why='skipped')
            elif present:
                okw = d['tmp1'].equals(Ri) and d['tmp'].equals(Ei * Ri)
                okm = (d['tmp2'].equals(Ei) and d['n'].equals(Rat.const(1))) if special not in groups_first else (d['tmp2'].is_zero() and d['n'].is_zero())
                chk.decide(okw and okm, '%s-energy' % grp, U, 'LineEnergy', '%s_LINE %s with energy' % (grp, tag), loc,
                           'a member with an energy must add its rate and energy x rate (energy of the first member line for the KO/KP group entries), and '
                           'count once in the plain mean unless it is a group entry; found d(rate sum) = %s, d(weighted sum) = %s, d(energy sum) = %s, d(count) = %s' % (
                               d['tmp1'].canon(), d['tmp'].canon(), d['tmp2'].canon(), d['n'].canon()),
                           why='adds R_i and E_i R_i; counted in the plain mean')
            else:
                chk.bad('%s-energy' % grp, U, 'LineEnergy', '%s_LINE %s presence-untested' % (grp, tag), loc,
                        'the accumulation does not test whether the member line has an energy: a member with a rate but no energy pulls the mean towards 0 '
                        '(K-beta of every element from Z = 50 on lay below all of its member lines)')
            acc[tag + (' present' if present else ' absent' if absent else ' ?')] = True
        if grp == 'KB' and groups_first:
            chk.decide(any(k.startswith('group-entry') for k in acc), 'KB-energy', U, 'LineEnergy', 'KB_LINE group entries', loc,
                       'the KO and KP entries (rate of the whole group, no energy of their own) are not given the energy of their first member',
                       why='KO/KP use the energy of KO1/KP1')
    # the statement after the loops: weighted mean, else plain mean, else error
    parent = None
    for n in walk(LE['body']):
        if n.get('k') == 'CompoundStmt':
            kids = n.get('c', [])
            for j, k_ in enumerate(kids):
                if k_.get('k') == 'IfStmt' and any(l in list(walk(k_)) for l in loops) and j + 1 < len(kids):
                    parent = kids[j + 1]
    if parent is None:
        chk.bad('KA-energy', U, 'LineEnergy', 'result statement', '%s:%d' % (U, LE['ln']), 'cannot find the statement that turns the sums into the result')
        return
    it, paths = frag(parent)
    T, T1, T2, N = (Rat.sym(x) for x in ('tmp', 'tmp1', 'tmp2', 'n'))
    kinds = set()
    okall = True
    for p in paths:
        if p.ret is None:
            continue
        t1 = it.interval_of(T1, p)
        nn = it.interval_of(N, p)
        if t1.lo is not None and (t1.lo > 0 or (t1.lo == 0 and t1.los)):
            kinds.add('weighted')
            okall = okall and p.ret.equals(T / T1)
        elif nn.lo is not None and nn.lo >= 1:
            kinds.add('mean')
            okall = okall and p.ret.equals(T2 / N)
        else:
            kinds.add('error')
            okall = okall and it.is_zero(p.ret, p) and bool(sets_error(p))
    chk.decide(okall and kinds == {'weighted', 'mean', 'error'}, 'KA-energy', U, 'LineEnergy', 'KA/KB result', '%s:%d' % (U, parent['ln']),
               'after the sums: rate sum > 0 -> weighted sum / rate sum; else members with an energy exist -> energy sum / count; else error. Found outcomes %s' % sorted(kinds),
               why='weighted mean, else plain mean, else error')
