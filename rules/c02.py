"""C02 - interpolated quantities follow the shipped spline and never extrapolate.

(a) range guards of splint/lininterp dominate every interior read; *y written on every path
(b) kernel normal form = natural cubic spline interpolant; bisection loop decided slot by slot
(c) call-site wiring: the four table arguments of every splint call belong to one family (derived from the
    parser), same indices, 1-based idiom, 'no data' guard, result flag tested, argument/result transform
(c2) build-time printer: every family array is printed under its own name with its family's count
(d) Kissel low-energy extension: only below the first knot, slope clamped to [-1, 1]
(e) thorough: generated knots = data files (translation validation)"""
import re
from fractions import Fraction

from xvlib.core import Check
from xvlib.frontend import AnalysisBroken
from xvlib.absint import run_function, Inconclusive
from xvlib.facts import walk, show, strip_casts, calls_in
from xvlib.normform import Rat, NotInClass
from xvlib import datafiles, inittab
from rules.common import sets_error, value_paths, zero_paths, strip_err_text

NEEDS_GENERATED = True

# frozen, each row confirmed against the knot range of the data file: function -> (family x-array, argument transform, result transform)
SITES = {
    'CS_Photo': ('E_Photo_arr', 'log(1000*E)', 'exp'), 'CS_Rayl': ('E_Rayl_arr', 'log(1000*E)', 'exp'),
    'CS_Compt': ('E_Compt_arr', 'log(1000*E)', 'exp'), 'CS_Energy': ('E_Energy_arr', 'log(E)', 'exp'),
    'FF_Rayl': ('q_Rayl_arr', 'id', 'id'), 'SF_Compt': ('q_Compt_arr', 'id', 'id'),
    'Fi': ('E_Fi_arr', 'id', 'id'), 'Fii': ('E_Fii_arr', 'id', 'id'),
    'ComptonProfile': ('pz_ComptonProfiles', 'log(pz+1)', 'exp'), 'ComptonProfile_Partial': ('pz_ComptonProfiles', 'log(pz+1)', 'exp'),
    'CSb_Photo_Partial': ('E_Photo_Partial_Kissel', 'log(E)', 'exp'),
}
# Compton profile arrays are read by separate loops; roles frozen from the documented file layout
FROZEN_FAMILIES = [
    ('Npz_ComptonProfiles', ('pz_ComptonProfiles', 'Total_ComptonProfiles', 'Total_ComptonProfiles2')),
    ('Npz_ComptonProfiles', ('pz_ComptonProfiles', 'Partial_ComptonProfiles', 'Partial_ComptonProfiles2')),
]


def base_name(n):
    n = strip_casts(n)
    while n.get('k') in ('ArraySubscriptExpr', 'UnaryOperator', 'BinaryOperator') and n.get('c'):
        n = strip_casts(n['c'][0])
    return n.get('name') if n.get('k') == 'DeclRefExpr' else None


def derive_families(prog):
    """(count array, (x, y, y2)) from the parser: `fscanf("%lf%lf%lf", &X[..][i], &Y[..][i], &Y2[..][i])` inside a loop
    bounded by N[..]."""
    f = prog.func('XRayInitFromPath', unit='src/xrayfiles.c')
    fams = []
    for lp in [n for n in walk(f['body']) if n.get('k') == 'ForStmt']:
        cond = lp.get('cond') or {}
        if cond.get('k') != 'BinaryOperator' or cond.get('op') != '<':
            continue
        nname = base_name(cond['c'][1])
        for c in calls_in(lp['body'], 'fscanf'):
            if len(c['args']) == 5:
                fmt = strip_casts(c['args'][1]).get('val', '')
                if len(re.findall(r'%lf', fmt)) == 3:
                    arrs = tuple(base_name(a) for a in c['args'][2:])
                    if all(arrs) and nname and (nname, arrs) not in fams:
                        fams.append((nname, arrs))
    return fams


def run(prog, tier):
    chk = Check('C02', tier, 'other' if tier == 'quick' else 'translation_validation',
                'The interpolation kernel is decided structurally (guards dominate, exact cubic-spline normal form, bisection '
                'family), every call site is wired to one table family derived from the parser with the frozen argument/result '
                'transform, and the build-time printer emits each family array under its own name. Thorough tier validates all '
                'generated knots against the data files. Numerical values at interior points are not evaluated.',
                ['clang front end', 'E1 path enumeration', 'E2 normal forms', 'data readers'],
                ['the 1e-7 tolerance at the upper table end is pinned as "a tolerance <= 1e-7 exists", not its numeric effect'])
    fams = derive_families(prog) + FROZEN_FAMILIES
    chk.floor('spline families derived from the parser', len(fams) - len(FROZEN_FAMILIES), 10)
    kernel(prog, chk)
    sites(prog, chk, fams)
    printer(prog, chk, fams)
    kissel_extension(prog, chk)
    if tier == 'thorough' and getattr(prog, 'generated_path', None):
        knots(prog, chk, fams)
    return chk


# ------------------------------------------------------------------------------------------------ (a) (b)

def kernel(prog, chk):
    U = 'src/splint.c'
    for fn in ('splint', 'lininterp'):
        f = prog.func(fn, unit=U)
        it, paths = run_function(prog, f)
        xa, ya = f['params'][0]['name'], f['params'][1]['name']
        names = [p['name'] for p in f['params']]
        n, x, y = (names[3], names[4], names[5]) if fn == 'splint' else (names[2], names[3], names[4])
        loc = '%s:%d' % (U, f['ln'])
        ok_paths = [p for p in paths if p.ret is not None and not it.is_zero(p.ret, p)]
        fail = [p for p in paths if p.ret is not None and it.is_zero(p.ret, p)]
        X = Rat.sym(x)
        lo_ok = up_ok = True
        tol = None
        for p in ok_paths:
            dlo = it.interval_of(X - Rat.sym('%s[1]' % xa), p)
            dup = it.interval_of(X - Rat.sym('%s[%s]' % (xa, n)), p)
            if not (dlo.lo is not None and dlo.lo == 0 and not dlo.los):
                lo_ok = False
            if dup.hi is None or dup.hi > Fraction(1, 10 ** 7) or dup.hi < 0:
                up_ok = False
            else:
                tol = dup.hi
        chk.decide(bool(ok_paths) and lo_ok, 'range-guards', U, fn, 'lower', loc,
                   'every path that interpolates must have established x >= xa[1] exactly (no tolerance below the first knot): '
                   'otherwise arguments below the table are extrapolated', why='x - xa[1] >= 0 on all %d interpolating paths' % len(ok_paths))
        chk.decide(bool(ok_paths) and up_ok, 'range-guards', U, fn, 'upper', loc,
                   'every path that interpolates must have established x - xa[n] <= tol with 0 <= tol <= 1e-7',
                   why='x - xa[n] <= %s' % (float(tol) if tol is not None else None))
        wr = all(any(e.kind == 'store' and e.lv == '*' + y for e in p.events) for p in paths if p.ret is not None)
        chk.decide(wr, 'range-guards', U, fn, 'result-written', loc, '*%s is not written on every path' % y, why='*y written on every path')
        chk.decide(len(fail) == 2 and all(sets_error(p) for p in fail), 'range-guards', U, fn, 'failure', loc,
                   'the two out-of-range exits must report an error and return 0 (found %d failing paths)' % len(fail),
                   why='both out-of-range exits report an error')
        if fn != 'splint':
            continue
        y2 = names[2]
        # (b) kernel
        main = []
        for p in ok_paths:
            st = [e for e in p.events if e.kind == 'store' and e.lv == '*' + y]
            if st:
                main.append((p, st[-1].value))
        shapes = 0
        msg = ''
        for p, v in main:
            syms = v.n.symbols() | v.d.symbols()
            his = sorted({re.match(r'^(?:%s|%s)\[(.+)\]$' % (xa, ya), s_).group(1) for s_ in syms if re.match(r'^(?:%s|%s)\[(.+)\]$' % (xa, ya), s_)})
            if len(his) != 2:
                continue
            for klo, khi in ((his[0], his[1]), (his[1], his[0])):
                xl, xh = Rat.sym('%s[%s]' % (xa, klo)), Rat.sym('%s[%s]' % (xa, khi))
                yl, yh = Rat.sym('%s[%s]' % (ya, klo)), Rat.sym('%s[%s]' % (ya, khi))
                dl, dh = Rat.sym('%s[%s]' % (y2, klo)), Rat.sym('%s[%s]' % (y2, khi))
                h = xh - xl
                a = (xh - X) / h
                b = (X - xl) / h
                want = a * yl + b * yh + ((a * a * a - a) * dl + (b * b * b - b) * dh) * h * h / Rat.const(6)
                if v.equals(want):
                    shapes += 1
                    break
                degenerate = (yl + yh) / Rat.const(2)
                if v.equals(degenerate) and it.interval_of(h, p).is_zero():
                    shapes += 1
                    break
            else:
                msg = v.canon()[:300]
        chk.decide(shapes == len(main) and shapes >= 1, 'spline-kernel', U, fn, 'cubic-formula', loc,
                   'the value stored in *y is not the cubic-spline interpolant a*y_lo + b*y_hi + ((a^3-a)*y2_lo + (b^3-b)*y2_hi)*h^2/6 '
                   'with a=(x_hi-x)/h, b=(x-x_lo)/h, h=x_hi-x_lo: %s' % msg, why='exact rational normal form of the interpolant')
        bisection(prog, chk, f, it, paths, xa, x, n)


def bisection(prog, chk, f, it, paths, xa, x, n):
    U = 'src/splint.c'
    loc = '%s:%d' % (U, f['ln'])
    loops = [nd for nd in walk(f['body']) if nd.get('k') in ('WhileStmt', 'ForStmt')]
    snaps = []
    for p in paths:
        for e in p.events:
            if e.kind == 'iter-end':
                snaps.append((p, e))
    if not loops or not snaps:
        chk.inconclusive('bisection', loc, 'no search loop found in splint (a different search algorithm cannot be decided by this rule)')
        return
    lp = loops[0]
    # initial bracket
    init_ok = False
    for p in paths:
        for e in p.events:
            if e.kind == 'loop-begin':
                pass
    # the havocked names tell which variables the loop writes
    p0, e0 = snaps[0]
    written = sorted(e0.args)
    if len(written) != 3:
        chk.inconclusive('bisection', loc, 'loop writes %s; expected the bracket pair and a midpoint' % written)
        return
    # continue condition: hi - lo > 1
    cond = lp['cond']
    c_ok = False
    lo_name = hi_name = None
    if cond.get('k') == 'BinaryOperator' and cond['op'] in ('>', '>=', '<', '<=', '!='):
        l, r = cond['c']
        txt = show(cond)
        m = re.match(r'^\(\((\w+) - (\w+)\) > 1\)$', txt) or re.match(r'^\(\((\w+) - (\w+)\) >= 2\)$', txt)
        m2 = re.match(r'^\(1 < \((\w+) - (\w+)\)\)$', txt)
        m3 = re.match(r'^\((\w+) > \((\w+) \+ 1\)\)$', txt)
        mm = m or m2 or m3
        if mm:
            hi_name, lo_name = mm.group(1), mm.group(2)
            c_ok = True
    chk.decide(c_ok, 'bisection', U, 'splint', 'continue-condition', '%s:%d' % (U, lp['ln']),
               'the search must continue while the bracket is wider than one interval (khi - klo > 1); found %s' % show(cond),
               why='loops while khi - klo > 1')
    if not c_ok:
        return
    mid_name = [w for w in written if w not in (hi_name, lo_name)][0]
    # initial values: (1, n)
    pre = None
    for st in f['body']['c']:
        if st is lp:
            break
    inits = {}
    for nd in walk(f['body']):
        if nd is lp:
            break
        if nd.get('k') == 'BinaryOperator' and nd.get('op') == '=' and nd['c'][0].get('name') in (hi_name, lo_name):
            inits[nd['c'][0]['name']] = show(nd['c'][1])
    chk.decide(inits.get(lo_name) == '1' and inits.get(hi_name) == n, 'bisection', U, 'splint', 'initial-bracket', loc,
               'the bracket must start at (1, n); found (%s, %s)' % (inits.get(lo_name), inits.get(hi_name)), why='(klo, khi) = (1, n)')
    # midpoint and updates from the iteration snapshots
    mids = set()
    updates = set()
    for p, e in snaps:
        lo0, lo1 = e.args[lo_name]
        hi0, hi1 = e.args[hi_name]
        k0, k1 = e.args[mid_name]
        mids.add(k1.canon())
        lo_changed = not (lo1 - lo0).is_zero()
        hi_changed = not (hi1 - hi0).is_zero()
        # which comparison decided
        dec = None
        for c, t in p.conds:
            if isinstance(t, bool) and c.get('k') == 'BinaryOperator' and c['op'] in ('>', '<', '>=', '<=') and \
                    xa in show(c) and x in show(c) and mid_name in show(c):
                a_ = it.eval(c['c'][0], p)
                b_ = it.eval(c['c'][1], p)
                dec = (c['op'], show(c), t)
        updates.add((lo_changed, hi_changed, (lo1 - k1).is_zero() if lo_changed else None, (hi1 - k1).is_zero() if hi_changed else None,
                     dec))
    lo_s, hi_s = '%s@L' % lo_name, '%s@L' % hi_name
    fam = False
    mid_txt = sorted(mids)
    if len(mids) == 1:
        m = mid_txt[0]
        m_norm = re.sub(r'@L\d+', '', m)
        accepted = {'bit>>(%s + %s,1)' % tuple(sorted((lo_name, hi_name))), 'idiv(%s + %s,2)' % tuple(sorted((lo_name, hi_name))),
                    'idiv(-1*%s + %s,2) + %s' % (lo_name, hi_name, lo_name), 'bit>>(-1*%s + %s,1) + %s' % (lo_name, hi_name, lo_name)}
        fam = m_norm in accepted
    chk.decide(fam, 'bisection', U, 'splint', 'midpoint', '%s:%d' % (U, lp['ln']),
               'the probe must be the midpoint floor((klo+khi)/2) (>>1, /2 or klo+(khi-klo)/2); found %s' % [re.sub(r'@L\d+', '', m) for m in mid_txt],
               why='midpoint of the bracket')
    ok_up = len(updates) == 2
    detail = []
    for lo_c, hi_c, lo_is_k, hi_is_k, dec in updates:
        if lo_c == hi_c:
            ok_up = False
            detail.append('an iteration moves %s ends of the bracket' % ('both' if lo_c else 'neither of the'))
            continue
        if (lo_c and not lo_is_k) or (hi_c and not hi_is_k):
            ok_up = False
            detail.append('an end is moved to something other than the probe index')
        if dec is None:
            ok_up = False
            detail.append('the decision is not a comparison of xa[k] with x')
            continue
        op, txt, truth = dec
        # normalise to "xa[k] REL x"
        m = re.match(r'^\((\w+)\[(\w+)\] ([<>]=?) (\w+)\)$', txt)
        m2 = re.match(r'^\((\w+) ([<>]=?) (\w+)\[(\w+)\]\)$', txt)
        if m and m.group(1) == xa and m.group(4) == x:
            rel = m.group(3)
        elif m2 and m2.group(3) == xa and m2.group(1) == x:
            rel = {'<': '>', '>': '<', '<=': '>=', '>=': '<='}[m2.group(2)]
        else:
            ok_up = False
            detail.append('comparison %s is not between %s[%s] and %s' % (txt, xa, mid_name, x))
            continue
        if not truth:
            rel = {'<': '>=', '>': '<=', '<=': '>', '>=': '<'}[rel]
        # xa[k] > x or >= x  -> upper end moves ; xa[k] < x or <= x -> lower end moves
        if rel in ('>', '>=') and not hi_c:
            ok_up = False
            detail.append('when xa[k] %s x the upper end must move to k (the half that brackets x is kept)' % rel)
        if rel in ('<', '<=') and not lo_c:
            ok_up = False
            detail.append('when xa[k] %s x the lower end must move to k' % rel)
    chk.decide(ok_up, 'bisection', U, 'splint', 'update', '%s:%d' % (U, lp['ln']),
               'the update must keep the half of the bracket that contains x: %s' % '; '.join(sorted(set(detail))),
               why='xa[k] > x moves khi to k, otherwise klo to k')


# ------------------------------------------------------------------------------------------------ (c)

def sites(prog, chk, fams):
    fam_of = {}
    for nname, (a, b, c) in fams:
        fam_of[(a, b, c)] = nname
    nsites = 0
    for f in prog.src_funcs():
        if f['unit'] in ('src/pr_data.c', 'src/xrayfiles.c', 'src/splint.c'):
            continue
        cs = calls_in(f['body'], 'splint')
        if not cs:
            continue
        U, name = f['unit'], f['name']
        it, paths = run_function(prog, f)
        # a value may leave the function only through the spline: a path that returns a number without calling splint() bypasses
        # the kernel's range guards.  Accepted: the argument is pinned to ONE exact point on the path (FF_Rayl's q == 0 -> Z, the
        # exact forward-scattering limit, measure zero); the Kissel sub-shell extension is decided by rule kissel-extension.
        if name != 'CSb_Photo_Partial':
            dbl = [p_['name'] for p_ in f['params'] if p_['T'] == 'double']
            for p in value_paths(it, paths):
                if any(e.kind == 'call' and e.name == 'splint' for e in p.events):
                    continue
                pinned = False
                for xs_ in dbl[:1]:
                    iv = it.interval_of(Rat.sym(xs_), p)
                    pinned = iv.lo is not None and iv.hi is not None and iv.lo == iv.hi and not iv.los and not iv.his
                chk.decide(pinned, 'no-bypass', U, name, 'value exit@%d without spline' % p.ret_node['ln'], '%s:%d' % (f['rel'], p.ret_node['ln']),
                           'a value (%s) is returned on a path that never calls splint() and whose argument is not pinned to a single exact point: '
                           'arguments outside the table get a number instead of the range error' % p.ret.canon()[:80],
                           why='shortcut taken only at one exact argument value')
        for c in cs:
            nsites += 1
            loc = '%s:%d' % (f['rel'], c['ln'])
            a = c['args']
            arrs = tuple(base_name(x) for x in a[:3])
            nn = base_name(a[3])
            inst = 'splint@%s' % name
            chk.decide(arrs in fam_of and fam_of[arrs] == nn, 'site-family', U, name, inst, loc,
                       'the tables (%s) with count %s do not form one spline family (knots, values, second derivatives of the same '
                       'data file in this order); families are %s' % (', '.join(str(x) for x in arrs), nn,
                                                                     [k for k in fam_of if k[0] == arrs[0]] or 'none with these knots'),
                       why='knots/values/second derivatives and count of one family')
            # same indices and -1 idiom
            idxs = []
            minus1 = True
            for x in a[:3]:
                x0 = strip_casts(x)
                if not (x0.get('k') == 'BinaryOperator' and x0.get('op') == '-' and x0['c'][1].get('v') == 1):
                    minus1 = False
                    idxs.append(None)
                    continue
                idxs.append(re.sub(r'^\w+', '', show(x0['c'][0])))
            nidx = re.sub(r'^\w+', '', show(strip_casts(a[3])))
            # values and second derivatives share their indices; the knot vector may be shared by all shells (index prefix)
            same = all(i is not None for i in idxs) and idxs[1] == idxs[2] and idxs[1].startswith(idxs[0]) and idxs[0].startswith(nidx)
            chk.decide(minus1 and same, 'site-indices', U, name, inst, loc,
                       'the three arrays must be passed as T[...]-1 (1-based kernel) with identical indices that extend the count\'s '
                       'index; found %s and count index %s' % (idxs, nidx), why='same indices %s, 1-based idiom' % idxs[0])
            # the want-table row
            if name in SITES:
                xfam, tin, tout = SITES[name]
                chk.decide(arrs[0] == xfam, 'site-family', U, name, inst + ' expected-family', loc,
                           '%s must interpolate in the family of %s; found %s' % (name, xfam, arrs[0]), why='family of %s' % xfam)
                # argument transform
                xs = f['params'][1 if f['params'][1]['T'] == 'double' else 2]['name']
                good = None
                for p in paths:
                    evs = [e for e in p.events if e.kind == 'call' and e.name == 'splint' and e.node is c]
                    if not evs:
                        continue
                    got = evs[0].args[4].canon()
                    want = {'log(1000*E)': 'log(1000*%s)' % xs, 'log(E)': 'log(%s)' % xs, 'log(pz+1)': 'log(%s + 1)' % xs, 'id': xs}[tin]
                    good = (got == want, got, want)
                    break
                chk.decide(good is not None and good[0], 'site-transform', U, name, inst + ' argument', loc,
                           'the spline argument must be %s; found %s' % (good[2] if good else tin, good[1] if good else None),
                           why='argument %s' % tin)
                vals = value_paths(it, paths)
                outs = set()
                for p in vals:
                    evs = [e for e in p.events if e.kind == 'call' and e.name == 'splint' and e.node is c]
                    if not evs:
                        continue
                    o = show(strip_casts(a[5])).lstrip('&')
                    osym = '%s@%d' % (o, evs[0].id)
                    outs.add(p.ret.canon().replace(osym, 'Y'))
                    # flag tested
                    tested = it.interval_of(evs[0].result, p).excludes_zero()
                    if not tested:
                        outs.add('UNTESTED')
                want_out = {'exp': 'exp(Y)', 'id': 'Y'}[tout]
                chk.decide(outs == {want_out}, 'site-transform', U, name, inst + ' result', loc,
                           'the returned value must be %s of the spline value with the result flag tested first; found %s' % (
                               tout, sorted(outs)), why='returns %s, flag tested' % want_out)
            else:
                chk.bad('site-transform', U, name, inst + ' unknown-site', loc, 'splint call site not in the frozen transform table')
            # 'no data' guard on the count
            guard = False
            for p in paths:
                evs = [e for e in p.events if e.kind == 'call' and e.name == 'splint' and e.node is c]
                if not evs:
                    continue
                ncanon = evs[0].args[3]
                iv = it.interval_of(ncanon, p)
                guard = iv.lo is not None and iv.lo >= 0
                if not guard and 'Npz_ComptonProfiles' in ncanon.canon():
                    # frozen equivalence: NShells and Npz of an element are read by one "%d %d" and default together
                    iv2 = it.interval_of(Rat.sym(ncanon.canon().replace('Npz_ComptonProfiles', 'NShells_ComptonProfiles')), p)
                    guard = iv2.lo is not None and iv2.lo >= 0
                if not guard:
                    # Kissel sub-shell tables are guarded through occupancy and edge energy (availability family, decided by data fact)
                    z, sh = f['params'][0]['name'], f['params'][1]['name']
                    occ = it.interval_of(Rat.sym('Electron_Config_Kissel[%s][%s]' % (z, sh)), p)
                    uo = it.interval_of(Rat.sym('UOCCUP_ComptonProfiles[%s][%s]' % (z, sh)), p)
                    guard = (occ.lo is not None and occ.lo > 0) or uo.excludes_zero()
                break
            chk.decide(guard, 'site-no-data-guard', U, name, inst, loc,
                       'the call is reached without the family\'s "no data" guard (count >= 0, or for per-shell tables a non-zero occupancy): '
                       'a placeholder row would be interpolated', why='guarded by the family\'s availability test')
            if 'Partial_ComptonProfiles' in arrs[1]:
                ok2 = False
                for p in paths:
                    evs = [e for e in p.events if e.kind == 'call' and e.name == 'splint' and e.node is c]
                    if evs:
                        z, sh = f['params'][0]['name'], f['params'][1]['name']
                        ok2 = it.interval_of(Rat.sym('UOCCUP_ComptonProfiles[%s][%s]' % (z, sh)), p).excludes_zero() and \
                            (lambda iv: iv.hi is not None and iv.hi <= -1)(it.interval_of(Rat.sym(sh) - Rat.sym('NShells_ComptonProfiles[%s]' % z), p))
                        break
                chk.decide(ok2, 'site-no-data-guard', U, name, inst + ' per-shell', loc,
                           'per-shell profile rows exist only for shells below NShells[Z] with a non-zero occupancy; the call is reached '
                           'without both tests', why='shell < NShells[Z] and occupancy != 0')
    chk.floor('splint call sites', nsites, 11)


# ------------------------------------------------------------------------------------------------ (c2)

def printer(prog, chk, fams):
    U = 'src/pr_data.c'
    f = prog.func('main', unit=U)
    count_of = {}
    for nname, arrs in fams:
        for a in arrs:
            count_of[a] = nname
    seen = {}
    for lp in [n for n in f['body']['c'] if n.get('k') == 'ForStmt']:
        pd = calls_in(lp['body'], 'print_doublevec')
        fp = [c for c in calls_in(lp['body'], 'fprintf') if len(c['args']) >= 3 and '__%s_' in (strip_casts(c['args'][1]).get('val') or '')]
        if not pd or not fp:
            continue
        ename = strip_casts(fp[0]['args'][2]).get('val')
        evar = base_name(pd[0]['args'][1])
        nvar = base_name(pd[0]['args'][0])
        seen[ename] = (evar, nvar, lp['ln'])
    n = 0
    for a, nname in sorted(count_of.items()):
        if a not in seen:
            chk.bad('printer-family', U, 'main', a, '%s:%d' % (U, f['ln']), 'family array %s is never printed into the generated unit' % a)
            continue
        evar, nvar, ln = seen[a]
        n += 1
        chk.decide(evar == a and nvar == nname, 'printer-family', U, 'main', a, '%s:%d' % (U, ln),
                   'the generated table %s is filled from %s with %s elements per row; it must be filled from %s with %s' % (
                       a, evar, nvar, a, nname), why='printed from itself with the family count %s' % nname)
    chk.floor('family arrays printed', n, 30)


# ------------------------------------------------------------------------------------------------ (d)

def kissel_extension(prog, chk):
    U = 'src/kissel_pe.c'
    f = prog.func('CSb_Photo_Partial', unit=U)
    it, paths = run_function(prog, f)
    z, sh, e = (p['name'] for p in f['params'][:3])
    x0 = Rat.sym('E_Photo_Partial_Kissel[%s][%s][0]' % (z, sh))
    x1 = Rat.sym('E_Photo_Partial_Kissel[%s][%s][1]' % (z, sh))
    y0 = Rat.sym('Photo_Partial_Kissel[%s][%s][0]' % (z, sh))
    y1 = Rat.sym('Photo_Partial_Kissel[%s][%s][1]' % (z, sh))
    lnE = Rat.sym('log(%s)' % e)
    ext = [p for p in value_paths(it, paths) if not any(ev.kind == 'call' and ev.name == 'splint' for ev in p.events)]
    loc = '%s:%d' % (U, f['ln'])
    chk.floor('Kissel extension paths', len(ext), 3)
    slope = (y1 - y0) / (x1 - x0)
    ok = True
    seen = set()
    for p in ext:
        below = it.interval_of(lnE - x0, p)
        if not (below.hi is not None and below.hi <= 0 and below.his):
            ok = False
            seen.add('taken although ln E is not below the first knot')
        edge = it.interval_of(Rat.sym('EdgeEnergy_arr[%s][%s]' % (z, sh)) - Rat.sym(e), p)
        if not (edge.hi is not None and edge.hi <= 0):
            ok = False
            seen.add('taken below the shell edge')
        r = p.ret.canon()
        m = re.match(r'^exp\((.*)\)$', r)
        if not m:
            ok = False
            seen.add('result is not exp() of the extrapolated logarithm')
            continue
        # the three clamp cases
        cands = {}
        for mv, tag in ((slope, 'free'), (Rat.const(1), '+1'), (Rat.const(-1), '-1')):
            cands[(y0 + mv * (lnE - x0)).canon()] = tag
        tag = cands.get(m.group(1))
        if tag is None:
            ok = False
            seen.add('extrapolated value is not y0 + m*(ln E - x0) with m the (clamped) slope between the first two knots')
            continue
        iv = it.interval_of(slope, p)
        if tag == 'free' and not (iv.lo is not None and iv.hi is not None and iv.lo >= -1 and iv.hi <= 1):
            ok = False
            seen.add('unclamped slope used although it is not established to lie in [-1, 1]')
    chk.decide(ok, 'kissel-extension', U, 'CSb_Photo_Partial', 'bounded-slope', loc,
               'low-energy extension: %s' % '; '.join(sorted(seen)), why='only between edge and first knot, slope in [-1, 1] on every path')


# ------------------------------------------------------------------------------------------------ (e)

def knots(prog, chk, fams):
    gen = inittab.read_generated(prog.generated_path)
    zmax = prog.macro_value('ZMAX')
    files = {'E_Photo_arr': ('CS_Photo.dat', False), 'E_Rayl_arr': ('CS_Rayl.dat', False), 'E_Compt_arr': ('CS_Compt.dat', False),
             'E_Energy_arr': ('CS_Energy.dat', True), 'q_Rayl_arr': ('FF.dat', False), 'q_Compt_arr': ('SF.dat', False),
             'E_Fi_arr': ('fi.dat', False), 'E_Fii_arr': ('fii.dat', False)}
    total = 0
    bad = 0
    chk.programs = 0

    def same(g, d):
        return '%.10E' % float(g) == '%.10E' % float(d)
    for nname, (xa, ya, y2a) in fams:
        if xa not in files:
            continue
        fn, lead = files[xa]
        data = datafiles.spline_file(prog.repo, fn, zmax, leading_count=lead)
        N = gen.get(nname)
        if not N:
            chk.bad('generated-knots', 'src/xrayglob_inline.c', nname, 'present', 'xrayglob_inline.c', 'count table %s missing' % nname)
            continue
        chk.programs += 1
        for z in range(zmax + 1):
            nz = int(N['value'][z])
            d = data.get(z)
            exp_n = len(d[0]) if d else -9999
            total += 1
            if nz != exp_n:
                bad += 1
                chk.bad('generated-knots', 'src/xrayglob_inline.c', nname, 'Z=%d count' % z, 'xrayglob_inline.c',
                        '%s[%d] = %d, %s holds %d knots' % (nname, z, nz, fn, exp_n))
                continue
            if not d:
                continue
            for arr, col in ((xa, 0), (ya, 1), (y2a, 2)):
                row = gen.get('__%s_%d' % (arr, z))
                if row is None or row['value'] is None or len(row['value']) != nz:
                    bad += 1
                    chk.bad('generated-knots', 'src/xrayglob_inline.c', arr, 'Z=%d length' % z, 'xrayglob_inline.c',
                            '__%s_%d has %s elements, count says %d' % (arr, z, len(row['value']) if row and row['value'] else None, nz))
                    continue
                for i, (g, dv) in enumerate(zip(row['value'], d[col])):
                    total += 1
                    if not same(g, dv):
                        bad += 1
                        if bad <= 12:
                            chk.bad('generated-knots', 'src/xrayglob_inline.c', arr, 'Z=%d knot=%d' % (z, i), 'xrayglob_inline.c',
                                    '__%s_%d[%d] = %s in the generated unit; %s column %d gives %s' % (arr, z, i, g, fn, col + 1, dv))
            xs = [float(v) for v in d[0]]
            total += 1
            if any(b < a for a, b in zip(xs, xs[1:])):
                bad += 1
                chk.bad('generated-knots', 'data/' + fn, xa, 'Z=%d monotone' % z, 'data/' + fn,
                        'knots of Z=%d decrease somewhere: the bisection would bracket the wrong interval (repeated knots at absorption '
                        'edges are fine, the kernel returns the mean there)' % z)
    # Kissel sub-shell tables: the low-energy extension divides by the distance of the first two knots
    kis = datafiles.kissel(prog.repo, zmax, prog.macro_value('SHELLNUM_K'))
    nk = 0
    for z, r in kis.items():
        for s_, (edge, xs, ys, y2) in r['partial'].items():
            if len(xs) >= 1:
                nk += 1
                total += 1
                if len(xs) < 2 or float(xs[1]) == float(xs[0]):
                    bad += 1
                    chk.bad('kissel-first-knots', 'data/kissel_pe.dat', 'E_Photo_Partial_Kissel', 'Z=%d shell=%d' % (z, s_), 'data/kissel_pe.dat',
                            'the first two knots coincide (or there is only one): the low-energy extension divides by zero')
    chk.coverage_extra['kissel_subshell_tables_present'] = nk
    # Compton profiles
    cp = datafiles.compton_profiles(prog.repo, zmax)
    for z, r in cp.items():
        for arr, key in (('pz_ComptonProfiles', 'pz'), ('Total_ComptonProfiles', 'total'), ('Total_ComptonProfiles2', 'total2')):
            row = gen.get('__%s_%d' % (arr, z))
            if row is None or row['value'] is None:
                bad += 1
                chk.bad('generated-knots', 'src/xrayglob_inline.c', arr, 'Z=%d present' % z, 'xrayglob_inline.c', 'row missing')
                continue
            for i, (g, dv) in enumerate(zip(row['value'], r[key])):
                total += 1
                if not same(g, dv):
                    bad += 1
                    if bad <= 12:
                        chk.bad('generated-knots', 'src/xrayglob_inline.c', arr, 'Z=%d knot=%d' % (z, i), 'xrayglob_inline.c',
                                '%s differs from comptonprofiles.dat: %s vs %s' % (arr, g, dv))
        for s_, vals in r['partial'].items():
            for arr, src in (('Partial_ComptonProfiles', r['partial']), ('Partial_ComptonProfiles2', r['partial2'])):
                row = gen.get('__%s_%d_%d' % (arr, z, s_))
                if row is None or row['value'] is None or len(row['value']) != r['npz']:
                    bad += 1
                    chk.bad('generated-knots', 'src/xrayglob_inline.c', arr, 'Z=%d shell=%d length' % (z, s_), 'xrayglob_inline.c',
                            'row for an occupied shell is missing or has the wrong length')
                    continue
                for i, (g, dv) in enumerate(zip(row['value'], src[s_])):
                    total += 1
                    if not same(g, dv):
                        bad += 1
        chk.programs = chk.programs or 1
    chk.programs += 1
    chk.disagreements_checked = bad
    chk.coverage_extra['generated_knots_compared'] = total
    if bad == 0:
        chk.ok('generated-knots', 'all %d knots/counts' % total, 'string-equal (%.10E) to the data files; knots non-decreasing (repeated knots mark absorption edges)', 'xrayglob_inline.c')
