"""C20 - every language binding declares the C API with the same constants and types.

Decided entirely from source text of /repo: the C side is what clang resolved (macro table of the public
headers, prototypes with canonical types, definitions with linkage/visibility); the binding side is read
by the per-language lexers in xvlib/lex_*.py.  Every obligation is one (binding, name) or
(binding, function, position) pair; the space is finite and enumerated completely.
"""
import configparser
import os
import re
from fractions import Fraction

from xvlib.core import Check
from xvlib.frontend import AnalysisBroken
from xvlib import lex_bindings as LB
from xvlib import lex_protos as LP

FAMILIES = ('shell', 'line', 'ck', 'auger', 'nist', 'nuclide', 'physical')

PHYSICAL = ('AVOGNUM', 'KEV2ANGST', 'MEC2', 'RE2', 'R_E')


def family_of(name, rel):
    if name.endswith('_SHELL') and rel == 'include/xraylib-shells.h':
        return 'shell'
    if name.endswith('_LINE') and rel in ('include/xraylib-lines.h', 'include/xraylib.h'):
        return 'line'
    if name.endswith('_TRANS') and rel == 'include/xraylib.h':
        return 'ck'
    if name.endswith('_AUGER') and rel == 'include/xraylib-auger.h':
        return 'auger'
    if name.startswith('NIST_COMPOUND_') and rel == 'include/xraylib-nist-compounds.h':
        return 'nist'
    if name.startswith('RADIO_NUCLIDE_') and rel == 'include/xraylib-radionuclides.h':
        return 'nuclide'
    if name in PHYSICAL:
        return 'physical'
    return None


def c_constants(prog):
    """name -> (value, family, rel, line) for every evaluable object-like macro of the public headers."""
    out = {}
    for name, vs in prog.macros.items():
        for m in vs:
            rel = prog.rel(m['file'])
            if not rel.startswith('include/') or m['fl']:
                continue
            v = prog.macro_value(name)
            if v is None or isinstance(v, str):
                continue
            out[name] = (v, family_of(name, rel), rel, m['ln'])
    return out


def same_value(a, b):
    if isinstance(a, str) or isinstance(b, str):
        return a == b
    return Fraction(a) == Fraction(b)


def fmt(v):
    if isinstance(v, Fraction):
        return '%s (=%.15g)' % (v, float(v))
    return str(v)


# frozen, each confirmed by reading: C names a binding file may legitimately declare although they are not
# in the xraylib headers (they belong to libc or to the binding's own runtime)
FOREIGN_OK = {'strlen': 'libc; used to measure returned C strings'}

# shape compatibility: binding shape -> does it accept this C shape?
def compatible(bshape, cshape):
    b, c = bshape.lower(), cshape.lower()
    if b == c:
        return True
    if b == 'ptr':                      # untyped pointer (TYPE(C_PTR),VALUE / Pointer) matches any C pointer
        return c.endswith('*') or c.startswith('ptr')
    if b.startswith('ptr*:'):           # pointer to pointer
        if not c.startswith('ptr*:'):
            return False
        bb, cc = b[5:], c[5:]
        return bb in ('?', 'ptr') or bb == cc or bb.replace('struct:', '').rstrip('*') == cc
    if b == 'char*' and c == 'char*':
        return True
    return False


def run(prog, tier):
    chk = Check('C20', tier, 'proof',
                'Exhaustive comparison of every constant and prototype published by each binding interface file '
                'with the C headers as resolved by clang; completeness of the six user-facing macro families per '
                'binding; declared-vs-defined-vs-exported for every XRL_EXTERN prototype; version strings of every '
                'file listed in .bumpversion.cfg.',
                ['clang 14 preprocessor and type resolution (via xrl-facts)',
                 'per-language lexers in xvlib/lex_bindings.py and xvlib/lex_protos.py (each re-finds a minimum '
                 'number of declarations or the check exits 2)',
                 'Python Fraction arithmetic for exact decimal comparison'],
                ['a binding constant is compared only if it carries the name of a C macro',
                 'a macro family is demanded of a binding only if the binding publishes at least one member of it'])
    chk.exhaustive = True
    repo = prog.repo
    C = c_constants(prog)
    fam_members = {f: sorted(n for n, v in C.items() if v[1] == f) for f in FAMILIES}
    chk.floor('C shell macros', len(fam_members['shell']), 31)
    chk.floor('C line macros', len(fam_members['line']), 383)
    chk.floor('C CK macros', len(fam_members['ck']), 14)
    chk.floor('C auger macros', len(fam_members['auger']), 996)
    chk.floor('C NIST macros', len(fam_members['nist']), 180)
    chk.floor('C nuclide macros', len(fam_members['nuclide']), 10)

    def path(rel):
        p = os.path.join(repo, rel)
        if not os.path.exists(p):
            raise AnalysisBroken('binding file %s vanished' % rel)
        return p

    # ----- constants ---------------------------------------------------------------------------
    bindings = {}
    f = LB.fortran_constants(path('fortran/xraylib_wrap.F90'))
    bindings['fortran'] = ('fortran/xraylib_wrap.F90', {k: (v[0], v[1]) for k, v in f.items()}, True, 1600)
    p = LB.pascal_constants(path('pascal/xraylib_const.pas'))
    bindings['pascal'] = ('pascal/xraylib_const.pas', {k: (v[0], v[1]) for k, v in p.items()}, True, 1600)
    # the unit itself states the version triple in its interface section
    pu = LB.pascal_constants(path('pascal/xraylib.pas'), until='implementation')
    bindings['pascal-unit'] = ('pascal/xraylib.pas', {k: (v[0], v[1]) for k, v in pu.items() if v[0] is not None}, True, 3)
    j = LB.java_constants(path('java/Xraylib.java'))
    bindings['java'] = ('java/Xraylib.java', {k: (v[0], v[1]) for k, v in j.items()}, False, 1600)
    # Java constants that carry no literal: read from the head of the table file, which java/pr_data_java.c fills from C macros
    from rules.c19 import file_constants
    fc = file_constants(prog)
    if fc is None:
        chk.inconclusive('constant-value', 'java/Xraylib.java', 'layout of the Java table file could not be read')
    else:
        nfc = 0
        for jf_, jl_, wl_, wm_, wln_, wtxt_ in fc:
            if jf_ not in C:
                continue
            nfc += 1
            chk.decide(wm_ == jf_, 'constant-value', 'java/Xraylib.java', 'java', jf_ + ' (from the table file)', 'java/pr_data_java.c:%s' % wln_,
                       'Xraylib.%s takes its value from the table file; java/pr_data_java.c writes that position from %s, not from the C macro %s = %s' % (
                           jf_, wm_ or wtxt_, jf_, fmt(C[jf_][0])), why='filled from the C macro %s' % jf_)
        chk.floor('java constants loaded from the table file', nfc, 10)
    idl, common, idlfiles = LB.idl_constants(path('idl/xraylib.pro'))
    bindings['idl'] = ('idl/xraylib.pro', {k: (v[0], v[1], os.path.relpath(v[3], repo)) for k, v in idl.items()}, True, 1600)

    upperC = {}
    for n in C:
        upperC.setdefault(n.upper(), []).append(n)

    for bname, (rel, consts, ci, floor_n) in bindings.items():
        chk.floor('%s constants lexed' % bname, len(consts), floor_n)
        published = set()
        for name, tup in consts.items():
            val, ln = tup[0], tup[1]
            frel = tup[2] if len(tup) > 2 else rel
            cnames = upperC.get(name.upper() if ci else name, []) if ci else ([name] if name in C else [])
            if not cnames:
                continue
            cn = cnames[0]
            published.add(cn)
            cv = C[cn][0]
            if val is None:
                chk.inconclusive('constant-value', '%s:%d' % (frel, ln), 'cannot evaluate the value of %s' % name)
                continue
            chk.decide(same_value(val, cv), 'constant-value', rel, bname, cn, '%s:%d' % (frel, ln),
                       '%s publishes %s = %s but the C headers define %s = %s (%s:%d)' % (
                           bname, name, fmt(val), cn, fmt(cv), C[cn][2], C[cn][3]),
                       why='equal to %s:%d' % (C[cn][2], C[cn][3]))
        for fam in FAMILIES:
            mem = fam_members[fam]
            have = [n for n in mem if n in published]
            if not have:
                chk.note('%s publishes no member of family %s: family not demanded' % (bname, fam))
                continue
            for n in mem:
                chk.decide(n in published, 'family-complete', rel, bname, n, rel,
                           '%s publishes family "%s" (%d of %d members) but lacks %s (C: %s:%d = %s)' % (
                               bname, fam, len(have), len(mem), n, C[n][2], C[n][3], fmt(C[n][0])),
                           why='present')

    # IDL: every constant must also be listed in the COMMON block, or it is invisible to user code
    if common:
        cm = set()
        for _, names, _, _ in common:
            cm.update(names)
        for name, tup in idl.items():
            if name.upper() in upperC:
                chk.decide(name in cm, 'idl-common-block', 'idl/xraylib.pro', 'idl', upperC[name.upper()][0],
                           '%s:%d' % (os.path.relpath(tup[3], repo), tup[1]),
                           'IDL constant %s is assigned but not listed in COMMON XRAYLIB, so callers never see it' % name,
                           why='listed in COMMON XRAYLIB')
    else:
        raise AnalysisBroken('idl/xraylib.pro: COMMON block not found')

    # Cython: .pxd declares C names (values come from the C compiler), .pyx publishes them
    pxd = LB.cython_pxd_constants(path('python/xraylib_np_c.pxd'))
    pyx = LB.cython_pyx_constants(path('python/xraylib_np.pyx'))
    chk.floor('cython pxd constants', len(pxd), 1400)
    chk.floor('cython pyx constants', len(pyx), 1400)
    cy_pub = set()
    for name, (cname, ln, ty) in pxd.items():
        if cname not in C and name not in C:
            continue
        ok = cname in C and name == cname
        chk.decide(ok, 'constant-value', 'python/xraylib_np_c.pxd', 'cython', name, 'python/xraylib_np_c.pxd:%d' % ln,
                   'pxd declares %s as C name "%s"%s' % (name, cname, '' if cname in C else ' which the headers do not define'),
                   why='bound to the C macro of the same name')
        if cname in C:
            cv = C[cname][0]
            want = 'double' if isinstance(cv, Fraction) else 'int'
            chk.decide(ty == want, 'constant-type', 'python/xraylib_np_c.pxd', 'cython', name,
                       'python/xraylib_np_c.pxd:%d' % ln,
                       'pxd declares %s as %s but the C macro is a %s constant (%s): the value would be truncated/converted' % (
                           name, ty, want, fmt(cv)), why='type %s' % ty)
    for name, (src, ln) in pyx.items():
        if name not in C and src not in C:
            continue
        ok = name == src and src in pxd
        chk.decide(ok, 'constant-value', 'python/xraylib_np.pyx', 'cython', name, 'python/xraylib_np.pyx:%d' % ln,
                   'pyx publishes %s = xrl.%s%s' % (name, src, '' if src in pxd else ' which the pxd does not declare'),
                   why='publishes the pxd name of the same C macro')
        if ok:
            cy_pub.add(name)
    for fam in FAMILIES:
        mem = fam_members[fam]
        have = [n for n in mem if n in cy_pub]
        if not have:
            chk.note('cython publishes no member of family %s: family not demanded' % fam)
            continue
        for n in mem:
            chk.decide(n in cy_pub, 'family-complete', 'python/xraylib_np.pyx', 'cython', n, 'python/xraylib_np.pyx',
                       'cython publishes family "%s" (%d of %d members) but lacks %s' % (fam, len(have), len(mem), n),
                       why='present')

    # SWIG and C++: constants arrive by textual inclusion of the headers
    swig = LB._read(path('src/xraylib.i'))
    inc = re.findall(r'^%include\s+"([^"]+)"', swig, re.M)
    chk.decide('xraylib.h' in inc, 'header-inclusion', 'src/xraylib.i', 'swig', 'xraylib.h', 'src/xraylib.i',
               'SWIG interface no longer %includes xraylib.h, so no constant or function reaches the SWIG bindings',
               why='%include "xraylib.h"')
    xh = LB._read(path('include/xraylib.h'))
    hdr_incs = re.findall(r'^#include\s+"([^"]+)"', xh, re.M)
    for h in ('xraylib-shells.h', 'xraylib-lines.h', 'xraylib-auger.h', 'xraylib-nist-compounds.h',
              'xraylib-radionuclides.h', 'xraylib-defs.h', 'xraylib-parser.h', 'xraylib-crystal-diffraction.h',
              'xraylib-error.h'):
        chk.decide(h in hdr_incs, 'header-inclusion', 'include/xraylib.h', 'c', h, 'include/xraylib.h',
                   'xraylib.h no longer includes %s: SWIG, C++ and Cython users lose that family' % h,
                   why='#include "%s"' % h)
    cxx = prog.cxx_unit()
    cxx_macro_files = set()
    for vs in prog.macros.values():
        for m in vs:
            cxx_macro_files.add(prog.rel(m['file']))
    chk.decide(any(prog.rel(p_['file']) == 'include/xraylib.h' for p_ in cxx['protos']), 'header-inclusion',
               'cplusplus/xraylib++.h', 'c++', 'xraylib.h', 'cplusplus/xraylib++.h',
               'xraylib++.h does not bring in the prototypes of xraylib.h', why='prototypes of xraylib.h visible in the C++ unit')

    # the C++ header declares its wrappers as templates and member functions: whether each is declared with the C prototype's name,
    # arity and argument types is the wrapper analysis of rules/c18.py (binds the C function of the same name, forwards its parameters
    # one-to-one with the C parameter types, instantiable with exactly the C types); read here as this property's C++ clause
    from rules import c18
    shim18 = c18.run(prog, tier)
    take18 = ('forwarding', 'binds-same-function', 'instantiable-with-C-types', 'wrapper-present')
    n18 = sum(1 for rule, inst, why, loc in shim18.held if rule in take18)
    bad18 = [v for v in shim18.violations if v['rule'] in take18]
    for v in bad18:
        chk.bad('prototype', v['unit'], 'c++', '%s: %s %s' % (v['rule'], v['function'], v['instance']), v['loc'],
                'the C++ header declares a wrapper that does not match the C prototype: ' + v['message'])
    if not bad18:
        chk.ok('prototype', 'c++ wrappers', 'every wrapper of xraylib++.h binds the C function of its name and forwards the C parameter types (%d obligations of the wrapper analysis)' % n18,
               'cplusplus/xraylib++.h')
    chk.floor('C++ wrapper obligations behind the prototype clause', n18 + len(bad18), 300)
    # ----- prototypes --------------------------------------------------------------------------
    cprotos = {}
    for p_ in prog.protos():
        r = prog.rel(p_['file'])
        if r.startswith('include/'):
            cprotos[p_['name']] = p_
    public = dict(cprotos)
    # helpers exported on purpose through src/ headers (the SWIG interface %includes xrf_cross_sections_aux.h)
    for p_ in prog.protos():
        r = prog.rel(p_['file'])
        if r.startswith('src/') and r.endswith('.h') and p_['vis'] == 'default' and p_['name'] not in cprotos:
            cprotos[p_['name']] = p_
    # functions exported through an XRL_EXTERN declaration written in the .c file itself (ElectronConfig_Biggs)
    for u in prog.lib_units():
        for f_ in u['functions']:
            if f_['vis'] == 'default' and not f_['static'] and f_['name'] not in cprotos:
                cprotos[f_['name']] = f_
    chk.floor('C prototypes in public headers', len(public), 135)

    def cmp_proto(bname, rel, d, implicit_error=False):
        """Compare one foreign declaration d with the C prototype of d['cname']."""
        cn = d['cname']
        loc = '%s:%d' % (rel, d['line'])
        if cn not in cprotos:
            if cn in FOREIGN_OK:
                return
            chk.bad('prototype', rel, bname, cn, loc, '%s binds C symbol %s which no public header declares' % (bname, cn))
            return
        cp = cprotos[cn]
        cargs = [LP.c_shape(a['T']) for a in cp['params']]
        bargs = [s for _, s in d['args']]
        if implicit_error:
            bargs = bargs + ['ptr*:xrl_error']
        if len(cargs) != len(bargs):
            chk.bad('prototype', rel, bname, cn, loc,
                    '%s declares %s with %d parameters %s; the C prototype (%s:%d) has %d %s' % (
                        bname, cn, len(bargs), bargs, prog.rel(cp['file']), cp['ln'], len(cargs), cargs))
            return
        okall = True
        for i, (b, c) in enumerate(zip(bargs, cargs)):
            if not compatible(b, c):
                okall = False
                chk.bad('prototype', rel, bname, '%s#arg%d' % (cn, i + 1), loc,
                        '%s declares parameter %d of %s as %s; the C prototype (%s:%d) has %s (%s)' % (
                            bname, i + 1, cn, b, prog.rel(cp['file']), cp['ln'], c, cp['params'][i]['Ts']))
        if 'ret' in d:
            cr = LP.c_shape(cp['ret'])
            if not compatible(d['ret'], cr):
                okall = False
                chk.bad('prototype', rel, bname, '%s#ret' % cn, loc,
                        '%s declares the result of %s as %s; C returns %s' % (bname, cn, d['ret'], cr))
        if okall:
            chk.ok('prototype', '%s:%s' % (bname, cn), 'arity %d and every parameter/result shape match %s:%d' % (
                len(cargs), prog.rel(cp['file']), cp['ln']), loc)

    fgen = LP.fortran_interfaces(path('fortran/xraylib_wrap_generated.F90'))
    fhand = LP.fortran_interfaces(path('fortran/xraylib_wrap.F90'))
    chk.floor('fortran generated interfaces', len(fgen), 120)
    chk.floor('fortran hand-written interfaces', len(fhand), 30)
    for d in fgen:
        cmp_proto('fortran', 'fortran/xraylib_wrap_generated.F90', d)
    for d in fhand:
        cmp_proto('fortran', 'fortran/xraylib_wrap.F90', d)
    pgen = LP.pascal_externals(path('pascal/xraylib_impl.pas'))
    phand = LP.pascal_externals(path('pascal/xraylib.pas'))
    chk.floor('pascal generated externals', len(pgen), 120)
    chk.floor('pascal hand-written externals', len(phand), 28)
    for d in pgen:
        cmp_proto('pascal', 'pascal/xraylib_impl.pas', d)
    for d in phand:
        cmp_proto('pascal', 'pascal/xraylib.pas', d)
    cy = LP.cython_externs(path('python/xraylib_np_c.pxd'))
    chk.floor('cython extern functions', len(cy), 70)
    for d in cy:
        cmp_proto('cython', 'python/xraylib_np_c.pxd', d)
    for rel in ('fortran/generate-code.py', 'pascal/generate-code.py'):
        t = LP.generator_table(path(rel))
        if t is None:
            chk.inconclusive('prototype', rel, 'XRL_FUNCTIONS is no longer a literal dict of dicts')
            continue
        chk.floor('%s table rows' % rel, len(t), 120)
        for d in t:
            d = dict(d)
            d['ret'] = 'double'
            cmp_proto(rel.split('/')[0] + '-generator', rel, d, implicit_error=True)

    # generated files must contain exactly the functions of their generator's table
    for genrel, outs, who in (('fortran/generate-code.py', fgen, 'fortran/xraylib_wrap_generated.F90'),
                              ('pascal/generate-code.py', pgen, 'pascal/xraylib_impl.pas')):
        t = LP.generator_table(path(genrel)) or []
        a, b = set(x['cname'] for x in t), set(x['cname'] for x in outs)
        for n in sorted(a ^ b):
            chk.bad('generated-in-sync', who, 'generator', n, who,
                    '%s is %s the generator table but %s the generated file' % (
                        n, 'in' if n in a else 'missing from', 'missing from' if n in a else 'in'))
        for n in sorted(a & b):
            chk.ok('generated-in-sync', '%s:%s' % (who, n), 'listed in table and generated', who, nontrivial=False)

    # ----- SWIG struct typemaps reference every field -----------------------------------------
    swig_typemaps(prog, chk, swig)

    # ----- declared / defined / exported -------------------------------------------------------
    exported(prog, chk, public)

    # ----- versions ----------------------------------------------------------------------------
    versions(prog, chk)
    return chk


SWIG_STRUCTS = {'struct radioNuclideData *': 'radioNuclideData', 'struct compoundDataNIST *': 'compoundDataNIST',
                'struct compoundData *': 'compoundData', 'Crystal_Struct *': 'Crystal_Struct', 'xrlComplex': 'xrlComplex'}


def swig_typemaps(prog, chk, swig):
    # split the file in typemap blocks: "%typemap(out) <type> {" ... matching brace
    n = 0
    lang = None
    lines = swig.split('\n')
    lang_at = {}
    cur = 'common'
    stack = []
    for i, l in enumerate(lines, 1):
        m = re.match(r'^#\s*(ifdef|if|elif)\s+(?:defined\()?\s*(SWIG\w+)', l)
        if m:
            cur = m.group(2)
        lang_at[i] = cur
    for m in re.finditer(r'%typemap\(out\)\s*([^{]+?)\s*\{', swig):
        ty = re.sub(r'\s+', ' ', m.group(1).strip())
        if ty not in SWIG_STRUCTS:
            continue
        # find matching brace
        depth, j = 0, m.end() - 1
        while j < len(swig):
            if swig[j] == '{':
                depth += 1
            elif swig[j] == '}':
                depth -= 1
                if depth == 0:
                    break
            j += 1
        body = swig[m.end():j]
        ln = swig.count('\n', 0, m.start()) + 1
        rec = prog.record(SWIG_STRUCTS[ty]) if SWIG_STRUCTS[ty] != 'xrlComplex' else None
        if rec is None:
            fields = ['re', 'im']
        else:
            fields = [f['name'] for f in rec['fields']]
        lang = lang_at.get(ln, '?')
        n += 1
        for f in fields:
            used = re.search(r'(->|\.)\s*%s\b' % re.escape(f), body) is not None
            chk.decide(used, 'swig-typemap-fields', 'src/xraylib.i', lang, '%s.%s' % (SWIG_STRUCTS[ty], f),
                       'src/xraylib.i:%d' % ln,
                       '%%typemap(out) %s for %s never reads field %s of the C record: the %s binding returns '
                       'objects without it' % (ty, lang, f, lang), why='field read in the typemap body')
    chk.floor('SWIG struct out-typemaps', n, 28)


def exported(prog, chk, cprotos):
    defs = {}
    libunits = [u for u in prog.lib_units() if u['rel'] not in ('src/pr_data.c', 'src/xrayfiles.c', 'src/xrayglob.c')]
    for u in libunits:
        for f in u['functions']:
            if not f['static']:
                defs.setdefault(f['name'], []).append(f)
    n = 0
    for name, p in sorted(cprotos.items()):
        if p['vis'] != 'default':
            chk.bad('declared-exported', prog.rel(p['file']), name, 'prototype', '%s:%d' % (prog.rel(p['file']), p['ln']),
                    'public prototype %s lacks XRL_EXTERN (default visibility): the shared library hides it' % name)
            continue
        d = defs.get(name)
        n += 1
        if not d:
            chk.bad('declared-defined', prog.rel(p['file']), name, 'definition', '%s:%d' % (prog.rel(p['file']), p['ln']),
                    '%s is declared XRL_EXTERN in %s but no libxrl unit defines it with external linkage' % (
                        name, prog.rel(p['file'])))
            continue
        f = d[0]
        chk.decide(f['vis'] == 'default', 'declared-exported', f['unit'], name, 'definition', '%s:%d' % (f['rel'], f['ln']),
                   'the definition of %s in %s does not see its XRL_EXTERN declaration (visibility %s): with '
                   '-fvisibility=hidden the symbol is not exported' % (name, f['unit'], f['vis']),
                   why='definition inherits default visibility from the header declaration')
        # definition signature equals the declaration (C would reject a mismatch only if the header is included)
        same = f['ret'] == p['ret'] and [a['T'] for a in f['params']] == [a['T'] for a in p['params']]
        chk.decide(same, 'declared-defined', f['unit'], name, 'signature', '%s:%d' % (f['rel'], f['ln']),
                   'definition %s(%s) differs from the declared prototype (%s)' % (
                       name, ', '.join(a['T'] for a in f['params']), ', '.join(a['T'] for a in p['params'])),
                   why='same canonical signature')
    chk.floor('XRL_EXTERN prototypes checked', n, 135)


def versions(prog, chk):
    repo = prog.repo
    maj, mnr, mic = (prog.macro_value(x) for x in ('XRAYLIB_MAJOR', 'XRAYLIB_MINOR', 'XRAYLIB_MICRO'))
    if None in (maj, mnr, mic):
        raise AnalysisBroken('XRAYLIB_MAJOR/MINOR/MICRO not evaluable')
    hv = '%d.%d.%d' % (maj, mnr, mic)
    cfgp = os.path.join(repo, '.bumpversion.cfg')
    cp = configparser.RawConfigParser()
    cp.read(cfgp)
    cur = cp.get('bumpversion', 'current_version')
    chk.decide(cur == hv, 'version', '.bumpversion.cfg', 'version', 'current_version', '.bumpversion.cfg',
               '.bumpversion.cfg says %s, include/xraylib.h says %s' % (cur, hv), why='equals XRAYLIB_MAJOR.MINOR.MICRO')
    n = 0
    for sec in cp.sections():
        m = re.match(r'^bumpversion:file:(.+)$', sec)
        if not m:
            continue
        rel = m.group(1)
        search = cp.get(sec, 'search') if cp.has_option(sec, 'search') else '{current_version}'
        fp = os.path.join(repo, rel)
        if not os.path.exists(fp):
            chk.bad('version', rel, 'version', rel, rel, 'file listed in .bumpversion.cfg does not exist')
            continue
        txt = LB._read(fp)
        want = search.replace('{current_version}', hv)
        n += 1
        if want in txt:
            chk.ok('version', rel, 'contains "%s"' % want, rel)
        else:
            rx = re.escape(search).replace(re.escape('{current_version}'), r'([0-9]+\.[0-9]+\.[0-9]+)')
            mm = re.search(rx, txt)
            chk.bad('version', rel, 'version', rel, rel,
                    '%s states version %s; the headers say %s' % (rel, mm.group(1) if mm else '(pattern not found)', hv))
    chk.floor('version-bearing files', n, 6)
    # libtool triple agreement between meson.build and configure.ac
    mb = LB._read(os.path.join(repo, 'meson.build'))
    ca = LB._read(os.path.join(repo, 'configure.ac'))
    for mname, cname in (('lib_current', 'LIB_CURRENT'), ('lib_revision', 'LIB_REVISION'), ('lib_age', 'LIB_AGE')):
        a = re.search(r'^%s\s*=\s*(\d+)' % mname, mb, re.M)
        b = re.search(r'^%s=(\d+)' % cname, ca, re.M)
        if not a or not b:
            chk.inconclusive('version', 'meson.build/configure.ac', 'libtool number %s not found' % mname)
            continue
        chk.decide(a.group(1) == b.group(1), 'version', 'meson.build', 'libtool', mname, 'meson.build',
                   'meson.build has %s = %s, configure.ac has %s=%s' % (mname, a.group(1), cname, b.group(1)),
                   why='equal in both build systems')
