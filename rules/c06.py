"""C06 - compound quantities follow the mass-fraction mixture rule."""
import re

from xvlib.core import Check
from xvlib.frontend import AnalysisBroken
from xvlib.absint import run_function, Inconclusive
from xvlib.facts import show, walk, strip_casts
from xvlib.normform import Rat, Poly
from rules.common import noerr, sets_error, value_paths, zero_paths, strip_err_text, rename

REC = r'\((?P<ctor>CompoundParser|GetCompoundDataNISTByName)#(?P<id>\d+)\((?P<arg>\w+),0\)\)'


def iteration(p):
    for e in p.events:
        if e.kind == 'iter-end':
            return e
    return None


def branch_of(p):
    """'formula' / 'nist' / None from the constructor symbols alive on the path."""
    txt = ' '.join(repr(e) for e in p.events if e.kind == 'call')
    got_cd = any(e.kind == 'call' and e.name == 'CompoundParser' for e in p.events)
    got_cdn = any(e.kind == 'call' and e.name == 'GetCompoundDataNISTByName' for e in p.events)
    return 'nist' if got_cdn else ('formula' if got_cd else None)


def run(prog, tier):
    from rules.common import register_error_functions
    register_error_functions(prog)
    chk = Check('C06', tier, 'other',
                'Each of the 21 _CP functions (post-preprocessing, so the token-pasted names are resolved) and the three '
                'refractive-index entry points is enumerated path by path; one symbolic loop iteration gives the '
                'accumulation step, compared exactly with w_i x elemental(Z_i, own scalar parameters in order) taken from the '
                'same record and index; resolution order formula -> NIST -> error; zero term => result 0; refractive index '
                'real and imaginary formulas, agreement of the complex entry point with the _Re/_Im ones, density fallback '
                'only for NIST compounds with non-positive density, guards before the sums.',
                ['clang front end via xrl-facts', 'E1 path enumeration with one-iteration loop snapshots', 'E2 normal forms'],
                ['a resolved compound has at least one element (NIST: C15; parser: "no elements" exit)',
                 'agreement with the parser\'s composition is C07'])
    U = 'src/cs_cp.c'
    unit = prog.unit(U)
    cps = [f for f in unit['functions'] if f['name'].endswith('_CP')]
    chk.floor('_CP functions defined', len(cps), 21)
    protos = {p['name'] for p in prog.protos('include/xraylib.h') if p['name'].endswith('_CP')}
    defined = {f['name'] for f in cps}
    for n in sorted(protos ^ defined):
        chk.bad('cp-declared', U, n, 'prototype', 'include/xraylib.h', '%s is %s' % (n, 'declared in xraylib.h but not defined' if n in protos else 'defined but not declared in xraylib.h'))
    for n in sorted(protos & defined):
        chk.ok('cp-declared', n, 'declared and defined', nontrivial=False)
    lib = {f['name'] for f in prog.src_funcs()}
    for f in cps:
        cp_function(prog, chk, f, lib)
    refractive(prog, chk)
    formula_composition(prog, chk, tier)
    return chk


def loop_covers_record(node, p, ctor):
    """for (v = 0; v < n; v++) with n the element count of the record that `ctor` returned on this path"""
    if not node or node.get('k') != 'ForStmt':
        return False
    init0 = any(a.get('k') == 'BinaryOperator' and a['op'] == '=' and a['c'][1].get('v') == 0 for a in walk(node.get('init') or {}))
    cond = node.get('cond') or {}
    inc = node.get('inc') or {}
    if not (init0 and cond.get('op') == '<' and inc.get('k') == 'UnaryOperator' and inc.get('op') == '++' and show(inc['c'][0]) == show(cond['c'][0])):
        return False
    b = strip_casts(cond['c'][1])
    val = None
    if b.get('k') == 'DeclRefExpr' and b.get('id') in p.env and p.env[b['id']] is not None:
        val = p.env[b['id']].canon()
    else:
        val = show(b)
    return re.match(r'^\(?%s#\d+\(.*\)\)?(\.|->)nElements$' % re.escape(ctor), val or '') is not None


def cp_function(prog, chk, f, lib):
    U, name = f['unit'], f['name']
    loc = '%s:%d' % (f['rel'], f['ln'])
    callee = name[:-3]
    if callee not in lib:
        chk.bad('mixture-term', U, name, 'elemental', loc, 'no elemental function %s' % callee)
        return
    scal = [p['name'] for p in f['params'][1:-1]]
    comp = f['params'][0]['name']
    try:
        it, paths = run_function(prog, f, max_paths=2000)
    except Inconclusive as ex:
        chk.inconclusive('mixture-term', loc, str(ex))
        return
    for br, ctor in (('formula', 'CompoundParser'), ('nist', 'GetCompoundDataNISTByName')):
        mine = [p for p in paths if branch_of(p) == br]
        it_paths = [p for p in mine if iteration(p) is not None]
        ok = False
        msg = 'no path iterates over the elements'
        for p in it_paths:
            ev = iteration(p)
            acc = [k for k, (a, b) in ev.args.items() if b is not None and a.canon() in b.n.symbols() and not (b - a).is_zero()
                   and k not in ('i',) and not re.match(r'^%s \+ 1$' % re.escape(a.canon()), b.canon())]
            # accumulator = the variable returned
            retsyms = p.ret.n.symbols() if p.ret is not None else set()
            accs = [k for k in ev.args if any(s.startswith(k + '@L') for s in retsyms)]
            if len(accs) != 1:
                msg = 'cannot identify the accumulator that is returned'
                continue
            a, b = ev.args[accs[0]]
            delta = b - a
            if not delta.d.is_const() or len(delta.n.t) != 1:
                msg = 'accumulation step is not a single product: %s' % strip_err_text(delta.canon())
                continue
            mon, co = list(delta.n.t.items())[0]
            syms = dict(mon)
            msg = 'each element must contribute massFractions[i] * %s(Elements[i], %s) with both factors from the record returned by %s(compound) ' \
                  'and the same index; found %s' % (callee, ', '.join(scal), ctor, strip_err_text(delta.canon()))
            if co / delta.d.const_value() != 1 or len(syms) != 2 or any(v != 1 for v in syms.values()):
                continue
            csym = [s for s in syms if s.startswith(callee + '(')]
            msym = [s for s in syms if not s.startswith(callee + '(')]
            if len(csym) != 1 or len(msym) != 1:
                continue
            m1 = re.match(r'^%s\(\(%s\.Elements\)\[(?P<idx>[^\]]+)\],%s\)$' % (re.escape(callee), REC, ','.join(re.escape(x) for x in scal + ['error'])), csym[0])
            m2 = re.match(r'^\(%s\.massFractions\)\[(?P<idx>[^\]]+)\]$' % REC, msym[0])
            if not m1 or not m2:
                continue
            same = m1.group('ctor') == m2.group('ctor') == ctor and m1.group('id') == m2.group('id') and \
                m1.group('idx') == m2.group('idx') and m1.group('arg') == m2.group('arg') == comp
            if same:
                ok = True
                break
        chk.decide(ok, 'mixture-term', U, name, br, loc, msg,
                   why='w_i * %s(Z_i, %s, error), same record and index' % (callee, ', '.join(scal)))
        # the value handed back is the sum itself: nothing is applied to the accumulator after the loop
        res_ok, res_found = bool(it_paths), set()
        for p in it_paths:
            if p.ret is None or it.is_zero(p.ret, p):
                continue
            rs = p.ret.n.symbols() | p.ret.d.symbols()
            plain = len(rs) == 1 and p.ret.equals(Rat.sym(list(rs)[0])) and re.match(r'^\w+@L\d+$', list(rs)[0])
            if not plain:
                res_ok = False
                res_found.add(strip_err_text(p.ret.canon())[:120])
        chk.decide(res_ok, 'mixture-result', U, name, br, loc,
                   'the result must be the accumulated sum of w_i * %s(Z_i, ...) itself; the function returns %s' % (callee, sorted(res_found)),
                   why='returns the accumulator unchanged')
        rng = [loop_covers_record(iteration(p).node, p, ctor) for p in it_paths]
        chk.decide(bool(rng) and all(rng), 'all-elements', U, name, br, loc,
                   'the sum must run over every element of the resolved compound: i = 0 .. nElements-1 of the record returned by %s' % ctor,
                   why='for (i = 0; i < nElements; i++) over the record of %s' % ctor)
        # zero term => 0
        failing = []
        for p in mine:
            for c, t in p.conds:
                if t is True and c.get('k') == 'BinaryOperator' and c['op'] == '==' and c['c'][1].get('k') in ('FloatingLiteral', 'IntegerLiteral') \
                        and p.ret is not None and any(e.kind == 'call' and e.name == callee for e in p.events) and 'tmp' in show(c['c'][0]):
                    failing.append(p)
        chk.decide(bool(failing) and all(it.is_zero(p.ret, p) for p in failing), 'zero-term-fails', U, name, br, loc,
                   'when an element\'s contribution is 0 (the elemental function failed) the compound result must be 0; '
                   'found %s' % [strip_err_text(p.ret.canon()) for p in failing if not it.is_zero(p.ret, p)],
                   why='result 0 and loop left when a term is 0')
    # resolution order and unknown compound
    order_ok = True
    for p in paths:
        calls = [e.name for e in p.events if e.kind == 'call' and e.name in ('CompoundParser', 'GetCompoundDataNISTByName')]
        if calls not in (['CompoundParser'], ['CompoundParser', 'GetCompoundDataNISTByName']):
            order_ok = False
    chk.decide(order_ok, 'resolution-order', U, name, 'formula-then-NIST', loc,
               'the compound must be resolved as a formula first and as a NIST name only if that fails', why='CompoundParser first, NIST second')
    unk = [p for p in paths if branch_of(p) == 'nist' and iteration(p) is None and sets_error(p)]
    unk = [p for p in paths if sets_error(p) and p.ret is not None and it.is_zero(p.ret, p) and not any(e.kind == 'call' and e.name == callee for e in p.events)]
    chk.decide(len(unk) == 1, 'resolution-order', U, name, 'unknown-compound', loc,
               'a name that is neither a formula nor a NIST compound must give one error exit returning 0 (found %d)' % len(unk),
               why='UNKNOWN_COMPOUND error otherwise')


def const_factor(r):
    """c such that r = c * (monomial)/(monomial), or None."""
    if len(r.n.t) != 1 or len(r.d.t) != 1:
        return None
    return list(r.n.t.values())[0] / list(r.d.t.values())[0]


def refractive(prog, chk):
    U = 'src/refractive_indices.c'
    kd = prog.macro_value('KD')
    if kd is None:
        raise AnalysisBroken('macro KD not found')
    KD = Rat.const(kd)
    lits = {}
    res = {}
    for name in ('Refractive_Index_Re', 'Refractive_Index_Im', 'Refractive_Index'):
        f = prog.func(name, unit=U)
        loc = '%s:%d' % (f['rel'], f['ln'])
        comp, e, dens = (p['name'] for p in f['params'][:3])
        it, paths = run_function(prog, f, max_paths=4000)
        E = Rat.sym(e)
        for br, ctor in (('formula', 'CompoundParser'), ('nist', 'GetCompoundDataNISTByName')):
            mine = [p for p in paths if branch_of(p) == br and iteration(p) is not None and p.status == 'ret']
            # value paths: those that leave the loop normally
            vals = [p for p in mine if not any(t is True and 'fi ==' in show(c) or t is True and 'cs ==' in show(c) or
                                              t is True and 'atomic_weight ==' in show(c) for c, t in p.conds)]
            if not vals:
                chk.bad('refractive-formula', U, name, br, loc, 'no value path')
                continue
            rng = [loop_covers_record(iteration(p).node, p, ctor) for p in vals]
            chk.decide(all(rng), 'all-elements', U, name, br, loc,
                       'the sum must run over every element of the resolved compound: i = 0 .. nElements-1 of the record returned by %s' % ctor,
                       why='for (i = 0; i < nElements; i++) over the record of %s' % ctor)
            for p in vals:
                ev = iteration(p)
                dval = it.eval({'k': 'DeclRefExpr', 'name': dens, 'cls': 'param', 'id': f['params'][2]['id']}, p)
                rec = None
                for k, (a, b) in ev.args.items():
                    if b is None:
                        continue
                    m = re.search(REC, b.canon())
                    if m:
                        rec = '(%s#%s(%s,0))' % (m.group('ctor'), m.group('id'), m.group('arg'))
                        idx = re.search(r'\.Elements\)\[([^\]]+)\]', b.canon())
                if rec is None:
                    chk.bad('refractive-formula', U, name, br, loc, 'accumulation does not read the compound record')
                    continue
                i = idx.group(1)
                Z = Rat.sym('(%s.Elements)[%s]' % (rec, i))
                W = Rat.sym('(%s.massFractions)[%s]' % (rec, i))
                Z, W = noerr(Z), noerr(W)
                d_re = W * KD * (Z + noerr(Rat.sym('Fi((%s.Elements)[%s],%s,0)' % (rec, i, e)))) / noerr(Rat.sym('AtomicWeight((%s.Elements)[%s],0)' % (rec, i))) / E / E
                d_im = noerr(Rat.sym('CS_Total((%s.Elements)[%s],%s,0)' % (rec, i, e))) * W

                def step(var):
                    a, b = ev.args[var]
                    return noerr(b - a), a

                def acc_named(expected, fallback):
                    """the variable that accumulates `expected` per iteration (whatever it is called); otherwise the only variable, other
                    than the counter, that the iteration changes"""
                    changed = []
                    for k_, (a_, b_) in ev.args.items():
                        if b_ is None or a_ is None or k_ == i:
                            continue
                        try:
                            dlt = noerr(b_ - a_)
                        except Exception:
                            continue
                        if dlt.is_zero() or dlt.equals(Rat.const(1)):
                            continue
                        if dlt.equals(expected):
                            return k_
                        changed.append(k_)
                    if fallback in ev.args:
                        return fallback
                    return changed[0] if len(changed) == 1 else fallback
                inst = '%s %s' % (br, 'density-fallback' if dval.canon() != dens else 'given-density')
                if name == 'Refractive_Index_Re':
                    accn = acc_named(d_re, 'rv')
                    if accn not in ev.args:
                        chk.bad('refractive-formula', U, name, inst + ' step', loc, 'no accumulator found in the element loop')
                        continue
                    d, a = step(accn)
                    ok = d.equals(d_re)
                    chk.decide(ok, 'refractive-formula', U, name, inst + ' step', loc,
                               'real-part accumulation must add w_i*KD*(Z_i + Fi(Z_i,E))/A_i/E^2; found %s' % d.canon()[:300],
                               why='delta += w*KD*(Z+f\')/A/E^2')
                    # final: 1 - acc*density
                    fin = p.ret
                    accsym = [s for s in fin.n.symbols() if s.startswith(accn + '@L')]
                    okf = len(accsym) == 1 and fin.equals(Rat.const(1) - Rat.sym(accsym[0]) * dval)
                    chk.decide(okf, 'refractive-formula', U, name, inst + ' result', loc,
                               'result must be 1 - delta*density; found %s' % fin.canon()[:200], why='1 - delta*rho')
                    res.setdefault('re', set()).add('1-acc*rho')
                elif name == 'Refractive_Index_Im':
                    accn = acc_named(d_im, 'rv')
                    if accn not in ev.args:
                        chk.bad('refractive-formula', U, name, inst + ' step', loc, 'no accumulator found in the element loop')
                        continue
                    d, a = step(accn)
                    chk.decide(d.equals(d_im), 'refractive-formula', U, name, inst + ' step', loc,
                               'imaginary-part accumulation must add CS_Total(Z_i,E)*w_i; found %s' % d.canon()[:300], why='mu += CS_Total*w')
                    fin = p.ret
                    accsym = [s for s in fin.n.symbols() if s.startswith(accn + '@L')]
                    okf = False
                    if len(accsym) == 1:
                        c = const_factor(fin)
                        okf = c is not None and fin.equals(Rat.const(c) * Rat.sym(accsym[0]) * dval / E)
                        if okf:
                            lits['Im'] = c
                    chk.decide(okf, 'refractive-formula', U, name, inst + ' result', loc,
                               'result must be mu*density*c/E with a constant c; found %s' % fin.canon()[:200], why='mu*rho*c/E')
                else:
                    an_re, an_im = acc_named(d_re, 'delta'), acc_named(d_im, 'im')
                    if an_re not in ev.args or an_im not in ev.args:
                        chk.bad('refractive-formula', U, name, inst + ' step-re', loc, 'the two accumulators of the element loop were not found')
                        continue
                    d1, _ = step(an_re)
                    d2, _ = step(an_im)
                    chk.decide(d1.equals(d_re), 'refractive-formula', U, name, inst + ' step-re', loc,
                               'real-part accumulation must add w_i*KD*(Z_i + Fi(Z_i,E))/A_i/E^2; found %s' % d1.canon()[:300],
                               why='same step as Refractive_Index_Re')
                    chk.decide(d2.equals(d_im), 'refractive-formula', U, name, inst + ' step-im', loc,
                               'imaginary-part accumulation must add CS_Total(Z_i,E)*w_i; found %s' % d2.canon()[:300],
                               why='same step as Refractive_Index_Im')
                    re_ = p.mem.get('rv.re')
                    im_ = p.mem.get('rv.im')
                    okre = okim = False
                    if re_ is not None:
                        accsym = [s for s in re_.n.symbols() if s.startswith(an_re + '@L')]
                        okre = len(accsym) == 1 and re_.equals(Rat.const(1) - Rat.sym(accsym[0]) * dval)
                    if im_ is not None:
                        accsym = [s for s in im_.n.symbols() if s.startswith(an_im + '@L')]
                        if len(accsym) == 1:
                            c = const_factor(im_)
                            okim = c is not None and im_.equals(Rat.const(c) * Rat.sym(accsym[0]) * dval / E)
                            if okim:
                                lits['Complex'] = c
                    chk.decide(okre, 'refractive-formula', U, name, inst + ' result-re', loc,
                               'real part must be 1 - delta*density (as Refractive_Index_Re); found %s' % (re_.canon()[:200] if re_ is not None else None),
                               why='1 - delta*rho')
                    chk.decide(okim, 'refractive-formula', U, name, inst + ' result-im', loc,
                               'imaginary part must be mu*density*c/E (as Refractive_Index_Im); found %s' % (im_.canon()[:200] if im_ is not None else None),
                               why='mu*rho*c/E')
                # guards
                ivd = it.interval_of(dval, p)
                ive = it.interval_of(E, p)
                chk.decide(ivd.lo is not None and ivd.lo >= 0 and (ivd.lo > 0 or ivd.los), 'refractive-guards', U, name, inst + ' density>0', loc,
                           'the sums are reached without establishing density > 0', why='density > 0 on the value path')
                chk.decide(ive.lo is not None and ive.lo >= 0 and (ive.lo > 0 or ive.los), 'refractive-guards', U, name, inst + ' E>0', loc,
                           'the sums are reached without establishing E > 0', why='E > 0 on the value path')
                if br == 'formula':
                    chk.decide(dval.canon() == dens, 'refractive-guards', U, name, 'formula density', loc,
                               'a formula compound must use the caller\'s density; found %s' % dval.canon(), why='caller density used')
                elif dval.canon() != dens:
                    ivp = it.interval_of(Rat.sym(dens), p)
                    chk.decide(ivp.hi is not None and ivp.hi <= 0 and '.density' in dval.canon(), 'refractive-guards', U, name, 'nist fallback', loc,
                               'the NIST density replaces the caller\'s density although that was positive (or is not the record\'s density)',
                               why='tabulated density only when the given one is <= 0')
            # elemental failure => zero result
            fails = [p for p in paths if branch_of(p) == br and any(t is True and c.get('k') == 'BinaryOperator' and c['op'] == '==' and
                                                                   show(c['c'][0]) in ('fi', 'cs', 'atomic_weight') for c, t in p.conds)]
            okz = bool(fails)
            for p in fails:
                if name == 'Refractive_Index':
                    z1, z2 = p.mem.get('rv.re'), p.mem.get('rv.im')
                    okz = okz and z1 is not None and z2 is not None and z1.is_zero() and z2.is_zero()
                else:
                    okz = okz and p.ret is not None and it.is_zero(p.ret, p)
            chk.decide(okz, 'refractive-guards', U, name, br + ' elemental-failure', loc,
                       'an element for which Fi / AtomicWeight / CS_Total fails must make the call return 0', why='0 on elemental failure')
    if 'Im' in lits and 'Complex' in lits:
        chk.decide(lits['Im'] == lits['Complex'], 'refractive-agreement', U, 'Refractive_Index', 'imaginary constant', U,
                   'Refractive_Index uses the constant %s, Refractive_Index_Im %s' % (float(lits['Complex']), float(lits['Im'])),
                   why='same constant %s in both' % float(lits['Im']))
    else:
        chk.inconclusive('refractive-agreement', U, 'could not extract the imaginary-part constant from both functions')



def formula_composition(prog, chk, tier):
    """"For every chemical formula ... the sum over the compound's elements of mass fraction times the elemental function": the record
    the _CP functions sum over must be the composition the formula denotes - atom counts with group multipliers and fractional
    subscripts, mass fractions = count x atomic weight / molar mass.  That is the parser analysis of rules/c07.py (structural induction
    over the formula); its verdicts are read here as the composition clause of this property."""
    from rules import c07
    shim = c07.run(prog, tier)
    take = ('merge-adds-count', 'count-is-subscript', 'group-recursion', 'element-known', 'composition-formulas', 'weights-paired', 'sorted-by-Z',
            'no-weight-rejected', 'scanner-alphabet')
    n = 0
    for rule, inst, why, loc in shim.held:
        if rule in take:
            n += 1
    bad = [v for v in shim.violations if v['rule'] in take]
    for v in bad:
        chk.bad('formula-composition', v['unit'], v['function'], '%s: %s' % (v['rule'], v['instance']), v['loc'],
                'the composition that every _CP function and the refractive index sum over is not the one the formula denotes: ' + v['message'])
    if not bad:
        chk.ok('formula-composition', 'CompoundParser', 'the parser analysis of C07 holds (%d obligations on counts, multipliers, subscripts, fractions)' % n, 'src/xraylib-parser.c')
    chk.floor('parser obligations behind the composition clause', n + len(bad), 100)
