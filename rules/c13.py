"""C13 - crystal diffraction results obey Bragg's law and structure-factor algebra (structure decided; numeric
agreement with the atomic factors and Debye semantics are not)."""
import re
from fractions import Fraction

from xvlib.core import Check
from xvlib.frontend import AnalysisBroken
from xvlib.absint import run_function, Inconclusive
from xvlib.facts import walk, show, calls_in, strip_casts
from xvlib.normform import Rat, Poly, subst, reduce_trig
from rules.common import sets_error, value_paths, zero_paths, noerr, register_error_functions, rename, full_range

U = 'src/crystal_diffraction.c'


def run(prog, tier):
    register_error_functions(prog)
    chk = Check('C13', tier, 'other',
                'Exact normal forms of the crystal functions: d-spacing = (V/abc)/sqrt(R) with R the triclinic reciprocal-metric '
                'quadratic form in the Miller indices (every monomial of degree 2 => inversion invariance and 1/n scaling; '
                'invariant under relabelling of the three axes), cell volume formula, Bragg angle = asin(hc/E/(2d)) behind a '
                'domain guard, Q = E sin(rel*theta_B)/hc; structure factor accumulation = occupancy x (f_re + i f_im) x '
                '(cos + i sin)(2 pi H.r), the flag table of f_re/f_im (additivity, f_im = 0 when the absorptive term is off), '
                'invalid flags are errors.',
                ['clang front end', 'E1 path enumeration with per-iteration snapshots', 'E2 normal forms'],
                ['numeric agreement with FF_Rayl/Fi/Fii and Debye factor semantics are not decided'])
    pi = Rat.const(prog.macro_value('PI'))
    kev = Rat.const(prog.macro_value('KEV2ANGST'))
    dspacing(prog, chk, pi)
    volume(prog, chk, pi)
    bragg(prog, chk, kev)
    structure_factor(prog, chk, pi)
    stored_volume(prog, chk, tier)
    no_cached_state(prog, chk)
    full_is_partial_222(prog, chk)
    return chk


def full_is_partial_222(prog, chk):
    """The full structure factor is the partial one with all three terms switched on: every entry point that delegates to
    Crystal_F_H_StructureFactor_Partial hands each of its own parameters to the callee's parameter OF THE SAME NAME (crystal, energy,
    the Miller indices, debye_factor, rel_angle, error), and the three flags are 2 unless the entry point has flag parameters itself."""
    target = prog.func('Crystal_F_H_StructureFactor_Partial', unit=U)
    tp = [p['name'] for p in target['params']]
    n = 0
    for f in prog.src_funcs():
        if f['unit'] != U or f['name'] == target['name']:
            continue
        for c in calls_in(f['body'], 'Crystal_F_H_StructureFactor_Partial'):
            n += 1
            own = {p['name'] for p in f['params']}
            wrong = []
            for name, a in zip(tp, c['args']):
                a0 = strip_casts(a)
                if name in own:
                    if not (a0.get('k') == 'DeclRefExpr' and a0.get('name') == name):
                        wrong.append('%s receives %s' % (name, show(a0)[:30]))
                elif name.endswith('_flag'):
                    if a0.get('v', a0.get('val')) != 2:
                        wrong.append('%s is %s, not 2' % (name, show(a0)[:20]))
            chk.decide(not wrong and len(c['args']) == len(tp), 'full-is-partial-222', U, f['name'], 'delegation@%d' % c['ln'], '%s:%d' % (U, c['ln']),
                       '%s must hand its parameters to the parameters of the same name of Crystal_F_H_StructureFactor_Partial with all flags 2: %s' % (
                           f['name'], '; '.join(wrong)), why='same-named parameters forwarded, flags 2,2,2')
    chk.floor('entry points delegating to the partial structure factor', n, 3)


def no_cached_state(prog, chk):
    """The formulas are decided per call: "for every crystal, Miller triple and energy" the result is the explicit sum, whatever was
    computed before.  A function-static table (e.g. the per-element cache of the structure-factor routine made static) carries the
    atomic factors of an earlier energy / reflection / flag set into later calls.  Decided: none of the crystal functions (and none
    of the library functions they call) declares a static local."""
    from xvlib.effects import lib_functions, call_graph, reachable
    funcs = lib_functions(prog)
    cg = call_graph(prog, funcs)
    roots = ['Crystal_F_H_StructureFactor', 'Crystal_F_H_StructureFactor_Partial', 'Crystal_dSpacing', 'Crystal_UnitCellVolume', 'Bragg_angle',
             'Q_scattering_amplitude', 'Atomic_Factors']
    seen = set()
    for r in roots:
        if r in funcs:
            seen |= set(reachable(cg, r)) | {r}
    n = 0
    for name in sorted(seen):
        f = funcs.get(name)
        if f is None or not f.get('body'):
            continue
        n += 1
        statics = [x for x in walk(f['body']) if x.get('k') == 'var' and x.get('cls') == 'slocal']
        chk.decide(not statics, 'no-cached-state', f['unit'], name, 'static locals', '%s:%d' % (f['rel'], statics[0]['ln'] if statics else f['ln']),
                   '%s keeps %s in static storage: values computed for one call (energy, reflection, Debye factor, flags) are reused by later calls, so the '
                   'result is no longer the explicit sum for the arguments given' % (name, [x.get('name') for x in statics]),
                   why='no static locals')
    chk.floor('functions reachable from the crystal API', n, 10)


def stored_volume(prog, chk, tier):
    """"the stored cell volume agrees with the recomputed one": d-spacing divides the STORED volume, so every operation that creates an
    entry must store Crystal_UnitCellVolume of that very entry.  The two producers are Crystal_AddCrystal and Crystal_ReadFile; the
    analysis is the one of rules/c14.py (volume of the inserted slot; the reader's loop over every entry after the sort), read here as
    the volume clause of this property."""
    from rules import c14
    shim = Check('C13', tier, 'other', '', [], [])
    c14.add_crystal(prog, shim)
    c14.read_file(prog, shim)
    n = 0
    for rule, inst, why, loc in shim.held:
        if rule in ('volume-of-inserted-entry', 'reader-recomputes-volumes'):
            n += 1
            chk.ok('stored-volume', inst, why, loc)
    for v in shim.violations:
        if v['rule'] in ('volume-of-inserted-entry', 'reader-recomputes-volumes'):
            n += 1
            chk.bad('stored-volume', v['unit'], v['function'], v['instance'], v['loc'],
                    'the volume stored in a crystal entry is not the volume of that entry\'s own cell: ' + v['message'])
    chk.floor('producers of stored volumes', n, 2)


def trig(fn, field, pi, base='crystal'):
    arg = Rat.sym('%s.%s' % (base, field)) * pi / Rat.const(180)
    return Rat.sym('%s(%s)' % (fn, arg.canon()))


def dspacing(prog, chk, pi):
    f = prog.func('Crystal_dSpacing', unit=U)
    it, paths = run_function(prog, f)
    h, k, l = (p['name'] for p in f['params'][1:4])
    vals = value_paths(it, paths)
    loc = '%s:%d' % (U, f['ln'])
    chk.floor('d-spacing value paths', len(vals), 1)
    a, b, c, V = (Rat.sym('crystal.' + x) for x in ('a', 'b', 'c', 'volume'))
    ca, cb, cg = trig('cos', 'alpha', pi), trig('cos', 'beta', pi), trig('cos', 'gamma', pi)
    sa2, sb2, sg2 = (Rat.const(1) - x * x for x in (ca, cb, cg))
    H, K, Lm = Rat.sym(h), Rat.sym(k), Rat.sym(l)
    two = Rat.const(2)
    R_want = H * H * sa2 / (a * a) + K * K * sb2 / (b * b) + Lm * Lm * sg2 / (c * c) + \
        two * H * K * (ca * cb - cg) / (a * b) + two * H * Lm * (ca * cg - cb) / (a * c) + two * K * Lm * (cb * cg - ca) / (b * c)
    for p in vals:
        sq = [e for e in p.events if e.kind == 'call' and e.name == 'sqrt']
        ploc = '%s:%d' % (U, p.ret_node['ln'])
        if len(sq) != 1:
            chk.bad('d-spacing', U, 'Crystal_dSpacing', 'shape', ploc, 'expected one square root')
            continue
        A = sq[0].args[0]
        okshape = p.ret.equals(V / (a * b * c) * sq[0].result)
        chk.decide(okshape, 'd-spacing', U, 'Crystal_dSpacing', 'prefactor', ploc,
                   'd must be (volume/(a*b*c)) * sqrt(1/R); found %s' % p.ret.canon()[:160], why='(V/abc) * sqrt(1/R)')
        R = Rat.const(1) / A
        chk.decide(R.equals(R_want), 'd-spacing', U, 'Crystal_dSpacing', 'reciprocal-metric', ploc,
                   'the radicand is not the triclinic reciprocal-metric form h^2 sin^2(alpha)/a^2 + ... + 2hk(cos alpha cos beta - cos gamma)/(ab) '
                   '+ 2hl(cos alpha cos gamma - cos beta)/(ac) + 2kl(cos beta cos gamma - cos alpha)/(bc); difference = %s' % (R - R_want).canon()[:300],
                   why='equals the reciprocal-metric formula')
        # quadratic form: total degree 2 in the Miller indices for every monomial
        num, den = reduce_trig(R.n), reduce_trig(R.d)
        okq = all(sum(pw for s_, pw in mon if s_ in (h, k, l)) == 2 for mon in num.t) and \
            all(sum(pw for s_, pw in mon if s_ in (h, k, l)) == 0 for mon in den.t)
        chk.decide(okq, 'd-spacing', U, 'Crystal_dSpacing', 'quadratic-form', ploc,
                   'the radicand is not a homogeneous quadratic form in the Miller indices: d would not be invariant under inversion nor scale as 1/n',
                   why='homogeneous of degree 2 in (h,k,l)')
        # axis relabelling symmetry (a,alpha,h) -> (b,beta,k) -> (c,gamma,l) -> (a,alpha,h)
        def perm(s):
            s = s.replace('.alpha', '.\0A').replace('.beta', '.\0B').replace('.gamma', '.\0C')
            s = s.replace('crystal.a', 'crystal.\0a').replace('crystal.b', 'crystal.\0b').replace('crystal.c', 'crystal.\0c')
            s = s.replace('\0A', 'beta').replace('\0B', 'gamma').replace('\0C', 'alpha')
            s = s.replace('\0a', 'b').replace('\0b', 'c').replace('\0c', 'a')
            return s

        def permsym(s):
            if s == h:
                return k
            if s == k:
                return l
            if s == l:
                return h
            return perm(s)
        Rp = rename(R, permsym)
        chk.decide(Rp.equals(R), 'd-spacing', U, 'Crystal_dSpacing', 'axis-symmetry', ploc,
                   'the radicand changes when the three crystal axes are relabelled cyclically (a,alpha,h)->(b,beta,k)->(c,gamma,l): one '
                   'term uses the wrong edge or angle', why='invariant under cyclic relabelling of the axes')
    zs = zero_paths(it, paths)
    z000 = [p for p in zs if all(it.interval_of(Rat.sym(x), p).is_zero() for x in (h, k, l))]
    chk.decide(bool(z000) and all(sets_error(p) for p in z000), 'd-spacing', U, 'Crystal_dSpacing', '(0,0,0)', loc,
               'Miller indices (0,0,0) must be an error', why='(0,0,0) rejected with an error')


def volume(prog, chk, pi):
    f = prog.func('Crystal_UnitCellVolume', unit=U)
    it, paths = run_function(prog, f)
    vals = value_paths(it, paths)
    a, b, c = (Rat.sym('crystal.' + x) for x in ('a', 'b', 'c'))
    ca, cb, cg = trig('cos', 'alpha', pi), trig('cos', 'beta', pi), trig('cos', 'gamma', pi)
    rad = Rat.const(1) - ca * ca - cb * cb - cg * cg + Rat.const(2) * ca * cb * cg
    ok = False
    for p in vals:
        sq = [e for e in p.events if e.kind == 'call' and e.name == 'sqrt']
        if len(sq) == 1 and sq[0].args[0].equals(rad) and p.ret.equals(a * b * c * sq[0].result):
            ok = True
    chk.decide(ok and len(vals) == 1, 'cell-volume', U, 'Crystal_UnitCellVolume', 'formula', '%s:%d' % (U, f['ln']),
               'volume must be a*b*c*sqrt(1 - cos^2 alpha - cos^2 beta - cos^2 gamma + 2 cos alpha cos beta cos gamma); found %s' % [p.ret.canon()[:200] for p in vals],
               why='triclinic cell volume')


def bragg(prog, chk, kev):
    f = prog.func('Bragg_angle', unit=U)
    it, paths = run_function(prog, f)
    vals = value_paths(it, paths)
    e = f['params'][1]['name']
    ok = False
    guard = False
    for p in vals:
        ds = [ev for ev in p.events if ev.kind == 'call' and ev.name == 'Crystal_dSpacing']
        asn = [ev for ev in p.events if ev.kind == 'call' and ev.name == 'asin']
        if len(ds) == 1 and len(asn) == 1:
            arg = asn[0].args[0]
            want = kev / Rat.sym(e) / (Rat.const(2) * ds[0].result)
            ok = arg.equals(want) and p.ret.equals(asn[0].result)
            iv = it.interval_of(arg, p)
            guard = iv.lo is not None and iv.hi is not None and iv.lo >= -1 and iv.hi <= 1
            margs = [a.canon() for a in ds[0].args[:4]]
            ok = ok and margs == [prm['name'] for prm in f['params'][:1]] + [prm['name'] for prm in f['params'][2:5]]
    loc = '%s:%d' % (U, f['ln'])
    chk.decide(ok and len(vals) == 1, 'bragg', U, 'Bragg_angle', 'law', loc,
               'the Bragg angle must be asin((hc/E)/(2 d(h,k,l))) with d from Crystal_dSpacing of the same crystal and indices; found %s' % [p.ret.canon()[:160] for p in vals],
               why='2 d sin(theta) = hc/E')
    chk.decide(guard, 'bragg', U, 'Bragg_angle', 'no-reflection', loc,
               'when hc/E exceeds 2d no reflection exists: the asin argument must be established to lie in [-1,1], otherwise NaN is returned without an error',
               why='asin argument guarded to [-1,1]; error otherwise')
    f = prog.func('Q_scattering_amplitude', unit=U)
    it, paths = run_function(prog, f)
    vals = value_paths(it, paths)
    e, rel = f['params'][1]['name'], f['params'][5]['name']
    ok = bool(vals)
    for p in vals:
        ba = [ev for ev in p.events if ev.kind == 'call' and ev.name == 'Bragg_angle']
        sn = [ev for ev in p.events if ev.kind == 'call' and ev.name == 'sin']
        ok = ok and len(ba) == 1 and len(sn) == 1 and sn[0].args[0].equals(Rat.sym(rel) * ba[0].result) and \
            p.ret.equals(Rat.sym(e) * sn[0].result / kev) and \
            [a.canon() for a in ba[0].args[:5]] == [prm['name'] for prm in f['params'][:5]]
    chk.decide(ok, 'bragg', U, 'Q_scattering_amplitude', 'formula', '%s:%d' % (U, f['ln']),
               'Q must be E*sin(rel_angle*Bragg_angle(crystal,E,h,k,l))/hc; found %s' % [p.ret.canon()[:160] for p in vals], why='E sin(rel*theta_B)/hc')


def structure_factor(prog, chk, pi):
    f = prog.func('Crystal_F_H_StructureFactor_Partial', unit=U)
    it, paths = run_function(prog, f, max_paths=20000)
    names = [p['name'] for p in f['params']]
    h, k, l = names[2], names[3], names[4]
    f0f, fpf, fp2f = names[7], names[8], names[9]
    loc = '%s:%d' % (U, f['ln'])
    done = [p for p in paths if p.status == 'ret' and len([e for e in p.events if e.kind == 'iter-end']) == 2]
    chk.floor('structure-factor paths through both loops', len(done), 6)
    acc_ok = True
    acc_msg = ''
    table = {}
    loops_ok = all(full_range(e.node, 'n_atom') for p in done for e in p.events if e.kind == 'iter-end')
    chk.decide(loops_ok, 'structure-factor-sum', U, f['name'], 'all-atoms', loc,
               'both loops (per-element factors, sum over the unit cell) must visit every atom i = 0 .. n_atom-1 of the crystal',
               why='for (i = 0; i < n_atom; i++) in both loops')
    for p in done:
        its = [e for e in p.events if e.kind == 'iter-end']
        second = its[1]
        lid = second.id
        i2 = 'i@L%d' % lid
        at = 'crystal.atom[%s]' % i2
        Z = Rat.sym(at + '.Zatom')
        occ = Rat.sym(at + '.fraction')
        hr = Rat.const(2) * pi * (Rat.sym(h) * Rat.sym(at + '.x') + Rat.sym(k) * Rat.sym(at + '.y') + Rat.sym(l) * Rat.sym(at + '.z'))
        c_, s_ = Rat.sym('cos(%s)' % hr.canon()), Rat.sym('sin(%s)' % hr.canon())
        fre, fim = Rat.sym('f_re[%s]' % Z.canon()), Rat.sym('f_im[%s]' % Z.canon())
        d_re = second.value.get('F_H.re')
        d_im = second.value.get('F_H.im')
        if d_re is None or d_im is None:
            acc_ok = False
            acc_msg = 'F_H.re / F_H.im are not accumulated in the second loop'
            continue
        d_re = d_re - Rat.sym('F_H.re@L%d' % lid)    # value of the accumulator at the start of the iteration
        d_im = d_im - Rat.sym('F_H.im@L%d' % lid)
        w_re = occ * (fre * c_ - fim * s_)
        w_im = occ * (fre * s_ + fim * c_)
        if not (d_re.equals(w_re) and d_im.equals(w_im)):
            acc_ok = False
            acc_msg = 'per atom the structure factor must grow by occupancy*(f_re + i f_im)*(cos + i sin)(2 pi (h x + k y + l z)) with the factors of ' \
                      'that atom\'s own Z; found d(re) = %s ; d(im) = %s' % (d_re.canon()[:260], d_im.canon()[:260])
        # flag table from the first loop
        first = its[0]
        z1 = 'crystal.atom[i@L%d].Zatom' % first.id
        vre = first.value.get('f_re[%s]' % z1)
        vim = first.value.get('f_im[%s]' % z1)
        flags = []
        for nm in (f0f, fpf, fp2f):
            iv = it.interval_of(Rat.sym(nm), p)
            flags.append(int(iv.lo) if iv.lo is not None and iv.lo == iv.hi else None)
        af = [e for e in p.events if e.kind == 'call' and e.name == 'Atomic_Factors']
        if vre is not None and vim is not None and None not in flags and af:
            cid = af[0].id
            table[tuple(flags)] = (vre, vim, cid)
    chk.decide(acc_ok, 'structure-factor-sum', U, f['name'], 'accumulation', loc, acc_msg, why='occ*(f_re + i f_im)*exp(i 2pi H.r) per atom')
    want_n = 0
    for (a, b, c), (vre, vim, cid) in sorted(table.items()):
        f0, fp, fp2 = (Rat.sym('%s@%d' % (x, cid)) for x in ('f0', 'f_prime', 'f_prime2'))
        wre = {0: Rat.const(0), 1: Rat.const(1), 2: f0}.get(a)
        wre2 = {0: Rat.const(0), 2: fp}.get(b)
        wim = {0: Rat.const(0), 2: fp2}.get(c)
        inst = 'flags=(%d,%d,%d)' % (a, b, c)
        if wre is None or wre2 is None or wim is None:
            chk.bad('flag-table', U, f['name'], inst, loc, 'a value is computed for an invalid flag combination')
            continue
        want_n += 1
        chk.decide(vre.equals(wre + wre2) and vim.equals(wim), 'flag-table', U, f['name'], inst, loc,
                   'with flags %s the real atomic factor must be {0,1,f0}[f0_flag] + {0,f\'}[f_prime_flag] and the imaginary one {0,f\'\'}[f_prime2_flag]; '
                   'found f_re = %s, f_im = %s' % (inst, vre.canon(), vim.canon()), why='f_re/f_im selected by the flags (additive)')
    chk.floor('flag combinations served', want_n, 12)
    # invalid flags are errors
    bad = [p for p in paths if p.status == 'ret' and sets_error(p) and any(isinstance(t, tuple) and t[0] == 'default' for c_, t in p.conds)]
    chk.decide(len(bad) >= 3, 'flag-table', U, f['name'], 'invalid-flag-error', loc,
               'each of the three flag switches must reject other values with an error (found %d such exits)' % len(bad), why='invalid flags rejected')
    # Atomic_Factors is called with this atom's Z and the q of this reflection
    okaf = True
    for p in done:
        af = [e for e in p.events if e.kind == 'call' and e.name == 'Atomic_Factors']
        qs = [e for e in p.events if e.kind == 'call' and e.name == 'Q_scattering_amplitude']
        for e in af:
            if not (re.match(r'^\(?crystal\)?\.atom\[i@L\d+\]\.Zatom$', e.args[0].canon()) and e.args[1].canon() == names[1] and
                    qs and e.args[2].equals(qs[0].result) and e.args[3].canon() == names[5]):
                okaf = False
    chk.decide(okaf, 'structure-factor-sum', U, f['name'], 'atomic-factors-arguments', loc,
               'Atomic_Factors must be evaluated for the atom\'s own Z, the given energy, q = Q_scattering_amplitude(...) and the given Debye factor',
               why='(Z_atom, E, q(H), debye)')
