"""C05 - totals, per-atom and differential cross sections obey their defining identities."""
import re

from xvlib.core import Check
from xvlib.frontend import AnalysisBroken
from xvlib.absint import run_function, Inconclusive, Interp
from xvlib.facts import show, walk
from xvlib.normform import Rat
from rules.common import noerr, sets_error, value_paths, zero_paths, strip_err_text

PREFIX = (('CSb_', 'CS_'), ('DCSb_', 'DCS_'), ('DCSPb_', 'DCSP_'))
# frozen: pairs whose primary is the barn function (confirmed by reading kissel_pe.c): the cm2/g function is derived
REVERSE = {'CS_Photo_Total': ('CSb_Photo_Total', None), 'CS_Photo_Partial': ('CSb_Photo_Partial', 'occupancy')}


def run(prog, tier):
    from rules.common import register_error_functions
    register_error_functions(prog)
    chk = Check('C05', tier, 'other',
                'Identity shapes decided on the abstract paths of every aggregate / unit-variant entry point: each barn '
                'twin returns its cm2/g twin (same arguments, same order) times A/N_A, tested before use; CS_Total and '
                'CS_Total_Kissel return the sum of exactly their three parts, each part tested so that no partial sum '
                'is returned; CSb_Photo_Total accumulates occupancy-weighted partial cross sections over all Kissel shells; '
                'the four differential functions are N_A/A x F^2 (or S) x Thomson (or Klein-Nishina) at the momentum '
                'transfer of (E, theta). Comparison of exact rational normal forms.',
                ['clang front end via xrl-facts', 'E1 path enumeration', 'E2 normal forms'],
                ['numerical agreement follows from the shapes up to rounding; not evaluated'])
    avog = Rat.const(prog.macro_value('AVOGNUM'))
    funcs = {}
    for f in prog.src_funcs():
        if f['unit'] in ('src/pr_data.c', 'src/xrayfiles.c'):
            continue
        funcs.setdefault(f['name'], f)
    ntw = 0
    for name, f in sorted(funcs.items()):
        if name.endswith('_CP'):
            continue
        twin = None
        for pb, pa in PREFIX:
            if name.startswith(pb):
                twin = pa + name[len(pb):]
        if twin is None or name in [v[0] for v in REVERSE.values()]:
            continue
        if twin not in funcs:
            chk.bad('barn-twin', f['unit'], name, 'twin', '%s:%d' % (f['rel'], f['ln']), 'no cm2/g function %s for the barn function %s' % (twin, name))
            continue
        # the un-suffixed Kissel barn functions are twins of the full-cascade cm2/g functions (C08 R5)
        alt = {'CS_FluorLine_Kissel': 'CS_FluorLine_Kissel_Cascade', 'CS_FluorShell_Kissel': 'CS_FluorShell_Kissel_Cascade'}
        ntw += 1
        twin_rule(prog, chk, f, [twin] + ([alt[twin]] if twin in alt else []), avog, reverse=False)
    for name, (base, extra) in REVERSE.items():
        f = funcs.get(name)
        if not f:
            raise AnalysisBroken('anchor %s vanished' % name)
        ntw += 1
        twin_rule(prog, chk, f, [base], avog, reverse=True, extra=extra)
    chk.floor('unit-variant twins', ntw, 22)
    sum_rule(prog, chk, funcs['CS_Total'], ['CS_Photo', 'CS_Rayl', 'CS_Compt'])
    sum_rule(prog, chk, funcs['CS_Total_Kissel'], ['CS_Photo_Total', 'CS_Rayl', 'CS_Compt'])
    photo_total(prog, chk, funcs['CSb_Photo_Total'])
    dcs(prog, chk, funcs['DCS_Rayl'], 'FF_Rayl', True, 'DCS_Thoms', ['theta'])
    dcs(prog, chk, funcs['DCSP_Rayl'], 'FF_Rayl', True, 'DCSP_Thoms', ['theta', 'phi'])
    dcs(prog, chk, funcs['DCS_Compt'], 'SF_Compt', False, 'DCS_KN', ['E', 'theta'])
    dcs(prog, chk, funcs['DCSP_Compt'], 'SF_Compt', False, 'DCSP_KN', ['E', 'theta', 'phi'])
    return chk


def twin_rule(prog, chk, f, twins, avog, reverse, extra=None):
    U, name = f['unit'], f['name']
    loc = '%s:%d' % (f['rel'], f['ln'])
    it, paths = run_function(prog, f)
    args = [p['name'] for p in f['params'][:-1]]
    z = args[0]
    vals = value_paths(it, paths)
    A = [Rat.sym('AtomicWeight(%s)' % z), Rat.sym('AtomicWeight_arr[%s]' % z)]
    ok = False
    used = None
    for tw in twins:
        base = Rat.sym('%s(%s)' % (tw, ','.join(args)))
        for a in A:
            want = base * avog / a if reverse else base * a / avog
            if extra == 'occupancy':
                want = want * Rat.sym('Electron_Config_Kissel[%s][%s]' % (z, args[1]))
            if len(vals) == 1 and noerr(vals[0].ret).equals(want):
                ok = True
                used = (tw, a)
    chk.decide(ok, 'barn-twin', U, name, 'value', loc,
               '%s must return %s(%s) %s%s; found %s' % (
                   name, twins[0], ', '.join(args), '* N_A / A' if reverse else '* A / N_A',
                   ' * occupancy' if extra else '', [strip_err_text(v.ret.canon()) for v in vals]),
               why='%s(%s) %s' % (twins[0], ', '.join(args), '* N_A / A' if reverse else '* A / N_A'))
    if not ok:
        return
    p = vals[0]
    tw = used[0]
    calls = [e for e in p.events if e.kind == 'call' and e.name == tw]
    chk.decide(len(calls) == 1 and calls[0].args[-1].canon() == 'error', 'barn-twin', U, name, 'error-forwarded', loc,
               'the twin is not called exactly once with the caller\'s error slot (a failure would go unreported)',
               why='twin called once with the caller\'s error slot')
    tsym = calls[0].result if calls else None
    chk.decide(tsym is not None and it.interval_of(tsym, p).excludes_zero(), 'barn-twin', U, name, 'twin-tested', loc,
               'the twin\'s result is used without testing it for failure (0)', why='twin result tested non-zero before use')
    aw = [e for e in p.events if e.kind == 'call' and e.name == 'AtomicWeight']
    if aw:
        chk.decide(it.interval_of(aw[0].result, p).excludes_zero(), 'barn-twin', U, name, 'weight-tested', loc,
                   'AtomicWeight is used without testing it for failure', why='atomic weight tested non-zero')
    zp = zero_paths(it, paths)
    chk.decide(len(zp) >= 1 and len(zp) + len(vals) == len([p_ for p_ in paths if p_.ret is not None]), 'barn-twin', U, name,
               'failure', loc, 'every other path must return 0', why='%d failure paths return 0' % len(zp))


def sum_rule(prog, chk, f, parts):
    U, name = f['unit'], f['name']
    loc = '%s:%d' % (f['rel'], f['ln'])
    it, paths = run_function(prog, f)
    z, e = f['params'][0]['name'], f['params'][1]['name']
    vals = value_paths(it, paths)
    want = Rat.const(0)
    for p_ in parts:
        want = want + Rat.sym('%s(%s,%s)' % (p_, z, e))
    ok = len(vals) == 1 and noerr(vals[0].ret).equals(want)
    chk.decide(ok, 'total-is-sum', U, name, 'value', loc,
               '%s must return %s of the same (Z, E); found %s' % (name, ' + '.join(parts), [strip_err_text(v.ret.canon()) for v in vals]),
               why=' + '.join(parts))
    if not ok:
        return
    p = vals[0]
    for part in parts:
        calls = [ev for ev in p.events if ev.kind == 'call' and ev.name == part]
        good = len(calls) == 1 and it.interval_of(calls[0].result, p).excludes_zero() and calls[0].args[-1].canon() == 'error'
        chk.decide(good, 'no-partial-sum', U, name, part, loc,
                   'the value path does not establish that %s succeeded (result tested non-zero, error slot forwarded): with '
                   '%s undefined a partial sum would be returned' % (part, part), why='%s tested before the sum is returned' % part)
    # "wherever the parts are defined" the total is defined: the total's OWN failure exits (no part has failed on the path) may test the
    # arguments and the availability tables that the parts themselves test, nothing else - a guard on a foreign table (the table of
    # another quantity) makes the total fail for elements whose parts all succeed
    def own_tables(fn, itf, pth):
        zname = fn['params'][0]['name']
        out = {}
        for q in zero_paths(itf, pth):
            if not sets_error(q):
                continue
            failed = [ev for ev in q.events if ev.kind == 'call' and ev.result is not None and ev.name in parts and itf.is_zero(ev.result, q)]
            if failed:
                continue
            for key, iv in q.facts.items():
                m_ = re.match(r'^(\w+)\[%s\]$' % re.escape(zname), key)
                if m_ and (iv.lo is not None or iv.hi is not None or iv.nz):
                    out.setdefault(m_.group(1), q.ret_node['ln'])
        return out
    allowed = set()
    todo, done = list(parts), set()
    while todo:
        part = todo.pop()
        if part in done or len(done) > 40:
            continue
        done.add(part)
        pf = prog.func(part, required=False)
        if pf is None or not pf.get('params') or pf['params'][0]['T'] != 'int':
            continue
        itp, pp = run_function(prog, pf)
        allowed |= set(own_tables(pf, itp, pp))
        # a part that delegates (CS_Photo_Total -> CSb_Photo_Total) inherits the availability guards of its delegate
        for q in pp:
            for ev in q.events:
                if ev.kind == 'call' and ev.name and ev.args and ev.args[-1] is not None and ev.args[-1].canon() == 'error' and prog.func(ev.name, required=False):
                    todo.append(ev.name)
    mine = own_tables(f, it, paths)
    foreign = sorted(t for t in mine if t not in allowed)
    chk.decide(not foreign, 'total-defined-where-parts-are', U, name, 'availability guards', loc,
               '%s fails on its own when %s says "no data", a table none of its parts (%s) consults (they test %s): the total is undefined for elements '
               'whose parts are all defined' % (name, foreign, ', '.join(parts), sorted(allowed)), why='own guards %s are guards of the parts' % sorted(mine))
    nz = [q for q in paths if q.ret is not None and not it.is_zero(q.ret, q)]
    chk.decide(len(nz) == 1, 'no-partial-sum', U, name, 'single value path', loc,
               '%d paths return a non-zero value; only the complete sum may' % len(nz), why='one value path')


def photo_total(prog, chk, f):
    U, name = f['unit'], f['name']
    loc = '%s:%d' % (f['rel'], f['ln'])
    z, e = f['params'][0]['name'], f['params'][1]['name']
    loops = [n for n in walk(f['body']) if n.get('k') == 'ForStmt']
    if len(loops) != 1:
        chk.inconclusive('photo-total', loc, 'expected one accumulation loop')
        return
    lp = loops[0]
    init, cond = lp.get('init') or {}, lp.get('cond') or {}
    lo = hi = var = None
    for a in walk(init):
        if a.get('k') == 'BinaryOperator' and a['op'] == '=' and 'v' in a['c'][1]:
            var, lo = a['c'][0].get('name'), a['c'][1]['v']
    if cond.get('k') == 'BinaryOperator' and cond['op'] in ('<', '<=') and 'v' in cond['c'][1]:
        hi = cond['c'][1]['v'] - (1 if cond['op'] == '<' else 0)
    nk = prog.macro_value('SHELLNUM_K')
    chk.decide(lo == 0 and hi == nk - 1, 'photo-total', U, name, 'shell range', loc,
               'the sum runs over shells %s..%s; the Kissel tables have shells 0..%d' % (lo, hi, nk - 1), why='all %d Kissel shells' % nk)
    it = Interp(prog, f)
    it.unroll = 0
    try:
        paths = it.run()
    except Inconclusive:
        # exact unrolling refused on purpose: analyse one symbolic iteration instead
        paths = None
    # one symbolic iteration: run the loop body on a state where the loop variable is a fresh symbol
    from xvlib.absint import State
    st = State()
    for p in f['params']:
        st.env[p['id']] = Rat.sym(p['name'])
    rvdecl = None
    for n in walk(f['body']):
        if n.get('k') == 'var' and n.get('T') == 'double':
            rvdecl = n
        if n.get('k') == 'var' and n.get('name') == var:
            st.env[n['id']] = Rat.sym(var)
    it2 = Interp(prog, f)
    if rvdecl is None:
        chk.inconclusive('photo-total', loc, 'accumulator not found')
        return
    st.env[rvdecl['id']] = Rat.sym('ACC')
    outs = it2.exec_stmt(lp['body'], [st])
    occ = Rat.sym('Electron_Config_Kissel[%s][%s]' % (z, var))
    term = Rat.sym('CSb_Photo_Partial(%s,%s,%s)' % (z, var, e)) * occ
    added = [o for o in outs if not (o.env[rvdecl['id']] - Rat.sym('ACC')).is_zero()]
    kept = [o for o in outs if (o.env[rvdecl['id']] - Rat.sym('ACC')).is_zero()]
    ok = len(added) == 1 and noerr(added[0].env[rvdecl['id']] - Rat.sym('ACC')).equals(term)
    chk.decide(ok, 'photo-total', U, name, 'term', loc,
               'each iteration must add CSb_Photo_Partial(Z, shell, E) * occupancy(Z, shell); found %s' % [
                   strip_err_text((o.env[rvdecl['id']] - Rat.sym('ACC')).canon()) for o in added],
               why='adds partial cross section times occupancy')
    if ok:
        iv = it2.interval_of(occ, added[0])
        chk.decide(iv.lo is not None and iv.lo >= 0 and (iv.lo > 0 or iv.los), 'photo-total', U, name, 'occupancy guard', loc,
                   'the term is added without requiring a positive occupancy', why='guarded by occupancy > 0')
        chk.decide(len(kept) == 1, 'photo-total', U, name, 'skip', loc, 'unoccupied shells must add nothing', why='no contribution otherwise')


def dcs(prog, chk, f, factor_fn, squared, kernel, kargs):
    U, name = f['unit'], f['name']
    loc = '%s:%d' % (f['rel'], f['ln'])
    it, paths = run_function(prog, f)
    a = [p['name'] for p in f['params'][:-1]]
    z, e, th = a[0], a[1], a[2]
    avog = Rat.const(prog.macro_value('AVOGNUM'))
    vals = value_paths(it, paths)
    q = 'MomentTransf(%s,%s)' % (e, th)
    F = Rat.sym('%s(%s,%s)' % (factor_fn, z, q))
    k_args = {'E': e, 'theta': th, 'phi': a[3] if len(a) > 3 else None}
    K = Rat.sym('%s(%s)' % (kernel, ','.join(k_args[x] for x in kargs)))
    want = avog / Rat.sym('AtomicWeight(%s)' % z) * (F * F if squared else F) * K
    want2 = avog / Rat.sym('AtomicWeight_arr[%s]' % z) * (F * F if squared else F) * K
    ok = len(vals) == 1 and (noerr(vals[0].ret).equals(want) or noerr(vals[0].ret).equals(want2))
    chk.decide(ok, 'dcs-template', U, name, 'value', loc,
               '%s must be N_A/A(Z) * %s(Z, q)%s * %s(%s) with q = MomentTransf(E, theta); found %s' % (
                   name, factor_fn, '^2' if squared else '', kernel, ', '.join(kargs), [strip_err_text(v.ret.canon()) for v in vals]),
               why='N_A/A * %s%s * %s at q(E, theta)' % (factor_fn, '^2' if squared else '', kernel))
    if ok:
        p = vals[0]
        fc = [ev for ev in p.events if ev.kind == 'call' and ev.name == factor_fn]
        # the factor's failure must reach the caller: via tmp error tested, or result tested
        tested = False
        if fc:
            arg = fc[0].args[-1].canon()
            if arg == 'error':
                tested = it.interval_of(fc[0].result, p).excludes_zero()
            elif arg.startswith('&'):
                tv = arg[1:]
                for c, t in p.conds:
                    if isinstance(t, bool) and tv in show(c):
                        tested = True
        chk.decide(tested, 'dcs-template', U, name, 'factor-failure', loc,
                   'failure of %s (q outside the table) is not detected before the product is returned' % factor_fn,
                   why='failure of %s leads to an error exit' % factor_fn)
    zp = zero_paths(it, paths)
    chk.decide(all(sets_error(p) for p in zp) and len(zp) >= 3, 'dcs-template', U, name, 'failure', loc,
               'every 0 return must report an error', why='%d failure paths, all report an error' % len(zp))
