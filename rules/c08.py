"""C08 - Kissel XRF cross sections equal the cascade model built from the primitives.

R1  the 32 P<shell>_<kind> vacancy functions, every subset of open inner shells (abstract paths)
R2  the 16 hand-expanded constant functions (46 (target, source) branches, ~2000 Auger terms)
R3  shell dispatch of the four CS_FluorShell_Kissel_* bodies
R4  line -> shell mapping table and the four CS_FluorLine_Kissel_* bodies
R5  un-suffixed = full cascade; build-time filling of the two constant tables
All expected sets are computed from the macro names of the current headers (E3)."""
import re
from fractions import Fraction
from itertools import product

from xvlib.core import Check
from xvlib.frontend import AnalysisBroken
from xvlib.absint import run_function, Inconclusive
from xvlib.facts import show, walk
from xvlib.names import Names
from xvlib.normform import Rat, Poly
from xvlib import datafiles, inittab

SHELLS = ['K', 'L1', 'L2', 'L3', 'M1', 'M2', 'M3', 'M4', 'M5']
KINDS = {'pure_kissel': 'pure', 'rad_cascade_kissel': 'rad', 'auger_cascade_kissel': 'auger', 'full_cascade_kissel': 'full'}
BODY_KIND = {'no_Cascade': 'pure_kissel', 'Radiative_Cascade': 'rad_cascade_kissel',
             'Nonradiative_Cascade': 'auger_cascade_kissel', 'Cascade': 'full_cascade_kissel'}


def inner_params(S, kind):
    """Vacancy parameters P_T the function P<S>_<kind> must take, in shell order."""
    i = SHELLS.index(S)
    if KINDS[kind] == 'pure':
        return [T for T in SHELLS[:i] if T[0] == S[0]]
    return SHELLS[:i]


def sets_error(st):
    return [e for e in st.events if e.kind == 'call' and e.name in ('xrl_set_error_literal', 'xrl_set_error')]


def run(prog, tier):
    chk = Check('C08', tier, 'other',
                'Cascade model checked term by term: each of the 32 vacancy functions on every subset of open inner '
                'shells, each of the 46 Auger-sum branches against the multiset of Auger macros that leave a hole in the '
                'target shell (multiplicity = number of holes), the shell dispatch of the four variants, the line->shell '
                'mapping table, the delegation of the un-suffixed functions and the build-time filling of the constant '
                'tables. Expected terms are derived from macro names; comparison is exact (rational normal forms).',
                ['clang front end via xrl-facts', 'E1 path enumeration', 'E2 normal forms', 'E3 name oracle',
                 'reader of data/radrate.dat (don\'t-care lines)'],
                ['Coster-Kronig-type Auger macros are don\'t-cares inside the Auger sums (their rate is defined unavailable)',
                 'numeric orderings (none <= radiative <= full) follow from the term structure and non-negative tables; '
                 'they are not separately evaluated'])
    chk.exhaustive = True
    names = Names(prog)
    r1_vacancy(prog, chk, names)
    r2_constants(prog, chk, names)
    r3_dispatch(prog, chk, names)
    r4_lines(prog, chk, names)
    r5_delegation_and_fill(prog, chk, names)
    return chk


# ------------------------------------------------------------------------------------------------ R1

def r1_vacancy(prog, chk, names):
    U = 'src/xrf_cross_sections_aux.c'
    n = 0
    for S in SHELLS[1:]:
        for kind in KINDS:
            fname = 'P%s_%s' % (S, kind)
            f = prog.func(fname, unit=U, required=False)
            if f is None:
                chk.bad('vacancy-terms', U, fname, 'exists', U, 'vacancy function %s is missing' % fname)
                continue
            n += 1
            loc = '%s:%d' % (U, f['ln'])
            z, e = f['params'][0]['name'], f['params'][1]['name']
            plist = [p['name'] for p in f['params'][2:-1]]
            want_params = ['P' + T for T in inner_params(S, kind)]
            if not chk.decide(plist == want_params, 'vacancy-signature', U, fname, 'parameters', loc,
                              '%s takes vacancy parameters %s; the cascade model needs %s' % (fname, plist, want_params),
                              why='parameters %s' % want_params):
                continue
            sv = names.shell_value[S]
            base = Rat.sym('CS_Photo_Partial(%s,%d,%s,error)' % (z, sv, e))
            terms = {}
            for T in inner_params(S, kind):
                tv = names.shell_value[T]
                P = Rat.sym('P' + T)
                if T[0] == S[0]:
                    cks = names.ck_between(T, S)
                    t = Rat.const(0)
                    for c in cks:
                        t = t + Rat.sym('CosKronTransProb(%s,%d,0)' % (z, names.ck_value[c])) * P
                    desc = '(%s) * P%s' % (' + '.join(cks), T)
                else:
                    k = KINDS[kind]
                    line = T + S
                    if k == 'rad':
                        if line not in names.line_value:
                            chk.inconclusive('vacancy-terms', loc, 'no line macro %s_LINE' % line)
                            continue
                        t = Rat.sym('FluorYield(%s,%d,0)' % (z, tv)) * P * Rat.sym('RadRate(%s,%d,0)' % (z, names.line_value[line]))
                        desc = 'w(%s) * P%s * RadRate(%s_LINE)' % (T, T, line)
                    elif k == 'auger':
                        t = P * Rat.sym('xrf_cross_sections_constants_auger_only[%s][%d][%d]' % (z, sv, tv))
                        desc = 'P%s * constants_auger_only[Z][%s][%s]' % (T, S, T)
                    else:
                        t = P * Rat.sym('xrf_cross_sections_constants_full[%s][%d][%d]' % (z, sv, tv))
                        desc = 'P%s * constants_full[Z][%s][%s]' % (T, S, T)
                terms[T] = (t, desc)
            try:
                it, paths = run_function(prog, f, max_paths=4096)
            except Inconclusive as ex:
                chk.inconclusive('vacancy-terms', loc, str(ex))
                continue
            seen = set()
            for p in paths:
                if p.ret is None:
                    continue
                if it.is_zero(p.ret, p):
                    continue
                # which guards are open on this path
                openT = []
                undecided = False
                for T in terms:
                    iv = it.interval_of(Rat.sym('P' + T), p)
                    if iv.lo is not None and (iv.lo > 0 or (iv.lo == 0 and iv.los)):
                        openT.append(T)
                    elif iv.hi is not None and iv.hi <= 0:
                        pass
                    else:
                        undecided = True
                key = tuple(openT)
                if undecided:
                    chk.bad('vacancy-terms', U, fname, 'guard', '%s:%d' % (U, p.ret_node['ln']),
                            'a successful path does not decide whether every inner vacancy P_T is positive: a feeding term is '
                            'not guarded by its own "P_T > 0" test')
                    continue
                want = base
                for T in openT:
                    want = want + terms[T][0]
                if p.ret.equals(want):
                    seen.add(key)
                    chk.ok('vacancy-terms', '%s open=%s' % (fname, ','.join(openT) or '-'),
                           'base + ' + ' + '.join(terms[T][1] for T in openT) if openT else 'base photo-ionisation only',
                           '%s:%d' % (U, p.ret_node['ln']), nontrivial=bool(openT))
                else:
                    # name the offending term
                    diff = p.ret - want
                    culprit = []
                    for T in terms:
                        if ('P' + T) in diff.n.symbols():
                            culprit.append('P%s term: expected %s' % (T, terms[T][1]))
                    if not culprit:
                        culprit = ['base term: expected CS_Photo_Partial(Z, %s_SHELL, E, error)' % S]
                    chk.bad('vacancy-terms', U, fname, 'open=%s' % (','.join(openT) or '-'), '%s:%d' % (U, p.ret_node['ln']),
                            'with inner vacancies {%s} open the production of %s vacancies is not the cascade model: %s; '
                            'difference (found - expected) = %s' % (','.join(openT), S, '; '.join(culprit), (p.ret - want).canon()[:300]))
            full = 2 ** len(terms)
            chk.decide(len(seen) == full or any(v['function'] == fname for v in chk.violations), 'vacancy-terms', U, fname, 'all-subsets', loc,
                       'only %d of the %d subsets of open inner shells are served by a path with the right value' % (len(seen), full),
                       why='all %d subsets of open inner shells' % full)
            zero = [p for p in paths if p.ret is not None and it.is_zero(p.ret, p)]
            chk.decide(len(zero) >= 1 or (len(paths) == 1 and paths[0].ret is not None and paths[0].ret.equals(base)),
                       'vacancy-terms', U, fname, 'below-edge', loc,
                       'no path returns 0 when the shell\'s own photo-ionisation cross section fails', why='0 when CS_Photo_Partial fails')
    chk.floor('P<shell>_<kind> vacancy functions', n, 32)


# ------------------------------------------------------------------------------------------------ R2

def r2_constants(prog, chk, names):
    U = 'src/xrf_cross_sections_aux-private.c'
    nbranch = 0
    for S in SHELLS[1:]:
        for variant in ('auger_only', 'full'):
            fname = 'P%s_get_cross_sections_constant_%s' % (S, variant)
            f = prog.func(fname, unit=U, required=False)
            if f is None:
                chk.bad('auger-sum', U, fname, 'exists', U, 'constant function %s is missing' % fname)
                continue
            z, sh = f['params'][0]['name'], f['params'][1]['name']
            it, paths = run_function(prog, f, max_paths=64)
            sv = names.shell_value[S]
            sources = [T for T in SHELLS[:SHELLS.index(S)] if T[0] != S[0]]
            for T in sources:
                tv = names.shell_value[T]
                mine = []
                for p in paths:
                    iv = it.interval_of(Rat.sym(sh), p)
                    if iv.lo == tv and iv.hi == tv and p.ret is not None:
                        mine.append(p)
                inst = 'target=%s source=%s' % (S, T)
                if len(mine) != 1:
                    chk.bad('auger-sum', U, fname, inst, '%s:%d' % (U, f['ln']), 'expected one branch for source shell %s, found %d' % (T, len(mine)))
                    continue
                nbranch += 1
                p = mine[0]
                loc = '%s:%d' % (U, p.ret_node['ln'])
                r = p.ret
                if not r.d.is_const():
                    chk.bad('auger-sum', U, fname, inst, loc, 'branch value is not a polynomial in yields and rates')
                    continue
                dc = r.d.const_value()
                ay = 'AugerYield(%s,%d,0)' % (z, tv)
                got = {}
                other = {}
                for mon, co in r.n.monomials().items():
                    co = co / dc
                    syms = dict(mon)
                    rates = [s_ for s_ in syms if s_.startswith('AugerRate(')]
                    if len(rates) == 1 and syms.get(ay) == 1 and len(syms) == 2 and syms[rates[0]] == 1:
                        mm = re.match(r'^AugerRate\(%s,(\d+),0\)$' % z, rates[0])
                        if mm:
                            got[int(mm.group(1))] = got.get(int(mm.group(1)), 0) + co
                            continue
                    other[mon] = co
                exp = {}
                for m in names.augers_of(T):
                    i_, a, b = names.parse_auger(m)
                    mult = (1 if a == S else 0) + (1 if b == S else 0)
                    if mult:
                        exp[names.auger_value[m]] = (mult, m)
                problems = []
                for v, (mult, m) in sorted(exp.items()):
                    ckt = names.auger_is_ck_type(m)
                    g = got.get(v)
                    if g is None:
                        if not ckt:
                            problems.append(('missing', m, mult, None))
                    elif g != mult:
                        if not ckt:
                            problems.append(('multiplicity', m, mult, g))
                for v, g in sorted(got.items()):
                    if v not in exp:
                        m = names.auger_by_value.get(v, str(v))
                        problems.append(('foreign', m, 0, g))
                # radiative part
                want_other = {}
                if variant == 'full':
                    line = T + S
                    if line in names.line_value:
                        key = tuple(sorted((('FluorYield(%s,%d,0)' % (z, tv), 1), ('RadRate(%s,%d,0)' % (z, names.line_value[line]), 1))))
                        want_other[key] = Fraction(1)
                if other != want_other:
                    problems.append(('radiative', 'w(%s)*RadRate(%s%s_LINE)' % (T, T, S), want_other and 1 or 0,
                                     repr(Poly(other))[:200]))
                if not problems:
                    chk.ok('auger-sum', '%s %s' % (fname, inst), '%d Auger terms with hole multiplicities%s' % (
                        len([1 for v in exp if not names.auger_is_ck_type(exp[v][1])]),
                        ' + radiative transfer' if variant == 'full' else ''), loc)
                else:
                    # group missing terms into one finding per (branch, kind) so that a known finding is stable
                    kinds = {}
                    for kd, m, mult, g in problems:
                        kinds.setdefault(kd, []).append((m, mult, g))
                    for kd, lst in sorted(kinds.items()):
                        if kd == 'missing':
                            msg = '%d Auger transitions that leave a hole in %s are missing from the sum over %s-initiated transitions: %s' % (
                                len(lst), S, T, ', '.join(m for m, _, _ in lst))
                            inst2 = '%s missing=%s' % (inst, ','.join(m for m, _, _ in lst))
                        elif kd == 'multiplicity':
                            msg = 'wrong hole multiplicity: ' + ', '.join('%s counted %s times, leaves %d hole(s) in %s' % (m, g, mult, S) for m, mult, g in lst)
                            inst2 = '%s multiplicity=%s' % (inst, ','.join(m for m, _, _ in lst))
                        elif kd == 'foreign':
                            msg = 'transitions that leave no hole in %s are summed: %s' % (S, ', '.join(m for m, _, _ in lst))
                            inst2 = '%s foreign=%s' % (inst, ','.join(m for m, _, _ in lst))
                        else:
                            msg = 'radiative transfer term must be exactly %s (full variant) / absent (auger-only); other terms found: %s' % (lst[0][0], lst[0][2])
                            inst2 = '%s radiative' % inst
                        chk.bad('auger-sum', U, fname, inst2, loc, msg)
            # other source shells must give 0
            rest = [p for p in paths if p.ret is not None and not p.ret.is_zero()]
            chk.decide(len(rest) == len(sources), 'auger-sum', U, fname, 'branches', '%s:%d' % (U, f['ln']),
                       '%d value branches, %d source shells expected (%s)' % (len(rest), len(sources), sources),
                       why='one value branch per source shell %s' % sources)
    chk.floor('Auger-sum branches', nbranch, 46)


# ------------------------------------------------------------------------------------------------ R3

def psym(S, kind, z, e, err):
    if S == 'K':
        return 'CS_Photo_Partial(%s,0,%s,%s)' % (z, e, err)
    args = [psym(T, kind, z, e, '0') for T in inner_params(S, kind)]
    return 'P%s_%s(%s)' % (S, kind, ','.join([z, e] + args + [err]))


def r3_dispatch(prog, chk, names):
    U = 'src/kissel_pe.c'
    n = 0
    for body, kind in BODY_KIND.items():
        fname = 'CS_FluorShell_Kissel_' + body
        f = prog.func(fname, unit=U)
        it, paths = run_function(prog, f, max_paths=4096)
        z, sh, e = (p['name'] for p in f['params'][:3])
        for S in SHELLS:
            sv = names.shell_value[S]
            mine = [p for p in paths if p.ret is not None and
                    (lambda iv: iv.lo == sv and iv.hi == sv)(it.interval_of(Rat.sym(sh), p))]
            good = [p for p in mine if not p.ret.is_zero()]
            n += 1
            loc = '%s:%d' % (U, good[0].ret_node['ln'] if good else f['ln'])
            y = Rat.sym('FluorYield(%s,%d,error)' % (z, sv))
            if S == 'K':
                want = Rat.sym('CS_Photo_Partial(%s,%d,%s,error)' % (z, sv, e)) * y
                desc = 'FluorYield(K) * CS_Photo_Partial(K)'
            else:
                want = Rat.sym(psym(S, kind, z, e, 'error')) * y
                desc = 'FluorYield(%s) * P%s_%s(Z, E, %s)' % (S, S, kind, ', '.join('P' + T for T in inner_params(S, kind)))
            ok = len(good) == 1 and good[0].ret.equals(want)
            chk.decide(ok, 'shell-dispatch', U, fname, S + '_SHELL', loc,
                       'shell %s must yield %s with every inner vacancy computed by the same variant and passed in shell order; '
                       'found %s' % (S, desc, [g.ret.canon()[:400] for g in good]), why=desc)
            zero = [p for p in mine if p.ret.is_zero()]
            chk.decide(len(zero) >= 2, 'shell-dispatch', U, fname, S + '_SHELL failure', loc,
                       'failure of the yield or of the vacancy production must return 0', why='0 on both failure paths')
        other = [p for p in paths if p.ret is not None and p.ret.is_zero() and sets_error(p) and
                 (lambda iv: iv.lo is not None and iv.lo > names.shell_value['M5'] or iv.hi is not None and iv.hi < 0 or
                  (iv.lo is None and iv.hi is None))(it.interval_of(Rat.sym(sh), p))]
        chk.decide(bool(other), 'shell-dispatch', U, fname, 'other shells', '%s:%d' % (U, f['ln']),
                   'shells outside K..M5 must be rejected with an error', why='error for any other shell')
    chk.floor('shell dispatch branches', n, 36)


# ------------------------------------------------------------------------------------------------ R4

def r4_lines(prog, chk, names):
    U = 'src/kissel_pe.c'
    g = prog.global_def('line_mappings', unit=U)
    rows = inittab.evaluate(g['init'])
    chk.floor('line_mappings rows', len(rows), 9)
    rates = set(nm for z, nm, val in datafiles.triples(prog.repo, 'radrate.dat') if float(val) > 0)
    groups = {names.group_value['KA']: 'KA', names.group_value['KB']: 'KB'}
    seen_sh = set()
    for i, (lo, hi, shv) in enumerate(rows):
        S = names.shell_by_value.get(shv)
        loc = '%s:%d' % (U, g['ln'] + 1 + i)
        seen_sh.add(S)
        inside = {names.line_by_value[v] for v in range(lo, hi + 1) if v in names.line_by_value}
        mine = set(names.lines_of_shell(S))
        foreign = sorted(x for x in inside if (names.parse_line(x) or ('?',))[0] != S)
        missing = sorted(x for x in mine - inside if x in rates)
        dontcare = sorted(x for x in mine - inside if x not in rates)
        chk.decide(not foreign, 'line-mapping', U, 'line_mappings', 'row %s foreign=%s' % (S, ','.join(foreign)), loc,
                   'range [%s, %s] mapped to shell %s contains lines of other shells: %s' % (lo, hi, S, foreign),
                   why='no line of another shell in the range')
        chk.decide(not missing, 'line-mapping', U, 'line_mappings', 'row %s missing=%s' % (S, ','.join(missing)), loc,
                   'lines of shell %s with a shipped radiative rate fall outside its range [%s, %s]: %s' % (S, lo, hi, missing),
                   why='every %s line that has a rate is inside (%d without any rate are don\'t-cares)' % (S, len(dontcare)))
        grp_in = [groups[v] for v in range(lo, hi + 1) if v in groups]
        chk.decide((S == 'K' and sorted(grp_in) == ['KA', 'KB']) or (S != 'K' and not grp_in), 'line-mapping', U, 'line_mappings',
                   'row %s groups' % S, loc, 'group macros inside the range: %s' % grp_in, why='KA/KB only in the K row')
    chk.decide(seen_sh == set(SHELLS), 'line-mapping', U, 'line_mappings', 'shells', '%s:%d' % (U, g['ln']),
               'rows cover %s; expected K..M5' % sorted(seen_sh), why='one row per shell K..M5')
    lbm = prog.global_def('LB_LINE_MACROS', unit=U)
    lbvals = inittab.evaluate(lbm['init'])
    # line bodies
    for body in BODY_KIND:
        fname = 'CS_FluorLine_Kissel_' + body
        f = prog.func(fname, unit=U)
        it, paths = run_function(prog, f, max_paths=20000)
        z, ln, e = (p['name'] for p in f['params'][:3])
        good = [p for p in paths if p.ret is not None and not p.ret.is_zero()]
        # classify the value paths by the shell they use
        used = {}
        lb_path = []
        for p in good:
            syms = p.ret.n.symbols()
            m = None
            for s_ in syms:
                mm = re.match(r'^CS_FluorShell_Kissel_%s\(%s,(\d+),%s,error\)$' % (body, z, e), s_)
                if mm:
                    m = int(mm.group(1))
            if m is not None:
                want = Rat.sym('CS_FluorShell_Kissel_%s(%s,%d,%s,error)' % (body, z, m, e)) * Rat.sym('RadRate(%s,%s,error)' % (z, ln))
                iv = it.interval_of(Rat.sym(ln), p)
                used.setdefault(m, []).append((p, p.ret.equals(want), iv))
            else:
                lb_path.append(p)
        for i, (lo, hi, shv) in enumerate(rows):
            S = names.shell_by_value.get(shv)
            ent = used.get(shv, [])
            ok = any(okv and iv.lo == lo and iv.hi == hi for (_, okv, iv) in ent)
            chk.decide(ok, 'line-body', U, fname, S + ' lines', '%s:%d' % (U, f['ln']),
                       'lines in [%s, %s] must return CS_FluorShell_Kissel_%s(Z, %s_SHELL, E) * RadRate(Z, line); found %s' % (
                           lo, hi, body, S, [(p.ret.canon()[:120], str(iv)) for p, _, iv in ent][:3]),
                       why='shell value of %s times the line\'s radiative rate' % S)
        la = [x for x in used.get(names.shell_value['L3'], []) if x[2].lo == names.group_value['LA'] == x[2].hi]
        chk.decide(bool(la) and la[0][1], 'line-body', U, fname, 'LA_LINE', '%s:%d' % (U, f['ln']),
                   'LA_LINE must be the L3 shell value times RadRate(Z, LA_LINE)', why='L3 shell value times the LA rate')
        want = Rat.const(0)
        for v in lbvals:
            want = want + Rat.sym('%s(%s,%d,%s,0)' % (fname, z, v, e))
        lbp = [p for p in lb_path if (lambda iv: iv.lo == names.group_value['LB'] == iv.hi)(it.interval_of(Rat.sym(ln), p))]
        chk.decide(bool(lbp) and all(p.ret.equals(want) for p in lbp), 'line-body', U, fname, 'LB_LINE', '%s:%d' % (U, f['ln']),
                   'LB_LINE must be the sum of the same function over the L-beta member list', why='sum over %d members' % len(lbvals))


# ------------------------------------------------------------------------------------------------ R5

def r5_delegation_and_fill(prog, chk, names):
    U = 'src/kissel_pe.c'
    avog = Rat.const(prog.macro_value('AVOGNUM'))
    for fn, tgt in (('CS_FluorLine_Kissel', 'CS_FluorLine_Kissel_Cascade'), ('CS_FluorShell_Kissel', 'CS_FluorShell_Kissel_Cascade'),
                    ('CSb_FluorLine_Kissel', 'CSb_FluorLine_Kissel_Cascade'), ('CSb_FluorShell_Kissel', 'CSb_FluorShell_Kissel_Cascade')):
        f = prog.func(fn, unit=U)
        it, paths = run_function(prog, f)
        a = [p['name'] for p in f['params']]
        want = Rat.sym('%s(%s)' % (tgt, ','.join(a)))
        vals = [p for p in paths if p.ret is not None and not p.ret.is_zero()]
        ok = len(vals) == 1 and vals[0].ret.equals(want)
        if not ok and fn.startswith('CSb_') and len(vals) == 1:
            # barn twin of the cm2/g full-cascade function: same thing by the unit conversion
            for base in (tgt[0:2] + tgt[3:], fn[0:2] + fn[3:]):
                alt = Rat.sym('%s(%s)' % (base, ','.join(a))) * Rat.sym('AtomicWeight_arr[%s]' % a[0]) / avog
                alt2 = Rat.sym('%s(%s)' % (base, ','.join(a))) * Rat.sym('AtomicWeight(%s,error)' % a[0]) / avog
                ok = ok or vals[0].ret.equals(alt) or vals[0].ret.equals(alt2)
        chk.decide(ok, 'unsuffixed-is-full-cascade', U, fn, 'delegation', '%s:%d' % (U, f['ln']),
                   '%s must return %s(%s) unchanged; found %s' % (fn, tgt, ', '.join(a), [p.ret.canon() if p.ret is not None else None for p in paths]),
                   why='pure delegation to the full-cascade variant')
    # build-time filling of the constant tables
    PU = 'src/pr_data.c'
    f = prog.func('main', unit=PU)
    found = {}
    for n in walk(f['body']):
        if n.get('k') != 'IfStmt':
            continue
        c = n['cond']
        if not (c.get('k') == 'BinaryOperator' and c['op'] == '==' and 'v' in c['c'][1] and c['c'][0].get('k') == 'DeclRefExpr'):
            continue
        s1 = c['c'][0]['name']
        S = names.shell_by_value.get(c['c'][1]['v'])
        for a in walk(n['then']):
            if a.get('k') == 'BinaryOperator' and a['op'] == '=' and a['c'][0].get('k') == 'ArraySubscriptExpr':
                lhs, rhs = show(a['c'][0]), a['c'][1]
                mm = re.match(r'^xrf_cross_sections_constants_(full|auger_only)\[(\w+)\]\[(\w+)\]\[(\w+)\]$', lhs)
                if mm and rhs.get('k') == 'CallExpr':
                    var, zv, i1, i2 = mm.groups()
                    found[(S, var)] = (a['ln'], i1 == s1, rhs.get('callee'), [show(x) for x in rhs['args']], zv, i2)
    for S in SHELLS[1:]:
        for var in ('full', 'auger_only'):
            inst = 'constants_%s[Z][%s][*]' % (var, S)
            if (S, var) not in found:
                chk.bad('constant-fill', PU, 'main', inst, '%s:%d' % (PU, f['ln']), 'table row is never filled')
                continue
            ln, idx_ok, callee, args, zv, i2 = found[(S, var)]
            want = 'P%s_get_cross_sections_constant_%s' % (S, var)
            chk.decide(idx_ok and callee == want and args == [zv, i2], 'constant-fill', PU, 'main', inst, '%s:%d' % (PU, ln),
                       'row for target shell %s of the %s table is filled from %s(%s); expected %s(%s, %s)' % (S, var, callee, ', '.join(args), want, zv, i2),
                       why='filled from %s(Z, source)' % want)
    # loop ranges
    def loop_range(lp):
        init, cond = lp.get('init') or {}, lp.get('cond') or {}
        lo = hi = var = None
        for a in walk(init):
            if a.get('k') == 'BinaryOperator' and a['op'] == '=' and 'v' in a['c'][1]:
                var, lo = a['c'][0].get('name'), a['c'][1]['v']
            if a.get('k') == 'var' and 'init' in a and 'v' in a['init']:
                var, lo = a['name'], a['init']['v']
        if cond.get('k') == 'BinaryOperator' and cond['op'] in ('<', '<=') and 'v' in cond['c'][1]:
            hi = cond['c'][1]['v'] - (1 if cond['op'] == '<' else 0)
        return var, lo, hi
    ranges = {}
    for lp in [n for n in walk(f['body']) if n.get('k') == 'ForStmt']:
        if any(show(a.get('c', [{}])[0]).startswith('xrf_cross_sections_constants_') for a in walk(lp['body'])
               if a.get('k') == 'BinaryOperator' and a.get('op') == '='):
            var, lo, hi = loop_range(lp)
            ranges[var] = (lo, hi)
    zmax = prog.macro_value('ZMAX')
    exp = {'Z': (1, zmax), 'shell1': (names.shell_value['L1'], names.shell_value['M5']), 'shell2': (names.shell_value['K'], names.shell_value['L3'])}
    got = sorted(ranges.values())
    chk.decide(sorted(exp.values()) == got, 'constant-fill', PU, 'main', 'loop ranges', '%s:%d' % (PU, f['ln']),
               'fill loops run over %s; expected Z in 1..ZMAX, targets L1..M5, sources K..L3 %s' % (ranges, sorted(exp.values())),
               why='Z 1..ZMAX x targets L1..M5 x sources K..L3')
