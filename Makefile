# Builds the fact extractors from files on disk (offline). Used by MANIFEST.setup_cmd.
LLVM_CXXFLAGS := $(shell llvm-config-14 --cxxflags)
LLVM_LIBS := /usr/lib/llvm-14/lib/libclang-cpp.so.14 /usr/lib/llvm-14/lib/libLLVM-14.so

all: bin/xrl-facts bin/JavaFacts.class

bin/xrl-facts: tools/xrl-facts.cc
	mkdir -p bin
	clang++ $(LLVM_CXXFLAGS) -fno-rtti -O1 tools/xrl-facts.cc -o bin/xrl-facts $(LLVM_LIBS)

# syntax-tree dumper for the Java implementation (javac's own parser through the compiler tree API)
bin/JavaFacts.class: tools/JavaFacts.java
	mkdir -p bin
	javac -nowarn -d bin tools/JavaFacts.java

clean:
	rm -rf bin .cache
