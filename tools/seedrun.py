#!/usr/bin/env python3
"""Run checks against the seeded defects in /verif/seeded/<id>/patch.diff:
apply to /repo, run `./xv check <property>` (quick, or --thorough), undo straight afterwards.
Usage: seedrun.py [--thorough] [--all-checks] [seed ids...]"""
import json, os, subprocess, sys
HERE = os.path.dirname(os.path.dirname(os.path.abspath(__file__)))
args = sys.argv[1:]
tier = 'thorough' if '--thorough' in args else 'quick'
allc = '--all-checks' in args
ids = [a for a in args if not a.startswith('--')] or sorted(os.listdir(os.path.join(HERE, 'seeded')))
claimed = [c['property_id'] for c in json.load(open(os.path.join(HERE, 'MANIFEST.json')))['checks']]
st = subprocess.run('git -C /repo status --porcelain', shell=True, stdout=subprocess.PIPE).stdout.decode().strip()
if st:
    print('refusing: /repo has local changes:\n' + st); sys.exit(2)
summary = []
# the checks rewrite evidence/<id>.json on every run: runs on seeded trees must not leave their evidence behind
import shutil, tempfile, atexit
_bak = tempfile.mkdtemp(prefix='xv-evidence.', dir='/var/tmp')
shutil.copytree(os.path.join(HERE, 'evidence'), _bak + '/evidence')


def _restore():
    shutil.rmtree(os.path.join(HERE, 'evidence'))
    shutil.copytree(_bak + '/evidence', os.path.join(HERE, 'evidence'))
    shutil.rmtree(_bak)


atexit.register(_restore)
for sid in ids:
    d = sid if '/' in sid else os.path.join(HERE, 'seeded', sid)   # a path tests a candidate seed that is not installed yet
    sid = os.path.basename(d.rstrip('/'))
    pf = os.path.join(d, 'patch.diff')
    if not os.path.exists(pf):
        continue
    prop = sid.split('-')[0]
    r = subprocess.run('git -C /repo apply %s' % pf, shell=True, stdout=subprocess.PIPE, stderr=subprocess.STDOUT)
    if r.returncode != 0:
        print('%s: patch does not apply: %s' % (sid, r.stdout.decode()[-300:])); summary.append((sid, 'noapply', [])); continue
    try:
        hits = []
        props = claimed if allc else ([prop] if prop in claimed else [])
        for p in props:
            o = subprocess.run('./xv check %s --tier %s' % (p, tier), shell=True, cwd=HERE, stdout=subprocess.PIPE, stderr=subprocess.STDOUT)
            out = o.stdout.decode()
            if o.returncode == 1:
                hits.append(p)
                if p == prop or allc:
                    for l in out.split('\n'):
                        if '[%s/' % p in l and not l.startswith('  ['):
                            print('   %s' % l[:260])
            elif o.returncode == 2:
                print('   %s: exit 2: %s' % (p, [l for l in out.split('\n') if 'BROKEN' in l or 'INCONCLUSIVE' in l][:3]))
                hits.append(p + '(exit2)')
        print('%s: %s' % (sid, 'DETECTED by ' + ','.join(hits) if hits else ('MISSED' if props else 'property not claimed yet')))
        summary.append((sid, 'detected' if hits else 'missed', hits))
    finally:
        subprocess.run('git -C /repo checkout -- .', shell=True)
print(json.dumps(summary))
