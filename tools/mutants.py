#!/usr/bin/env python3
"""Self-test of the checkers: applies small property-breaking edits ("mutants", selftest/mutants.json) to /repo's
working tree one at a time, runs the check each is aimed at, requires a VIOLATION that names the expected rule, and
restores the tree (git checkout) straight afterwards.  Also runs the "benign" edits (behaviour-preserving rewrites),
on which the check must stay silent.

  tools/mutants.py [--only C14] [--ids m1,m2] [--tier quick]

Not part of any registered check (it edits /repo); used while developing the rules and recorded in DESIGN.md."""
import argparse
import json
import os
import subprocess
import sys

HERE = os.path.dirname(os.path.dirname(os.path.abspath(__file__)))
REPO = '/repo'


def sh(cmd, **kw):
    return subprocess.run(cmd, shell=True, stdout=subprocess.PIPE, stderr=subprocess.STDOUT, universal_newlines=True, **kw)



def _save_evidence():
    """the checks rewrite evidence/<id>.json on every run: runs on deliberately broken trees must not leave their evidence behind"""
    import shutil, tempfile
    d = tempfile.mkdtemp(prefix='xv-evidence.', dir='/var/tmp')
    shutil.copytree('/verif/evidence', d + '/evidence')
    return d


def _restore_evidence(d):
    import shutil
    shutil.rmtree('/verif/evidence')
    shutil.copytree(d + '/evidence', '/verif/evidence')
    shutil.rmtree(d)

def main():
    ap = argparse.ArgumentParser()
    ap.add_argument('--only')
    ap.add_argument('--ids')
    ap.add_argument('--tier', default='quick')
    a = ap.parse_args()
    if sh('git -C %s status --porcelain --untracked-files=no' % REPO).stdout.strip():
        print('refusing to run: /repo has local modifications')
        return 2
    muts = json.load(open(os.path.join(HERE, 'selftest', 'mutants.json')))
    ids = set(a.ids.split(',')) if a.ids else None
    bad = 0
    for m in muts:
        if a.only and m['check'] != a.only:
            continue
        if ids and m['id'] not in ids:
            continue
        try:
            for ed in m['edits']:
                p = os.path.join(REPO, ed['file'])
                s = open(p).read()
                if s.count(ed['old']) != 1:
                    raise RuntimeError('anchor text occurs %d times in %s' % (s.count(ed['old']), ed['file']))
                open(p, 'w').write(s.replace(ed['old'], ed['new']))
            r = sh('cd %s && ./xv check %s --tier %s' % (HERE, m['check'], m.get('tier', a.tier)))
            out = r.stdout
            if m.get('benign'):
                ok = r.returncode == 0
                verdict = 'silent (as required)' if ok else 'FALSE ALARM rc=%d' % r.returncode
            else:
                fired = r.returncode == 1 and 'VIOLATION property=%s' % m['check'] in out
                named = ('[%s/%s]' % (m['check'], m['rule'])) in out
                ok = fired and named
                verdict = 'caught by %s/%s' % (m['check'], m['rule']) if ok else \
                    ('MISSED rc=%d' % r.returncode if not fired else 'fired, but not rule %s' % m['rule'])
            print('%-28s %s' % (m['id'], verdict))
            if not ok:
                bad += 1
                print('\n'.join('      ' + l[:240] for l in out.strip().split('\n')[-6:]))
        except Exception as e:
            bad += 1
            print('%-28s BROKEN MUTANT: %s' % (m['id'], e))
        finally:
            sh('git -C %s checkout -- .' % REPO)
    print('%d problem(s)' % bad)
    return 1 if bad else 0


if __name__ == '__main__':
    _d = _save_evidence()
    try:
        _rc = main()
    finally:
        _restore_evidence(_d)
    sys.exit(_rc)
