#!/usr/bin/env python3
"""False-alarm test: applies behaviour-preserving edits (selftest/benign.json) to /repo's working tree one at a time
and runs EVERY claimed check on each (in parallel); every check must stay silent (exit 0).  The tree is restored
(git checkout) straight after each edit and the evidence files are put back at the end.

  tools/benign.py [--ids b1,b2] [--checks C03,C04]

Not a manifest command (it edits /repo)."""
import argparse
import json
import os
import shutil
import subprocess
import sys
import tempfile
from concurrent.futures import ThreadPoolExecutor

HERE = os.path.dirname(os.path.dirname(os.path.abspath(__file__)))
REPO = '/repo'


def sh(cmd):
    return subprocess.run(cmd, shell=True, stdout=subprocess.PIPE, stderr=subprocess.STDOUT, universal_newlines=True)


def main():
    ap = argparse.ArgumentParser()
    ap.add_argument('--ids')
    ap.add_argument('--checks')
    a = ap.parse_args()
    if sh('git -C %s status --porcelain --untracked-files=no' % REPO).stdout.strip():
        print('refusing to run: /repo has local modifications')
        return 2
    edits = json.load(open(os.path.join(HERE, 'selftest', 'benign.json')))
    ids = set(a.ids.split(',')) if a.ids else None
    checks = a.checks.split(',') if a.checks else [c['property_id'] for c in json.load(open(os.path.join(HERE, 'MANIFEST.json')))['checks']]
    bad = 0
    for e in edits:
        if ids and e['id'] not in ids:
            continue
        try:
            for ed in e['edits']:
                p = os.path.join(REPO, ed['file'])
                s = open(p).read()
                if s.count(ed['old']) != 1:
                    raise RuntimeError('anchor text occurs %d times in %s' % (s.count(ed['old']), ed['file']))
                open(p, 'w').write(s.replace(ed['old'], ed['new']))
            # one extraction first (shared cache), then all checks in parallel
            first = sh('cd %s && ./xv check %s --tier quick' % (HERE, checks[0]))
            results = {checks[0]: first}
            with ThreadPoolExecutor(max_workers=8) as ex:
                for c, r in zip(checks[1:], ex.map(lambda c: sh('cd %s && ./xv check %s --tier quick' % (HERE, c)), checks[1:])):
                    results[c] = r
            noisy = [(c, r) for c, r in results.items() if r.returncode != 0]
            if e.get('expect', '').startswith('alarm:'):
                # a documented imprecision: reported as such, not counted
                exp = set(e['expect'][6:].split(','))
                got = {c for c, _ in noisy}
                print('%-34s %s' % (e['id'], 'KNOWN IMPRECISION (alarm by %s as documented)' % ','.join(sorted(got)) if got == exp else
                                    ('documented imprecision no longer alarms' if not got else 'alarms %s, documented %s' % (sorted(got), sorted(exp)))))
                if got - exp:
                    bad += 1
                continue
            print('%-34s %s' % (e['id'], 'silent on all %d checks' % len(checks) if not noisy else 'ALARM: ' + ', '.join('%s rc=%d' % (c, r.returncode) for c, r in noisy)))
            for c, r in noisy:
                bad += 1
                for l in [l for l in r.stdout.split('\n') if l.startswith(('src/', 'java/', 'cplusplus/', 'include/', 'ANALYSIS', 'python/', 'fortran/', 'pascal/', 'idl/')) or 'Error' in l][:4]:
                    print('      ' + l[:260])
        except Exception as ex_:
            bad += 1
            print('%-34s BROKEN EDIT: %s' % (e['id'], ex_))
        finally:
            sh('git -C %s checkout -- .' % REPO)
    print('%d alarm(s)' % bad)
    return 1 if bad else 0


if __name__ == '__main__':
    bak = tempfile.mkdtemp(prefix='xv-evidence.', dir='/var/tmp')
    shutil.copytree(os.path.join(HERE, 'evidence'), bak + '/evidence')
    try:
        rc = main()
    finally:
        shutil.rmtree(os.path.join(HERE, 'evidence'))
        shutil.copytree(bak + '/evidence', os.path.join(HERE, 'evidence'))
        shutil.rmtree(bak)
    sys.exit(rc)
