#!/bin/sh
# Runs the repository's own test suite from the current tree with the verification guard OFF
# (no -DXRAYLIB_VERIF anywhere: the analysis needs no hook, see DESIGN.md section 6) and checks that the 33
# tests of /root/.vp/BASELINE.json "stable_pass" pass. The 4 Kissel-dependent tests listed there
# under always_fail are reported but do not affect the exit code.
set -e
B=/repo/_build
if [ ! -f "$B/build.ninja" ]; then
  meson setup "$B" /repo >/dev/null
fi
meson compile -C "$B" >/dev/null
meson test -C "$B" --no-rebuild >/dev/null 2>&1 || true
python3 - "$B/meson-logs/testlog.json" <<'PY'
import json, sys
res = {}
for line in open(sys.argv[1]):
    line = line.strip()
    if line:
        d = json.loads(line)
        res[d['name']] = d['result']
try:
    base = json.load(open('/root/.vp/BASELINE.json'))['stable_pass']
    base = [b.split('::', 1)[1] for b in base]
except Exception:
    base = [n for n in res if n not in ('c++-xrl_functions', 'cs_cp', 'kissel_pe', 'xrlexample6')]
bad = [n for n in base if res.get(n) != 'OK']
print('baseline: %d tests run, %d of %d stable tests pass' % (len(res), len(base) - len(bad), len(base)))
for n in bad:
    print('  NOT OK: %s -> %s' % (n, res.get(n)))
sys.exit(1 if bad else 0)
PY
