#!/usr/bin/env python3
"""Prepares a round of seeded-defect generation: for every property a scratch worktree of /repo HEAD, the property text and a prompt
for a fresh sub-agent that knows nothing about /verif.  Usage: mkseedprompts.py <round-dir> <first-n>   (e.g. /tmp/seed3 5 -> Cnn-5, Cnn-6)
Existing seeds of the property (titles from /verif/seeded/*/notes.md) are listed in the prompt so that they are not repeated."""
import json
import os
import re
import subprocess
import sys

HERE = os.path.dirname(os.path.dirname(os.path.abspath(__file__)))
root, first = sys.argv[1], int(sys.argv[2])
os.makedirs(root, exist_ok=True)
TEMPLATE = open(os.path.join(HERE, 'tools', 'seedprompt.txt')).read()
for line in open(os.path.join(HERE, 'properties.jsonl')):
    p = json.loads(line)
    pid = p['id']
    wt = os.path.join(root, 'wt-' + pid)
    json.dump(p, open(os.path.join(root, pid + '.property.json'), 'w'), indent=1)
    if not os.path.isdir(wt):
        subprocess.run(['git', '-C', '/repo', 'worktree', 'add', '--detach', wt, 'HEAD'], check=True, stdout=subprocess.DEVNULL, stderr=subprocess.DEVNULL)
    have = []
    for sd in sorted(os.listdir(os.path.join(HERE, 'seeded'))):
        if sd.startswith(pid + '-'):
            t = ''
            np_ = os.path.join(HERE, 'seeded', sd, 'notes.md')
            if os.path.exists(np_):
                for l in open(np_, errors='replace'):
                    if l.strip():
                        t = re.sub(r'^#+\s*', '', l.strip())
                        t = re.sub(r'^%s\s*[:\-–]*\s*' % re.escape(sd), '', t)
                        break
            have.append('  - %s: %s' % (sd, t[:200]))
    txt = TEMPLATE.replace('@WT@', wt).replace('@PID@', pid).replace('@ROOT@', root).replace('@HAVE@', '\n'.join(have)) \
        .replace('@N1@', str(first)).replace('@N2@', str(first + 1))
    open(os.path.join(root, 'prompt-%s.txt' % pid), 'w').write(txt)
print('prepared', root)
