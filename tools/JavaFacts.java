// JavaFacts - dumps the parsed (not attributed) syntax trees of Java sources as JSON, in the node vocabulary of
// tools/xrl-facts.cc (CompoundStmt, IfStmt, ForStmt, BinaryOperator, CallExpr, DeclRefExpr, ...), so that the Python
// rules can treat the hand-translated Java implementation like the C one (C19).
//
//   java -cp bin JavaFacts out.json A.java B.java ...
//
// Scope resolution is done here: an identifier is a parameter, a local (with a unique id) or a class member.
import com.sun.source.tree.*;
import com.sun.source.util.*;
import java.io.*;
import java.nio.charset.StandardCharsets;
import java.util.*;
import javax.tools.*;

public class JavaFacts {
  static StringBuilder sb = new StringBuilder();
  static long nextId = 1;
  static CompilationUnitTree unit;
  static SourcePositions pos;
  static LineMap lines;

  static String esc(String s) {
    StringBuilder b = new StringBuilder();
    for (char ch : s.toCharArray()) {
      switch (ch) {
        case '"': b.append("\\\""); break;
        case '\\': b.append("\\\\"); break;
        case '\n': b.append("\\n"); break;
        case '\r': b.append("\\r"); break;
        case '\t': b.append("\\t"); break;
        default:
          if (ch < 0x20 || ch > 0x7e) b.append(String.format("\\u%04x", (int) ch)); else b.append(ch);
      }
    }
    return b.toString();
  }

  // ---- tiny JSON writer -----------------------------------------------------------------------------------------
  static class J {
    StringBuilder o = new StringBuilder();
    Deque<Boolean> first = new ArrayDeque<>();
    void sep() { if (!first.isEmpty()) { if (!first.peek()) o.append(','); else { first.pop(); first.push(false); } } }
    J obj() { sep(); o.append('{'); first.push(true); return this; }
    J end() { o.append('}'); first.pop(); return this; }
    J arr(String k) { sep(); o.append('"').append(k).append("\":["); first.push(true); return this; }
    J endArr() { o.append(']'); first.pop(); return this; }
    J key(String k) { sep(); o.append('"').append(k).append("\":"); first.push(true); return this; }
    void closeKey() { first.pop(); }
    J str(String k, String v) { sep(); o.append('"').append(k).append("\":\"").append(esc(v)).append('"'); return this; }
    J num(String k, long v) { sep(); o.append('"').append(k).append("\":").append(v); return this; }
    J bool(String k, boolean v) { sep(); o.append('"').append(k).append("\":").append(v); return this; }
    J nul(String k) { sep(); o.append('"').append(k).append("\":null"); return this; }
  }

  static J j = new J();

  // ---- scopes ---------------------------------------------------------------------------------------------------
  static Deque<Map<String, long[]>> scopes = new ArrayDeque<>();
  static Map<Long, String> kindOf = new HashMap<>();
  static Map<Long, String> typeOf = new HashMap<>();
  static Map<String, String> fieldType = new HashMap<>();

  static long declare(String name, String cls, String type) {
    long id = nextId++;
    scopes.peek().put(name, new long[] {id});
    kindOf.put(id, cls);
    typeOf.put(id, type);
    return id;
  }

  static long lookup(String name) {
    for (Map<String, long[]> m : scopes) {
      long[] v = m.get(name);
      if (v != null) return v[0];
    }
    return 0;
  }

  static void loc(Tree t) {
    long p = pos.getStartPosition(unit, t);
    if (p >= 0) { j.num("ln", lines.getLineNumber(p)); j.num("col", lines.getColumnNumber(p)); }
  }

  static String opOf(Tree.Kind k) {
    switch (k) {
      case PLUS: case UNARY_PLUS: case PLUS_ASSIGNMENT: return "+";
      case MINUS: case UNARY_MINUS: case MINUS_ASSIGNMENT: return "-";
      case MULTIPLY: case MULTIPLY_ASSIGNMENT: return "*";
      case DIVIDE: case DIVIDE_ASSIGNMENT: return "/";
      case REMAINDER: case REMAINDER_ASSIGNMENT: return "%";
      case LESS_THAN: return "<";
      case LESS_THAN_EQUAL: return "<=";
      case GREATER_THAN: return ">";
      case GREATER_THAN_EQUAL: return ">=";
      case EQUAL_TO: return "==";
      case NOT_EQUAL_TO: return "!=";
      case CONDITIONAL_AND: return "&&";
      case CONDITIONAL_OR: return "||";
      case AND: case AND_ASSIGNMENT: return "&";
      case OR: case OR_ASSIGNMENT: return "|";
      case XOR: case XOR_ASSIGNMENT: return "^";
      case LEFT_SHIFT: case LEFT_SHIFT_ASSIGNMENT: return "<<";
      case RIGHT_SHIFT: case RIGHT_SHIFT_ASSIGNMENT: return ">>";
      case UNSIGNED_RIGHT_SHIFT: case UNSIGNED_RIGHT_SHIFT_ASSIGNMENT: return ">>>";
      case LOGICAL_COMPLEMENT: return "!";
      case BITWISE_COMPLEMENT: return "~";
      case PREFIX_INCREMENT: case POSTFIX_INCREMENT: return "++";
      case PREFIX_DECREMENT: case POSTFIX_DECREMENT: return "--";
      default: return k.toString();
    }
  }

  // ---- expressions ----------------------------------------------------------------------------------------------
  static void expr(Tree t) {
    if (t == null) { j.obj().str("k", "NullStmt").end(); return; }
    switch (t.getKind()) {
      case PARENTHESIZED: {
        j.obj().str("k", "ParenExpr"); loc(t);
        j.arr("c"); expr(((ParenthesizedTree) t).getExpression()); j.endArr(); j.end();
        return;
      }
      case IDENTIFIER: {
        String name = ((IdentifierTree) t).getName().toString();
        long id = lookup(name);
        j.obj().str("k", "DeclRefExpr"); loc(t); j.str("name", name);
        if (id != 0) {
          j.str("cls", kindOf.get(id)); j.num("id", id);
          String ty = typeOf.get(id);
          if (ty != null) { j.str("T", ty); j.str("dT", ty); }
        } else {
          j.str("cls", "global"); j.num("id", 0);
          String ty = fieldType.get(name);
          if (ty != null) { j.str("T", ty); j.str("dT", ty); }
        }
        j.end();
        return;
      }
      case INT_LITERAL: case LONG_LITERAL: {
        Object v = ((LiteralTree) t).getValue();
        j.obj().str("k", "IntegerLiteral"); loc(t); j.str("T", "int");
        j.num("v", ((Number) v).longValue()); j.num("val", ((Number) v).longValue()); j.end();
        return;
      }
      case DOUBLE_LITERAL: case FLOAT_LITERAL: {
        long s = pos.getStartPosition(unit, t), e = pos.getEndPosition(unit, t);
        String sp;
        try { sp = unit.getSourceFile().getCharContent(true).subSequence((int) s, (int) e).toString(); } catch (Exception ex) { sp = ((LiteralTree) t).getValue().toString(); }
        j.obj().str("k", "FloatingLiteral"); loc(t); j.str("T", "double");
        j.str("val", ((LiteralTree) t).getValue().toString()); j.str("sp", sp.replaceAll("[dDfF]$", "")); j.end();
        return;
      }
      case BOOLEAN_LITERAL: {
        j.obj().str("k", "CXXBoolLiteralExpr"); loc(t); j.str("T", "boolean");
        j.num("v", ((Boolean) ((LiteralTree) t).getValue()) ? 1 : 0); j.end();
        return;
      }
      case CHAR_LITERAL: {
        j.obj().str("k", "CharacterLiteral"); loc(t); j.str("T", "char");
        j.num("val", (int) ((Character) ((LiteralTree) t).getValue()).charValue()); j.end();
        return;
      }
      case STRING_LITERAL: {
        j.obj().str("k", "StringLiteral"); loc(t); j.str("T", "String");
        j.str("val", (String) ((LiteralTree) t).getValue()); j.end();
        return;
      }
      case NULL_LITERAL: {
        j.obj().str("k", "CXXNullPtrLiteralExpr"); loc(t); j.end();
        return;
      }
      case ASSIGNMENT: {
        AssignmentTree a = (AssignmentTree) t;
        j.obj().str("k", "BinaryOperator"); loc(t); j.str("op", "=");
        j.arr("c"); expr(a.getVariable()); expr(a.getExpression()); j.endArr(); j.end();
        return;
      }
      case CONDITIONAL_EXPRESSION: {
        ConditionalExpressionTree c = (ConditionalExpressionTree) t;
        j.obj().str("k", "ConditionalOperator"); loc(t);
        j.arr("c"); expr(c.getCondition()); expr(c.getTrueExpression()); expr(c.getFalseExpression()); j.endArr(); j.end();
        return;
      }
      case ARRAY_ACCESS: {
        ArrayAccessTree a = (ArrayAccessTree) t;
        j.obj().str("k", "ArraySubscriptExpr"); loc(t);
        j.arr("c"); expr(a.getExpression()); expr(a.getIndex()); j.endArr(); j.end();
        return;
      }
      case MEMBER_SELECT: {
        MemberSelectTree m = (MemberSelectTree) t;
        j.obj().str("k", "MemberExpr"); loc(t); j.str("field", m.getIdentifier().toString()); j.bool("arrow", false);
        j.str("fcls", "field"); j.str("text", t.toString());
        j.arr("c"); expr(m.getExpression()); j.endArr(); j.end();
        return;
      }
      case METHOD_INVOCATION: {
        MethodInvocationTree m = (MethodInvocationTree) t;
        ExpressionTree sel = m.getMethodSelect();
        String callee, q;
        ExpressionTree recv = null;
        if (sel instanceof IdentifierTree) { callee = ((IdentifierTree) sel).getName().toString(); q = callee; }
        else if (sel instanceof MemberSelectTree) {
          callee = ((MemberSelectTree) sel).getIdentifier().toString(); q = sel.toString(); recv = ((MemberSelectTree) sel).getExpression();
        } else { callee = sel.toString(); q = callee; }
        j.obj().str("k", "CallExpr"); loc(t); j.str("callee", callee); j.str("qcallee", q); j.bool("callee_proj", recv == null);
        if (recv != null) { j.key("recv"); expr(recv); j.closeKey(); }
        j.arr("args"); for (ExpressionTree a : m.getArguments()) expr(a); j.endArr(); j.end();
        return;
      }
      case NEW_CLASS: {
        NewClassTree n = (NewClassTree) t;
        j.obj().str("k", "NewExpr"); loc(t); j.str("cls", n.getIdentifier().toString());
        j.arr("args"); for (ExpressionTree a : n.getArguments()) expr(a); j.endArr(); j.end();
        return;
      }
      case NEW_ARRAY: {
        NewArrayTree n = (NewArrayTree) t;
        j.obj().str("k", "NewArray"); loc(t); j.str("T", n.getType() == null ? "" : n.getType().toString());
        j.arr("dims"); for (ExpressionTree a : n.getDimensions()) expr(a); j.endArr();
        j.arr("c"); if (n.getInitializers() != null) for (ExpressionTree a : n.getInitializers()) expr(a); j.endArr();
        j.bool("has_init", n.getInitializers() != null);
        j.end();
        return;
      }
      case TYPE_CAST: {
        TypeCastTree c = (TypeCastTree) t;
        j.obj().str("k", "CStyleCastExpr"); loc(t); j.str("toT", c.getType().toString()); j.str("T", c.getType().toString());
        j.arr("c"); expr(c.getExpression()); j.endArr(); j.end();
        return;
      }
      case MEMBER_REFERENCE: {
        MemberReferenceTree m = (MemberReferenceTree) t;
        j.obj().str("k", "MemberRef"); loc(t); j.str("name", m.getName().toString());
        j.str("qual", m.getQualifierExpression().toString()); j.str("text", t.toString()); j.end();
        return;
      }
      case LAMBDA_EXPRESSION: {
        LambdaExpressionTree l = (LambdaExpressionTree) t;
        scopes.push(new HashMap<>());
        j.obj().str("k", "Lambda"); loc(t);
        j.arr("params");
        for (VariableTree p : l.getParameters()) {
          String ty = p.getType() == null ? "" : p.getType().toString();
          long id = declare(p.getName().toString(), "param", ty);
          j.obj().str("name", p.getName().toString()).str("T", ty).num("id", id).end();
        }
        j.endArr();
        j.key("body");
        if (l.getBody() instanceof ExpressionTree) expr(l.getBody()); else stmt(l.getBody());
        j.closeKey();
        j.end();
        scopes.pop();
        return;
      }
      case INSTANCE_OF: {
        InstanceOfTree i = (InstanceOfTree) t;
        j.obj().str("k", "InstanceOf"); loc(t); j.str("T", i.getType().toString());
        j.arr("c"); expr(i.getExpression()); j.endArr(); j.end();
        return;
      }
      default:
        break;
    }
    if (t instanceof BinaryTree) {
      BinaryTree b = (BinaryTree) t;
      j.obj().str("k", "BinaryOperator"); loc(t); j.str("op", opOf(t.getKind()));
      j.arr("c"); expr(b.getLeftOperand()); expr(b.getRightOperand()); j.endArr(); j.end();
      return;
    }
    if (t instanceof CompoundAssignmentTree) {
      CompoundAssignmentTree b = (CompoundAssignmentTree) t;
      j.obj().str("k", "CompoundAssignOperator"); loc(t); j.str("op", opOf(t.getKind()) + "=");
      j.arr("c"); expr(b.getVariable()); expr(b.getExpression()); j.endArr(); j.end();
      return;
    }
    if (t instanceof UnaryTree) {
      UnaryTree u = (UnaryTree) t;
      j.obj().str("k", "UnaryOperator"); loc(t); j.str("op", opOf(t.getKind()));
      if (t.getKind() == Tree.Kind.POSTFIX_INCREMENT || t.getKind() == Tree.Kind.POSTFIX_DECREMENT) j.bool("post", true);
      j.arr("c"); expr(u.getExpression()); j.endArr(); j.end();
      return;
    }
    j.obj().str("k", "Unsupported"); loc(t); j.str("kind", t.getKind().toString()); j.str("text", t.toString()); j.end();
  }

  // ---- statements -----------------------------------------------------------------------------------------------
  static void var(VariableTree v, String cls) {
    String ty = v.getType() == null ? "" : v.getType().toString();
    long id = declare(v.getName().toString(), cls, ty);
    j.obj().str("k", "var").str("name", v.getName().toString()).num("id", id).str("T", ty).str("cls", cls); loc(v);
    if (v.getInitializer() != null) { j.key("init"); expr(v.getInitializer()); j.closeKey(); }
    j.end();
  }

  static void stmt(Tree t) {
    if (t == null) { j.obj().str("k", "NullStmt").end(); return; }
    switch (t.getKind()) {
      case BLOCK: {
        scopes.push(new HashMap<>());
        j.obj().str("k", "CompoundStmt"); loc(t);
        j.arr("c"); for (StatementTree s : ((BlockTree) t).getStatements()) stmt(s); j.endArr(); j.end();
        scopes.pop();
        return;
      }
      case VARIABLE: {
        // the initialiser is evaluated before the name comes into scope, but Java forbids self reference anyway
        VariableTree v = (VariableTree) t;
        j.obj().str("k", "DeclStmt"); loc(t);
        // evaluate init first into a temp buffer is not needed: declare, then emit
        j.arr("decls"); var(v, "local"); j.endArr(); j.end();
        return;
      }
      case EXPRESSION_STATEMENT:
        expr(((ExpressionStatementTree) t).getExpression());
        return;
      case IF: {
        IfTree i = (IfTree) t;
        j.obj().str("k", "IfStmt"); loc(t);
        j.key("cond"); expr(strip(i.getCondition())); j.closeKey();
        j.key("then"); stmt(i.getThenStatement()); j.closeKey();
        if (i.getElseStatement() != null) { j.key("else"); stmt(i.getElseStatement()); j.closeKey(); }
        j.end();
        return;
      }
      case FOR_LOOP: {
        ForLoopTree f = (ForLoopTree) t;
        scopes.push(new HashMap<>());
        j.obj().str("k", "ForStmt"); loc(t);
        if (!f.getInitializer().isEmpty()) {
          j.key("init");
          if (f.getInitializer().size() == 1) stmt(f.getInitializer().get(0));
          else { j.obj().str("k", "CompoundStmt"); j.arr("c"); for (StatementTree s : f.getInitializer()) stmt(s); j.endArr(); j.end(); }
          j.closeKey();
        }
        if (f.getCondition() != null) { j.key("cond"); expr(f.getCondition()); j.closeKey(); }
        if (!f.getUpdate().isEmpty()) {
          j.key("inc");
          if (f.getUpdate().size() == 1) stmt(f.getUpdate().get(0));
          else { j.obj().str("k", "CompoundStmt"); j.arr("c"); for (StatementTree s : f.getUpdate()) stmt(s); j.endArr(); j.end(); }
          j.closeKey();
        }
        j.key("body"); stmt(f.getStatement()); j.closeKey();
        j.end();
        scopes.pop();
        return;
      }
      case ENHANCED_FOR_LOOP: {
        EnhancedForLoopTree f = (EnhancedForLoopTree) t;
        scopes.push(new HashMap<>());
        j.obj().str("k", "ForEachStmt"); loc(t);
        j.key("var"); var(f.getVariable(), "local"); j.closeKey();
        j.key("range"); expr(f.getExpression()); j.closeKey();
        j.key("body"); stmt(f.getStatement()); j.closeKey();
        j.end();
        scopes.pop();
        return;
      }
      case WHILE_LOOP: {
        WhileLoopTree w = (WhileLoopTree) t;
        j.obj().str("k", "WhileStmt"); loc(t);
        j.key("cond"); expr(strip(w.getCondition())); j.closeKey();
        j.key("body"); stmt(w.getStatement()); j.closeKey();
        j.end();
        return;
      }
      case DO_WHILE_LOOP: {
        DoWhileLoopTree w = (DoWhileLoopTree) t;
        j.obj().str("k", "DoStmt"); loc(t);
        j.key("cond"); expr(strip(w.getCondition())); j.closeKey();
        j.key("body"); stmt(w.getStatement()); j.closeKey();
        j.end();
        return;
      }
      case RETURN: {
        ReturnTree r = (ReturnTree) t;
        j.obj().str("k", "ReturnStmt"); loc(t);
        if (r.getExpression() != null) { j.arr("c"); expr(r.getExpression()); j.endArr(); }
        j.end();
        return;
      }
      case THROW: {
        j.obj().str("k", "ThrowStmt"); loc(t);
        j.arr("c"); expr(((ThrowTree) t).getExpression()); j.endArr(); j.end();
        return;
      }
      case BREAK: j.obj().str("k", "BreakStmt"); loc(t); j.end(); return;
      case CONTINUE: j.obj().str("k", "ContinueStmt"); loc(t); j.end(); return;
      case EMPTY_STATEMENT: j.obj().str("k", "NullStmt"); loc(t); j.end(); return;
      case SWITCH: {
        SwitchTree s = (SwitchTree) t;
        j.obj().str("k", "SwitchStmt"); loc(t);
        j.key("cond"); expr(strip(s.getExpression())); j.closeKey();
        j.key("body"); j.obj().str("k", "CompoundStmt"); j.arr("c");
        scopes.push(new HashMap<>());
        for (CaseTree c : s.getCases()) {
          // one Case/Default node per label; the statements of the arm follow as siblings (C layout)
          List<? extends ExpressionTree> labs = c.getExpressions();
          List<? extends StatementTree> body = c.getStatements();
          int nlab = labs.isEmpty() ? 1 : labs.size();
          // nested labels: case a: case b: stmt0
          for (int i = 0; i < nlab; i++) {
            if (labs.isEmpty()) { j.obj().str("k", "DefaultStmt"); loc(c); }
            else { j.obj().str("k", "CaseStmt"); loc(c); j.key("lhs"); expr(labs.get(i)); j.closeKey(); }
            j.key("sub");
            if (i == nlab - 1) {
              if (body != null && !body.isEmpty()) stmt(body.get(0)); else j.obj().str("k", "NullStmt").end();
            }
          }
          for (int i = 0; i < nlab; i++) { j.closeKey(); j.end(); }
          if (body != null) for (int i = 1; i < body.size(); i++) stmt(body.get(i));
        }
        scopes.pop();
        j.endArr(); j.end(); j.closeKey();
        j.end();
        return;
      }
      case TRY: {
        TryTree tr = (TryTree) t;
        scopes.push(new HashMap<>());
        j.obj().str("k", "TryStmt"); loc(t);
        j.arr("resources");
        for (Tree r : tr.getResources()) { if (r instanceof VariableTree) { j.obj().str("k", "DeclStmt"); j.arr("decls"); var((VariableTree) r, "local"); j.endArr(); j.end(); } else expr(r); }
        j.endArr();
        j.key("block"); stmt(tr.getBlock()); j.closeKey();
        j.arr("catches");
        for (CatchTree c : tr.getCatches()) {
          scopes.push(new HashMap<>());
          j.obj().str("T", c.getParameter().getType().toString());
          j.key("param"); var(c.getParameter(), "local"); j.closeKey();
          j.key("block"); stmt(c.getBlock()); j.closeKey();
          j.end();
          scopes.pop();
        }
        j.endArr();
        if (tr.getFinallyBlock() != null) { j.key("finally"); stmt(tr.getFinallyBlock()); j.closeKey(); }
        j.end();
        scopes.pop();
        return;
      }
      case LABELED_STATEMENT:
        stmt(((LabeledStatementTree) t).getStatement());
        return;
      case SYNCHRONIZED:
        stmt(((SynchronizedTree) t).getBlock());
        return;
      default:
        j.obj().str("k", "Unsupported"); loc(t); j.str("kind", t.getKind().toString()); j.end();
    }
  }

  static ExpressionTree strip(ExpressionTree e) {
    while (e instanceof ParenthesizedTree) e = ((ParenthesizedTree) e).getExpression();
    return e;
  }

  // ---- classes --------------------------------------------------------------------------------------------------
  static void cls(ClassTree c, String file) {
    j.obj().str("name", c.getSimpleName().toString()).str("file", file); loc(c);
    if (c.getExtendsClause() != null) j.str("extends", c.getExtendsClause().toString());
    fieldType.clear();
    for (Tree m : c.getMembers()) if (m instanceof VariableTree) {
      VariableTree v = (VariableTree) m;
      fieldType.put(v.getName().toString(), v.getType() == null ? "" : v.getType().toString());
    }
    j.arr("fields");
    scopes.push(new HashMap<>());
    for (Tree m : c.getMembers()) if (m instanceof VariableTree) {
      VariableTree v = (VariableTree) m;
      j.obj().str("name", v.getName().toString()).str("T", v.getType() == null ? "" : v.getType().toString()); loc(v);
      j.bool("static", v.getModifiers().getFlags().contains(javax.lang.model.element.Modifier.STATIC));
      j.bool("final", v.getModifiers().getFlags().contains(javax.lang.model.element.Modifier.FINAL));
      j.bool("public", v.getModifiers().getFlags().contains(javax.lang.model.element.Modifier.PUBLIC));
      if (v.getInitializer() != null) { j.key("init"); expr(v.getInitializer()); j.closeKey(); }
      j.end();
    }
    j.endArr();
    j.arr("functions");
    for (Tree m : c.getMembers()) {
      if (m instanceof MethodTree) {
        MethodTree f = (MethodTree) m;
        scopes.push(new HashMap<>());
        j.obj().str("name", f.getName().toString().equals("<init>") ? c.getSimpleName().toString() : f.getName().toString());
        j.str("file", file); loc(f);
        j.str("ret", f.getReturnType() == null ? "void" : f.getReturnType().toString());
        j.bool("ctor", f.getName().toString().equals("<init>"));
        j.bool("static", f.getModifiers().getFlags().contains(javax.lang.model.element.Modifier.STATIC));
        j.bool("public", f.getModifiers().getFlags().contains(javax.lang.model.element.Modifier.PUBLIC));
        j.str("access", f.getModifiers().getFlags().contains(javax.lang.model.element.Modifier.PUBLIC) ? "public" :
            f.getModifiers().getFlags().contains(javax.lang.model.element.Modifier.PRIVATE) ? "private" :
            f.getModifiers().getFlags().contains(javax.lang.model.element.Modifier.PROTECTED) ? "protected" : "package");
        j.arr("throws"); for (ExpressionTree e : f.getThrows()) { j.sep(); j.o.append('"').append(esc(e.toString())).append('"'); } j.endArr();
        j.arr("params");
        for (VariableTree p : f.getParameters()) {
          String ty = p.getType().toString();
          long id = declare(p.getName().toString(), "param", ty);
          j.obj().str("name", p.getName().toString()).str("T", ty).str("Ts", ty).num("id", id).end();
        }
        j.endArr();
        if (f.getBody() != null) { j.key("body"); stmt(f.getBody()); j.closeKey(); }
        j.end();
        scopes.pop();
      } else if (m instanceof BlockTree && ((BlockTree) m).isStatic()) {
        scopes.push(new HashMap<>());
        j.obj().str("name", "<clinit>").str("file", file); loc(m); j.str("ret", "void"); j.bool("ctor", false); j.bool("static", true);
        j.bool("public", false); j.str("access", "private"); j.arr("throws"); j.endArr(); j.arr("params"); j.endArr();
        j.key("body"); stmt(m); j.closeKey();
        j.end();
        scopes.pop();
      }
    }
    j.endArr();
    scopes.pop();
    j.end();
    for (Tree m : c.getMembers()) if (m instanceof ClassTree) {
      Map<String, String> saved = new HashMap<>(fieldType);
      Map<String, String> outerFields = new HashMap<>(fieldType);
      clsNested((ClassTree) m, file, c.getSimpleName().toString(), outerFields);
      fieldType.clear(); fieldType.putAll(saved);
    }
  }

  static void clsNested(ClassTree c, String file, String outer, Map<String, String> outerFields) {
    // the members of the outer class stay visible inside a nested class
    cls(c, file);
    // patch: record the nesting in the object just written (append before the closing brace)
    int i = j.o.lastIndexOf("}");
    j.o.insert(i, ",\"outer\":\"" + esc(outer) + "\"");
  }

  public static void main(String[] a) throws Exception {
    if (a.length < 2) { System.err.println("usage: JavaFacts out.json files..."); System.exit(2); }
    JavaCompiler c = ToolProvider.getSystemJavaCompiler();
    StandardJavaFileManager fm = c.getStandardFileManager(null, null, StandardCharsets.UTF_8);
    List<String> files = Arrays.asList(a).subList(1, a.length);
    StringWriter diag = new StringWriter();
    JavacTask t = (JavacTask) c.getTask(diag, fm, null, Arrays.asList("-encoding", "UTF-8", "-proc:none"), null, fm.getJavaFileObjectsFromStrings(files));
    Trees trees = Trees.instance(t);
    pos = trees.getSourcePositions();
    j.obj();
    j.arr("classes");
    int errors = 0;
    for (CompilationUnitTree u : t.parse()) {
      unit = u;
      lines = u.getLineMap();
      for (Tree d : u.getTypeDecls()) if (d instanceof ClassTree) cls((ClassTree) d, u.getSourceFile().getName());
    }
    j.endArr();
    String ds = diag.toString();
    for (String l : ds.split("\n")) if (l.contains(" error: ")) errors++;
    j.num("errors", errors);
    j.str("diagnostics", ds.length() > 4000 ? ds.substring(0, 4000) : ds);
    j.end();
    try (Writer w = new OutputStreamWriter(new FileOutputStream(a[0]), StandardCharsets.UTF_8)) { w.write(j.o.toString()); }
  }
}
