#!/bin/sh
# Runs every claimed check (tier = $1, default quick) on /repo's current tree, prints a summary line per check and
# validates the evidence files against the schema. Used before committing evidence.
TIER=${1:-quick}
cd /verif
rc_all=0
for id in $(python3 -c "import json; print(' '.join(c['property_id'] for c in json.load(open('MANIFEST.json'))['checks']))"); do
  out=$(./xv check $id --tier $TIER 2>&1); rc=$?
  echo "$id rc=$rc $(echo "$out" | tail -1 | cut -c1-120)"
  [ $rc -ne 0 ] && rc_all=1
done
python3-vt - <<'PY'
import json, jsonschema, glob
sch = json.load(open('/root/.vp/EVIDENCE.schema.json'))
man = json.load(open('/verif/MANIFEST.json'))
jsonschema.validate(man, json.load(open('/root/.vp/MANIFEST.schema.json')))
for c in man['checks']:
    ev = json.load(open('/verif/' + c['evidence_file']))
    jsonschema.validate(ev, sch)
    cov = ev['coverage']
    flag = ''
    if ev['level'] != c['level_claimed']['category'] and not (ev['tier'] == 'thorough'):
        flag += ' LEVEL-MISMATCH(%s vs %s)' % (ev['level'], c['level_claimed']['category'])
    if ev['level'] == 'proof' and cov['obligations'] != cov['discharged']:
        flag += ' PROOF-NOT-DISCHARGED'
    print(c['property_id'], ev['tier'], ev['level'], cov['obligations'], cov['discharged'], flag)
print('manifest and evidence valid')
PY
exit $rc_all
