#!/usr/bin/env python3-vt
"""Exact computer algebra for two clauses of C12 (run with the tooling interpreter, which has sympy):
  integral:    2*PI * Integral(DCS_KN(E, u) du, u = -1..1)  ==  CS_KN(E)        (u = cos(theta), dOmega = 2 pi du)
  bounded:     DCS_Thoms(u) - DCS_KN(E, u) >= 0 for E > 0, -1 <= u <= 1, by a certificate: after u = (1-x)/(1+x), x >= 0,
               the numerator is a polynomial in E, x and the (positive) constants with non-negative coefficients only and
               the denominator is a product of positive factors.
Input (stdin, JSON): {"kn": "...", "thoms": "...", "total": "..."} - normal forms printed by xvlib (symbols E, MEC2, RE2, PI,
cos(theta), log(...)).  Output (stdout, JSON): {"integral": true/false, "difference": "...", "bounded": true/false, "witness": "..."}.
No floating point is involved."""
import json
import sys

import sympy as sp


def parse(s, syms):
    s = s.replace('^', '**').replace('cos(theta)', 'u')
    return sp.sympify(s, locals=syms)


def main():
    d = json.load(sys.stdin)
    E, M, R, PI, u, x = sp.symbols('E MEC2 RE2 PI u x', positive=True)
    syms = {'E': E, 'MEC2': M, 'RE2': R, 'PI': PI, 'u': u, 'log': sp.log}
    out = {}
    try:
        kn = parse(d['kn'], syms)
        th = parse(d['thoms'], syms)
        tot = parse(d['total'], syms)
        extra = (kn.free_symbols | th.free_symbols | tot.free_symbols) - {E, M, R, PI, u}
        if extra:
            raise ValueError('symbols outside the class: %s' % sorted(map(str, extra)))
        integral = 2 * PI * sp.integrate(sp.together(kn), (u, -1, 1))
        diff = sp.simplify(integral - tot)
        out['integral'] = bool(diff == 0)
        out['difference'] = str(diff)[:300]
        n = sp.together((th - kn).subs(u, (1 - x) / (1 + x)))
        num, den = sp.fraction(sp.together(n))
        num = sp.expand(num)
        P = sp.Poly(num, E, x, M, R)
        fac = sp.factor_list(den)
        den_pos = fac[0] > 0 and all(sp.Poly(f, E, x, M, R).coeffs() and all(c > 0 for c in sp.Poly(f, E, x, M, R).coeffs()) for f, _ in fac[1])
        neg = [str(m) for m, c in zip(P.monoms(), P.coeffs()) if c < 0]
        out['bounded'] = bool(den_pos and not neg)
        out['witness'] = 'numerator has %d monomials, all coefficients >= 0; denominator %s' % (len(P.coeffs()), sp.factor(den)) if out['bounded'] else \
            'negative coefficients at %s (or denominator not a product of positive factors)' % neg[:5]
    except Exception as ex:       # outside the decidable class
        out['error'] = '%s: %s' % (type(ex).__name__, ex)
    json.dump(out, sys.stdout)


if __name__ == '__main__':
    main()
