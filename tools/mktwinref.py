#!/usr/bin/env python3
"""Writes selftest/twin_reference.json: for every compared C/Java pair that is NOT in the semantic list of rules/c19.py, the path sets
(normal form of the returned value, sign knowledge, calls with arguments) of the C function and of the Java method on the current -
reference - tree.  rules/c19.py uses them as follows: while BOTH sides still have their reference path set, the pair is as equal as
it was when its source fingerprints were compared on the reference tree, so a refactoring of one side is not a difference; as soon
as one side's path set changes, the fingerprints are compared again.  Re-generate only on a tree on which C19 is silent."""
import json, os, sys
HERE = os.path.dirname(os.path.dirname(os.path.abspath(__file__)))
sys.path.insert(0, HERE)
from xvlib.frontend import get_facts
from xvlib.facts import Program
from xvlib.twins import CSide, JavaSide
from xvlib.twinpaths import TwinPaths
from rules.common import strip_err_text, register_error_functions
from rules.c19 import NOT_COMPARED, SEMANTIC_PAIRS, jvalue, cvalue
facts, info = get_facts('/repo')
prog = Program(facts)
prog.info = info
register_error_functions(prog)
C, J = CSide(prog), JavaSide(prog)
T = TwinPaths(prog, C, J, strip_err_text, cvalue, jvalue)
out = {}
for n in sorted(set(C.funcs) & set(J.funcs)):
    if n in NOT_COMPARED or n in SEMANTIC_PAIRS:
        continue
    try:
        out[n] = {'c': T.reference_forms('c', C.funcs[n]), 'j': T.reference_forms('j', J.funcs[n])}
    except Exception as e:
        print('not referenced: %s (%s)' % (n, type(e).__name__))
json.dump(out, open(os.path.join(HERE, 'selftest', 'twin_reference.json'), 'w'), indent=0, sort_keys=True)
print('%d pairs referenced' % len(out))
