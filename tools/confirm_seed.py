#!/usr/bin/env python3
"""Confirm a seeded defect in a scratch worktree (never in /repo):
   - unchanged tree: demo passes;  with patch: still builds, the 33 baseline tests pass, demo fails.
Usage: confirm_seed.py <seed_dir> [<seed_dir> ...]     (seed_dir holds patch.diff + demo.*)
Prints one JSON line per seed and leaves nothing behind."""
import json
import os
import re
import shutil
import subprocess
import sys

WT = '/tmp/confirm/wt'
STABLE_FAIL = {'c++-xrl_functions', 'cs_cp', 'kissel_pe', 'xrlexample6'}


def sh(cmd, cwd=None, timeout=1800):
    p = subprocess.run(cmd, shell=True, cwd=cwd, stdout=subprocess.PIPE, stderr=subprocess.STDOUT, timeout=timeout)
    return p.returncode, p.stdout.decode('utf-8', 'replace')


def demo_commands(path):
    rel = 'seed_out/' + '/'.join(path.split('/')[-2:])
    if path.endswith('.sh'):
        return ['sh ' + rel]
    if path.endswith('.py'):
        return ['python3 ' + rel]
    cmds = []
    with open(path, errors='replace') as fh:
        head = fh.read().split('\n')[:60]
    joined = []
    acc = None
    for l in head:
        t = re.sub(r'^\s*(/\*+|\*+/?|//+|#+!?|""")\s?', '', l).strip()
        if acc is not None:
            acc += ' ' + t.rstrip('\\').strip()
            if not t.endswith('\\'):
                joined.append(acc)
                acc = None
            continue
        if t.endswith('\\'):
            acc = t.rstrip('\\').strip()
            continue
        joined.append(t)
    for s in joined:
        if re.match(r'^((gcc|g\+\+|cc|clang|python3|sh|bash|javac|java)\s|\./|/tmp/|_b/|LD_LIBRARY_PATH=|cd )', s) and not s.startswith('#!/'):
            s = re.sub(r'\s+#.*$', '', s)
            s = re.sub(r'\s+\(.*\)\s*$', '', s)
            s = re.sub(r'\s*;\s*echo\b.*$', '', s)
            cmds.extend(x.strip() for x in s.split('&&'))
    return cmds


def build_and_test(tag):
    rc, out = sh('meson compile -C _b 2>&1 | tail -5', cwd=WT)
    if rc != 0 or 'FAILED' in out or 'error:' in out:
        return None, out
    sh('meson test -C _b --no-rebuild >/dev/null 2>&1', cwd=WT)
    res = {}
    for line in open(os.path.join(WT, '_b/meson-logs/testlog.json')):
        if line.strip():
            d = json.loads(line)
            res[d['name']] = d['result']
    bad = sorted(n for n, r in res.items() if r != 'OK' and n not in STABLE_FAIL)
    okc = sum(1 for n, r in res.items() if r == 'OK')
    return (okc, bad), out


def run_demo(sd, cmds):
    last = (None, '')
    for c in cmds:
        rc, out = sh(c, cwd=WT, timeout=900)
        if rc == 0 and re.search(r'\b(MISMATCH|FAIL(ED)?)\b', out) and not re.search(r'\b0 (mismatch|MISMATCH|fail)', out):
            rc = 1
        last = (rc, out[-1500:])
        if rc != 0 and re.match(r'^(gcc|g\+\+|cc|clang|javac)', c):
            return ('build-failed', c + '\n' + out[-1500:])
    return last


def main():
    seeds = sys.argv[1:]
    os.makedirs('/tmp/confirm', exist_ok=True)
    sh('git -C /repo worktree remove --force %s' % WT)
    shutil.rmtree(WT, ignore_errors=True)
    rc, out = sh('git -C /repo worktree add --detach %s HEAD' % WT)
    if rc != 0:
        print(out)
        sys.exit(2)
    try:
        rc, out = sh('meson setup _b -Dpython-bindings=disabled -Dpython-numpy-bindings=disabled -Dfortran-bindings=disabled', cwd=WT)
        base, out = build_and_test('base')
        print(json.dumps({'baseline': base}))
        for sd in seeds:
            sid = os.path.basename(sd.rstrip('/'))
            r = {'seed': sid}
            dst = os.path.join(WT, 'seed_out', sid)
            shutil.rmtree(dst, ignore_errors=True)
            shutil.copytree(sd, dst)
            demos = [f for f in os.listdir(dst) if f.startswith('demo')]
            if not demos:
                r['error'] = 'no demo'
                print(json.dumps(r))
                continue
            demo = os.path.join(dst, sorted(demos)[0])
            cmds = demo_commands(demo)
            if os.path.exists(os.path.join(dst, 'cmds.txt')):     # explicit command list overrides the header-comment heuristics
                cmds = [l.strip() for l in open(os.path.join(dst, 'cmds.txt')) if l.strip() and not l.startswith('#')]
            r['cmds'] = cmds
            # clean
            sh('git checkout -- . ', cwd=WT)
            b0, _ = build_and_test('clean')
            r['clean_demo'] = run_demo(sd, cmds)
            rc, out = sh('git apply %s' % os.path.join(dst, 'patch.diff'), cwd=WT)
            if rc != 0:
                r['error'] = 'patch does not apply: ' + out[-400:]
                print(json.dumps(r))
                continue
            b1, bout = build_and_test('patched')
            r['patched_tests'] = b1 if b1 else 'BUILD FAILED ' + bout[-600:]
            r['patched_demo'] = run_demo(sd, cmds)
            sh('git checkout -- . ', cwd=WT)
            cd, pd = r['clean_demo'], r['patched_demo']
            r['confirmed'] = bool(b1 and b1[0] >= 33 and not b1[1] and cd[0] == 0 and pd[0] not in (0, None, 'build-failed'))
            r['clean_demo'] = [cd[0], cd[1][-300:]]
            r['patched_demo'] = [pd[0], pd[1][-600:]]
            print(json.dumps(r))
            sys.stdout.flush()
            if r['confirmed'] and os.environ.get('SEED_INSTALL'):
                out_dir = os.path.join('/verif/seeded', sid)
                os.makedirs(out_dir, exist_ok=True)
                for fn in os.listdir(sd):
                    shutil.copy(os.path.join(sd, fn), os.path.join(out_dir, fn))
                meta = {'seed': sid, 'property': sid.split('-')[0], 'confirmed_by': 'tools/confirm_seed.py in a scratch worktree of /repo HEAD',
                        'ran': {'demo_commands': cmds, 'tests_with_patch': '%d pass, unexpected failures %s' % (b1[0], b1[1]),
                                'demo_clean_exit': cd[0], 'demo_patched_exit': pd[0], 'demo_patched_tail': pd[1][-400:]},
                        'needs_to_manifest': 'see notes.md', 'breaks': 'see notes.md'}
                with open(os.path.join(out_dir, 'meta.json'), 'w') as fh:
                    json.dump(meta, fh, indent=1)
    finally:
        sh('git -C /repo worktree remove --force %s' % WT)
        shutil.rmtree(WT, ignore_errors=True)


if __name__ == '__main__':
    main()
